package main

import (
	"encoding/json"
	"flag"
	"fmt"
	"go/ast"
	"go/token"
	"go/types"
	"os"
	"os/exec"
	"path/filepath"
	"sort"
	"strconv"
	"strings"
	"sync"
	"time"
)

type KnownFinding struct {
	Property   string `json:"property"`
	Obligation string `json:"obligation"`
	Status     string `json:"status"` // open | fixed
	Commit     string `json:"commit,omitempty"`
	Witness    string `json:"witness,omitempty"`
	What       string `json:"what"`
}

func loadKnown() []KnownFinding {
	var out struct {
		Findings []KnownFinding `json:"findings"`
	}
	b, err := os.ReadFile(filepath.Join(verifDir(), "known_findings.json"))
	if err != nil {
		return nil
	}
	json.Unmarshal(b, &out)
	return out.Findings
}

func main() {
	if len(os.Args) < 2 {
		fmt.Fprintln(os.Stderr, "usage: govc check|replay|list ...")
		os.Exit(2)
	}
	switch os.Args[1] {
	case "check":
		os.Exit(cmdCheck(os.Args[2:]))
	case "replay":
		os.Exit(cmdReplay(os.Args[2:]))
	case "list":
		os.Exit(cmdList(os.Args[2:]))
	case "names":
		os.Exit(cmdNames(os.Args[2:]))
	}
	fmt.Fprintln(os.Stderr, "unknown command", os.Args[1])
	os.Exit(2)
}

func cmdList(args []string) int {
	fs := flag.NewFlagSet("list", flag.ExitOnError)
	repo := fs.String("repo", "/repo", "repository")
	cm := fs.String("contracts", "auto", "auto|mirror|repo")
	fs.Parse(args)
	prog, err := loadProgram(*repo, *cm)
	if err != nil {
		fmt.Println("load error:", err)
		return 2
	}
	byProp := map[string][]string{}
	for _, b := range prog.Contracts.Order {
		if b.Sub == "" {
			for _, pp := range strings.Split(b.Prop, ",") {
				byProp[strings.TrimSpace(pp)] = append(byProp[strings.TrimSpace(pp)], b.Key)
			}
		}
	}
	var ps []string
	for p := range byProp {
		ps = append(ps, p)
	}
	sort.Strings(ps)
	for _, p := range ps {
		fmt.Printf("%s: %d functions under contract: %s\n", p, len(byProp[p]), strings.Join(byProp[p], ", "))
	}
	for _, e := range prog.bindErrors() {
		fmt.Println("BIND ERROR:", e)
	}
	return 0
}

type checkOpts struct {
	prop, tier, repo, contracts, only string
	verbose                           bool
	timeout, workers                  int
	seed                              int
	canaries                          []map[string]interface{}
}

func cmdCheck(args []string) int {
	fs := flag.NewFlagSet("check", flag.ExitOnError)
	var o checkOpts
	fs.StringVar(&o.prop, "property", "", "property id")
	fs.StringVar(&o.tier, "tier", "quick", "quick|thorough")
	fs.StringVar(&o.repo, "repo", "/repo", "repository")
	fs.StringVar(&o.contracts, "contracts", "auto", "auto|mirror|repo")
	fs.StringVar(&o.only, "only", "", "only this function key (debugging)")
	fs.BoolVar(&o.verbose, "v", false, "verbose")
	fs.IntVar(&o.timeout, "timeout", 0, "per-query timeout (s)")
	fs.IntVar(&o.workers, "workers", 6, "parallel obligations")
	fs.Parse(args)
	if t := os.Getenv("VERIF_TIER"); t != "" {
		o.tier = t
	}
	if s := os.Getenv("VERIF_SEED"); s != "" {
		o.seed, _ = strconv.Atoi(s)
	}
	if o.timeout == 0 {
		o.timeout = 20
		if o.tier == "thorough" {
			o.timeout = 90
		}
	}
	if o.prop == "" {
		fmt.Fprintln(os.Stderr, "--property required")
		return 2
	}
	return runCheck(o)
}

type unitRun struct {
	u     *Unit
	err   string
	rerun func() (*Unit, string) // runs the same unit again (used by the invariant re-binding of repair.go)
}

func runCheck(o checkOpts) int {
	start := time.Now()
	vdir := verifDir()
	// GOVC_SCRATCH: experiment runs (canaries of the thorough tier, seeded-change sweeps) write all their outputs there
	if d := os.Getenv("GOVC_SCRATCH"); d != "" {
		vdir = d
	}
	prog, err := loadProgram(o.repo, o.contracts)
	if err != nil {
		// the repository does not load / type-check: nothing can be verified; this is a broken input, reported as such
		fmt.Println("govc: cannot load repository:", err)
		writeEvidence(vdir, o, nil, nil, nil, time.Since(start).Seconds(), 1, []string{"load error: " + err.Error()}, nil)
		rp := writeReplay(vdir, o.prop, o.prop+"/load", map[string]interface{}{"obligation": o.prop + "/load", "reason": err.Error()})
		fmt.Printf("VIOLATION property=%s replay=%s no-failing-input-found\n", o.prop, rp)
		return 1
	}
	var runs []unitRun
	var funcs []string
	var unitErrsEarly []string
	// the blocks of this property, then - to a fixpoint - the blocks of every callee whose contract one of them was checked
	// against: a caller is verified against the callee's contract, so a change inside the callee that breaks that contract
	// must fail under every property that relies on it (--only restricts the run to one function, without the closure)
	done := map[*Block]bool{}
	runBlock := func(blk *Block) {
		if done[blk] {
			return
		}
		done[blk] = true
		if strings.HasPrefix(blk.Sub, "lit ") {
			// a function literal verified as its own unit against its contract
			fi := prog.Funcs[blk.Key]
			if fi == nil {
				return
			}
			lit := litBySub(fi, blk.Sub)
			if lit == nil {
				unitErrsEarly = append(unitErrsEarly, fmt.Sprintf("%s/%s %s: the function has no such literal any more", o.prop, blk.Key, blk.Sub))
				return
			}
			blk.Bound = true
			funcs = append(funcs, blk.Key+" "+blk.Sub)
			u, e := runUnitLit(prog, fi, blk, o.prop, "", nil, lit)
			u.finish()
			runs = append(runs, unitRun{u, e, func() (*Unit, string) {
				u, e := runUnitLit(prog, fi, blk, o.prop, "", nil, lit)
				u.finish()
				return u, e
			}})
			return
		}
		if blk.Sub != "" {
			return
		}
		fi := prog.Funcs[blk.Key]
		if fi == nil {
			return // reported through bindErrors
		}
		blk.Bound = true
		if blk.Trusted != "" || blk.Opts["inline"] != "" {
			return
		}
		funcs = append(funcs, blk.Key)
		if blk.Opts["split"] == "convkinds" {
			runs = append(runs, convKindRuns(prog, fi, blk, o.prop)...)
			return
		}
		u, e := runUnit(prog, fi, blk, o.prop, "", nil)
		u.finish()
		runs = append(runs, unitRun{u, e, func() (*Unit, string) {
			u, e := runUnit(prog, fi, blk, o.prop, "", nil)
			u.finish()
			return u, e
		}})
	}
	for _, blk := range prog.Contracts.Order {
		if !hasProp(blk.Prop, o.prop) || (o.only != "" && blk.Key != o.only) {
			continue
		}
		runBlock(blk)
	}
	direct := len(runs)
	for next := 0; o.only == "" && next < len(runs); next++ {
		if runs[next].u == nil {
			continue
		}
		for key := range runs[next].u.usedContracts {
			for _, blk := range prog.Contracts.Order {
				if blk.Key == key && !done[blk] && (blk.Sub == "" || strings.HasPrefix(blk.Sub, "lit ")) {
					runBlock(blk)
				}
			}
		}
	}
	_ = direct
	// lemmas
	for _, lm := range prog.Contracts.Lemmas {
		if lm.Prop != o.prop {
			continue
		}
		runs = append(runs, lemmaRun(prog, lm, o.prop))
	}
	var obs []*Obligation
	var unitErrs []string
	collect := func() {
		obs = nil
		unitErrs = append([]string(nil), unitErrsEarly...)
		for _, r := range runs {
			if r.err != "" {
				unitErrs = append(unitErrs, fmt.Sprintf("%s%s: %s", r.u.Name, r.u.Suffix, r.err))
				continue
			}
			obs = append(obs, r.u.Obs...)
		}
	}
	collect()
	runner := &Runner{OutDir: filepath.Join(vdir, "out", "vc", o.prop), Timeout: o.timeout, Workers: o.workers, Confirm: o.tier == "thorough"}
	os.RemoveAll(runner.OutDir)
	runner.Solve(obs)
	// functions with loop invariants that failed as recorded: one more attempt with the invariants re-bound (repair.go)
	if os.Getenv("GOVC_NO_REBIND") == "" {
		fast := &Runner{OutDir: filepath.Join(vdir, "out", "vc", o.prop+"-rebind"), Timeout: 6, Workers: o.workers, SolverSecs: runner.SolverSecs, SolverWins: runner.SolverWins}
		os.RemoveAll(fast.OutDir)
		again := &Runner{OutDir: fast.OutDir, Timeout: o.timeout, Workers: o.workers, Confirm: runner.Confirm, SolverSecs: runner.SolverSecs, SolverWins: runner.SolverWins}
		changed := false
		for i, r := range runs {
			if r.u == nil || r.u.FI == nil || r.rerun == nil || !hasLoopBlocks(prog, r.u.FI.Key) {
				continue
			}
			failed := r.err != ""
			for _, ob := range r.u.Obs {
				if ob.Status != "discharged" {
					failed = true
				}
			}
			if !failed {
				continue
			}
			if nu := repairUnit(prog, r, fast, again); nu != nil {
				runs[i] = unitRun{nu, "", r.rerun}
				changed = true
			}
		}
		if changed {
			collect()
		}
	}

	known := loadKnown()
	isKnown := func(name string) *KnownFinding {
		for i := range known {
			k := &known[i]
			if k.Status == "open" && k.Property == o.prop && k.Obligation == name {
				return k
			}
		}
		return nil
	}
	violations := 0
	discharged := 0
	var failedNames []string
	knownHit := map[string]bool{}
	for _, ob := range obs {
		if ob.Status == "discharged" {
			discharged++
			continue
		}
		if k := isKnown(ob.Name); k != nil {
			if !knownHit[ob.Name] {
				fmt.Printf("KNOWN-FINDING: property=%s %s: %s\n", o.prop, ob.Name, k.What)
			}
			knownHit[ob.Name] = true
			continue
		}
		violations++
		failedNames = append(failedNames, ob.Name)
		rp, confirmed := buildReplay(vdir, prog, o, ob)
		suffix := ""
		if !confirmed {
			suffix = " no-failing-input-found"
		}
		fmt.Printf("VIOLATION property=%s replay=%s%s\n", o.prop, rp, suffix)
		if o.verbose {
			fmt.Printf("  obligation %s (%s) at %s\n  clause: %s\n%s\n", ob.Name, ob.Kind, ob.Pos, ob.Expr, indent(ob.Detail))
		}
	}
	for _, e := range unitErrs {
		violations++
		name := strings.SplitN(e, ": ", 2)[0] + "/verifiable"
		rp := writeReplay(vdir, o.prop, name, map[string]interface{}{"obligation": name, "reason": "the function could not be translated, so none of its obligations is discharged: " + e})
		fmt.Printf("VIOLATION property=%s replay=%s no-failing-input-found\n", o.prop, rp)
		if o.verbose {
			fmt.Println("  ", e)
		}
	}
	for _, e := range prog.bindErrors() {
		// only blocks of this property
		violations++
		name := o.prop + "/binding"
		rp := writeReplay(vdir, o.prop, name+"/"+sanitizeFile(e), map[string]interface{}{"obligation": name, "reason": e})
		fmt.Printf("VIOLATION property=%s replay=%s no-failing-input-found\n", o.prop, rp)
	}
	if len(obs) == 0 && len(unitErrs) == 0 {
		fmt.Printf("govc: no obligations were generated for %s - refusing to report success\n", o.prop)
		violations++
		rp := writeReplay(vdir, o.prop, o.prop+"/no-obligations", map[string]interface{}{"obligation": o.prop + "/no-obligations", "reason": "zero obligations generated"})
		fmt.Printf("VIOLATION property=%s replay=%s no-failing-input-found\n", o.prop, rp)
	}
	wall := time.Since(start).Seconds()
	var kh []string
	for k := range knownHit {
		kh = append(kh, k)
	}
	sort.Strings(kh)
	if o.tier == "thorough" && o.only == "" && os.Getenv("GOVC_SCRATCH") == "" {
		o.canaries = runCanaries(o)
		wall = time.Since(start).Seconds()
	}
	writeEvidence(vdir, o, runs, obs, runner, wall, violations, unitErrs, kh)
	fmt.Printf("govc: %s tier=%s functions=%d obligations=%d discharged=%d failed=%d known=%d unit-errors=%d wall=%.1fs\n",
		o.prop, o.tier, len(funcs), len(obs), discharged, len(failedNames), len(kh), len(unitErrs), wall)
	if o.verbose {
		type slow struct {
			n string
			s float64
		}
		var sl []slow
		for _, ob := range obs {
			if ob.Seconds > 2 {
				sl = append(sl, slow{ob.Name + " [" + ob.Solver + "]", ob.Seconds})
			}
		}
		sort.Slice(sl, func(i, j int) bool { return sl[i].s > sl[j].s })
		for _, x := range sl {
			fmt.Printf("  slow: %.1fs %s\n", x.s, x.n)
		}
		for _, r := range runs {
			for _, n := range r.u.Notes {
				fmt.Println("  note:", n)
			}
		}
	}
	if violations > 0 {
		return 1
	}
	return 0
}

// a block may serve several properties: "prop C04,C05"
func hasProp(list, p string) bool {
	for _, x := range strings.Split(list, ",") {
		if strings.TrimSpace(x) == p {
			return true
		}
	}
	return false
}

func indent(s string) string {
	return "    " + strings.ReplaceAll(s, "\n", "\n    ")
}

// one run per source kind of the numeric conversions (property C02)
func convKindRuns(prog *Program, fi *FuncInfo, blk *Block, prop string) []unitRun {
	var runs []unitRun
	type kcase struct {
		name string
		ty   types.Type
	}
	var cases []kcase
	for _, k := range convKinds {
		cases = append(cases, kcase{k.Name, k.Ty})
	}
	cases = append(cases, kcase{"unsupported", nil})
	// "opt split-only.<prop>=a,b": under that property only the named cases are run (C01 needs the absent case only, which
	// lies in "unsupported": no dynamic type of a supported kind)
	only := map[string]bool{}
	for _, n := range strings.Split(blk.Opts["split-only."+prop], ",") {
		if n != "" {
			only[n] = true
		}
	}
	for _, kc := range cases {
		kc := kc
		if len(only) > 0 && !only[kc.name] {
			continue
		}
		u, e := runUnit(prog, fi, blk, prop, "/from="+kc.name, func(u *Unit) func(env *Env) {
			return func(env *Env) {
				recv := env.vars[u.recvObj]
				si := u.structOf(u.recvObj.Type())
				idx, _ := si.Field("ref")
				ref := u.getField(si, recv, idx)
				refc := u.D.Fresh("ref", SVal)
				env.assume(Same(refc, ref))
				// keep field reads of the receiver syntactically tied to refc
				inil, _ := si.Field("isNil")
				ipres, _ := si.Field("isPresent")
				env.vars[u.recvObj] = u.mkStruct(si, []Term{refc, u.getField(si, recv, inil), u.getField(si, recv, ipres)})
				u.entry.vars[u.recvObj] = env.vars[u.recvObj]
				if kc.ty == nil {
					for _, k := range convKinds {
						id := prog.TypeIDs.ID(k.Ty)
						env.assume(Not(Same(u.rtype(refc), IntLit(int64(id)))))
					}
					return
				}
				id := prog.TypeIDs.ID(kc.ty)
				env.assume(Same(u.rtype(refc), IntLit(int64(id))))
				env.tags[refc.S] = id
				// the concrete input, named so that a model can be replayed
				s := u.sortOf(kc.ty)
				_, un := u.boxFn(s)
				in := u.D.Fresh("input_"+kc.name, s)
				env.assume(Same(App(un, s, refc), in))
				u.useReflect = true
				u.reflectFactsFor(env, refc, kc.ty)
				u.inputConst = in.S
				u.inputKind = kc.name
			}
		})
		u.finish()
		target := ""
		if b, ok := fi.Obj.Type().(*types.Signature).Results().At(0).Type().Underlying().(*types.Basic); ok {
			target = types.Typ[b.Kind()].Name()
		}
		rp := convReplayer(u, fi.Decl.Name.Name, target)
		for _, ob := range u.Obs {
			ob.replayer = rp
		}
		runs = append(runs, unitRun{u, e, nil})
	}
	return runs
}

func lemmaRun(prog *Program, lm *Lemma, prop string) unitRun {
	// lemmas are proved from spec definitions only; not yet supported => reported as unit error
	var anyFi *FuncInfo
	for _, fi := range prog.Funcs {
		if strings.HasSuffix(fi.Pkg.PkgPath, "/v2") {
			anyFi = fi
			break
		}
	}
	u := newUnit(prog, anyFi, &Block{Key: "lemma " + lm.Name}, prop, "")
	u.Name = prop + "/lemma/" + lm.Name
	return unitRun{u, "lemmas are not supported by this engine version", nil}
}

// ---------------------------------------------------------------------------------------------
// evidence

func writeEvidence(vdir string, o checkOpts, runs []unitRun, obs []*Obligation, runner *Runner, wall float64, violations int, unitErrs []string, knownHit []string) {
	discharged := 0
	byBackend := map[string]int{}
	var samples []map[string]interface{}
	vacuity := 0
	kinds := map[string]int{}
	for _, ob := range obs {
		kinds[ob.Kind]++
		if ob.Status == "discharged" {
			discharged++
			s := ob.Solver
			if s == "" {
				s = "simplifier"
			}
			byBackend[s]++
		}
		if ob.Expect == "sat" {
			vacuity++
		}
	}
	// samples: a few obligations with the head of their SMT text
	step := 1
	if len(obs) > 6 {
		step = len(obs) / 6
	}
	for i := 0; i < len(obs) && len(samples) < 8; i += step {
		ob := obs[i]
		s := map[string]interface{}{"obligation": ob.Name, "kind": ob.Kind, "at": ob.Pos, "clause": ob.Expr, "status": ob.Status, "solver": ob.Solver, "seconds": round3(ob.Seconds)}
		if len(ob.Files) > 0 {
			if b, err := os.ReadFile(ob.Files[0]); err == nil {
				txt := string(b)
				if i := strings.LastIndex(txt, "(assert (not "); i >= 0 {
					g := txt[i:]
					if len(g) > 400 {
						g = g[:400] + " ..."
					}
					s["negated_goal"] = g
				}
				s["vc_bytes"] = len(txt)
			}
		}
		samples = append(samples, s)
	}
	funcs := map[string]bool{}
	trusted := map[string]bool{}
	assumed := map[string]bool{}
	inlined := map[string]bool{}
	usedC := map[string]bool{}
	var notes []string
	for _, r := range runs {
		if r.u == nil {
			continue
		}
		funcs[r.u.FI.Key] = true
		for t := range r.u.D.trusted {
			trusted[t] = true
		}
		for a := range r.u.Assumed {
			assumed[a] = true
		}
		for k := range r.u.inlined {
			inlined[k] = true
		}
		for k, p := range r.u.usedContracts {
			usedC[k+" (verified under "+p+")"] = true
		}
		notes = append(notes, r.u.Notes...)
	}
	if len(runs) > 0 && runs[0].u != nil {
		for _, rn := range runs[0].u.Prog.Renamed {
			notes = append(notes, "function under contract found under a new name: "+rn)
		}
	}
	trusted["the govc translation of Go into verification conditions (semantic model of DESIGN.md section 4) and its weakest-precondition/symbolic-execution engine"] = true
	trusted["SMT solvers z3 4.8.12, z3 5.1.0, cvc5 1.0.x: an unsat answer from one of them is accepted"] = true
	secs := map[string]float64{}
	if runner != nil {
		for k, v := range runner.SolverSecs {
			secs[k] = round3(v)
		}
	}
	ev := map[string]interface{}{
		"property_id": o.prop,
		"tier":        o.tier,
		"seed":        o.seed,
		"level":       "proof",
		"wall_s":      round3(wall),
		"violations":  violations,
		"assumptions": keys(assumed),
		"coverage": map[string]interface{}{
			"obligations":              len(obs),
			"discharged":               discharged,
			"checker_cmd":              fmt.Sprintf("bin/govc check --property %s --tier %s", o.prop, o.tier),
			"trusted_base":             keys(trusted),
			"functions_under_contract": keys(funcs),
			"functions_inlined":        keys(inlined),
			"callee_contracts_used":    keys(usedC),
			"obligations_by_kind":      kinds,
			"discharged_by_backend":    byBackend,
			"solver_seconds":           secs,
			"vacuity_probes":           vacuity,
			"known_findings_hit":       knownHit,
			"undecided_units":          unitErrs,
			"bounded_standins":         []string{},
			"per_query_timeout_s":      o.timeout,
			"samples":                  samples,
			"notes":                    dedupe(notes),
			"contracts_source":         contractsSource(runs),
		},
	}
	if o.tier == "thorough" && runner != nil {
		cov := ev["coverage"].(map[string]interface{})
		cov["cross_confirmed_queries"] = runner.Confirmed
		cov["single_family_queries"] = runner.Unconfirmed
		cov["solver_disagreements"] = runner.Disagreements
		cov["selftest_canaries"] = o.canaries
		cov["thorough_explanation"] = "every discharged query is re-answered by the other solver families within a grace period (cross_confirmed = a second family also said unsat; a sat/unsat disagreement fails the obligation); the stored seeded changes of this property are applied to a scratch copy of the current tree and the check must report each of them (selftest_canaries)"
	}
	// GOVC_EVIDENCE_DIR redirects the evidence of experiment runs (seeded changes, ad-hoc mutants) away from /verif/evidence
	edir := filepath.Join(vdir, "evidence")
	if d := os.Getenv("GOVC_EVIDENCE_DIR"); d != "" {
		edir = d
	}
	os.MkdirAll(edir, 0o755)
	b, _ := json.MarshalIndent(ev, "", " ")
	os.WriteFile(filepath.Join(edir, o.prop+".json"), b, 0o644)
}

func contractsSource(runs []unitRun) string {
	for _, r := range runs {
		if r.u != nil {
			return r.u.Prog.Contracts.Source
		}
	}
	return ""
}

func round3(f float64) float64 { return float64(int(f*1000+0.5)) / 1000 }

func keys(m map[string]bool) []string {
	out := []string{}
	for k := range m {
		out = append(out, k)
	}
	sort.Strings(out)
	return out
}

func dedupe(in []string) []string {
	seen := map[string]bool{}
	out := []string{}
	for _, s := range in {
		if !seen[s] {
			seen[s] = true
			out = append(out, s)
		}
	}
	return out
}

func writeReplay(vdir, prop, name string, data map[string]interface{}) string {
	dir := filepath.Join(vdir, "replays", prop)
	os.MkdirAll(dir, 0o755)
	p := filepath.Join(dir, sanitizeFile(name)+".json")
	data["property"] = prop
	b, _ := json.MarshalIndent(data, "", " ")
	os.WriteFile(p, b, 0o644)
	return p
}

// thorough tier self-test: every stored seeded change of this property (/verif/seeded/<prop>-N/patch.diff) is applied to a scratch
// copy of the current tree and the quick check is run on it; it must exit with a violation.  A canary that does not apply to
// the current tree is skipped.  A canary that is NOT reported is printed as a warning (it does not change the exit code:
// it says the check lost sensitivity, not that the property is violated).
func runCanaries(o checkOpts) []map[string]interface{} {
	var out []map[string]interface{}
	seeds, _ := filepath.Glob(filepath.Join(verifDir(), "seeded", o.prop+"-*", "patch.diff"))
	sort.Strings(seeds)
	// negative canaries: behaviour-preserving edits (/verif/benign/<prop>-bN.diff) that the check must NOT report
	benign, _ := filepath.Glob(filepath.Join(verifDir(), "benign", o.prop+"-b*.diff"))
	sort.Strings(benign)
	isBenign := map[string]bool{}
	for _, b := range benign {
		isBenign[b] = true
	}
	seeds = append(seeds, benign...)
	if len(seeds) == 0 {
		return out
	}
	self, err := os.Executable()
	if err != nil {
		return out
	}
	// three at a time: each run is itself parallel over its solver queries
	recs := make([]map[string]interface{}, len(seeds))
	sem := make(chan struct{}, 3)
	var cwg sync.WaitGroup
	var pmu sync.Mutex
	for idx, patch := range seeds {
		idx, patch := idx, patch
		cwg.Add(1)
		sem <- struct{}{}
		go func() {
			defer cwg.Done()
			defer func() { <-sem }()
			id := filepath.Base(filepath.Dir(patch))
			if isBenign[patch] {
				id = strings.TrimSuffix(filepath.Base(patch), ".diff")
			}
			rec := map[string]interface{}{"seed": id}
			if isBenign[patch] {
				rec["kind"] = "behaviour-preserving edit: must not be reported"
			}
			scratch, err := os.MkdirTemp("", "govc-canary-")
			if err != nil {
				rec["result"] = "skipped: " + err.Error()
				recs[idx] = rec
				return
			}
			func() {
				defer os.RemoveAll(scratch)
				repoCopy := filepath.Join(scratch, "repo")
				if b, err := exec.Command("cp", "-a", o.repo, repoCopy).CombinedOutput(); err != nil {
					rec["result"] = "skipped: copy failed: " + strings.TrimSpace(string(b))
					return
				}
				os.RemoveAll(filepath.Join(repoCopy, ".git"))
				ap := exec.Command("git", "apply", "--unsafe-paths", "--directory="+repoCopy, patch)
				ap.Dir = scratch
				if b, err := ap.CombinedOutput(); err != nil {
					// fall back to patch(1)-like application from inside the copy
					ap2 := exec.Command("git", "apply", patch)
					ap2.Dir = repoCopy
					if b2, err2 := ap2.CombinedOutput(); err2 != nil {
						rec["result"] = "skipped: patch does not apply to the current tree: " + strings.TrimSpace(string(b)+" "+string(b2))
						return
					}
				}
				cmd := exec.Command(self, "check", "--property", o.prop, "--tier", "quick", "--repo", repoCopy, "--contracts", o.contracts)
				cmd.Env = append(os.Environ(), "GOVC_SCRATCH="+filepath.Join(scratch, "out"), "VERIF_TIER=quick")
				b, _ := cmd.CombinedOutput()
				n := strings.Count(string(b), "VIOLATION property=")
				rec["violations_reported"] = n
				if isBenign[patch] {
					if n == 0 {
						rec["result"] = "not reported (as it should be)"
					} else if why := knownLimit(id); why != "" {
						rec["result"] = "reported - a known limit of the technique (DESIGN.md 13.10): " + why
						pmu.Lock()
						defer pmu.Unlock()
						fmt.Printf("SELFTEST-NOTE: property=%s behaviour-preserving edit %s is reported (known limit: %s)\n", o.prop, id, why)
					} else {
						rec["result"] = "FALSE ALARM"
						pmu.Lock()
						defer pmu.Unlock()
						fmt.Printf("SELFTEST-WARNING: property=%s behaviour-preserving edit %s was reported as a violation\n", o.prop, id)
					}
					return
				}
				if n > 0 {
					rec["result"] = "detected"
				} else if why := knownMiss(id); why != "" {
					rec["result"] = "not detected - a recorded limit (DESIGN.md 13.11/13.12): " + why
					pmu.Lock()
					fmt.Printf("SELFTEST-NOTE: property=%s seeded change %s is not reported (recorded limit: %s)\n", o.prop, id, why)
					pmu.Unlock()
				} else {
					rec["result"] = "NOT DETECTED"
					pmu.Lock()
					defer pmu.Unlock()
					fmt.Printf("SELFTEST-WARNING: property=%s seeded change %s was not reported by the check\n", o.prop, id)
				}
			}()
			recs[idx] = rec
		}()
	}
	cwg.Wait()
	for _, r := range recs {
		if r != nil {
			out = append(out, r)
		}
	}
	return out
}

// govc names: print the "//@ vars" index (variable names in source order of every function under contract) for the
// contract files of one package directory ("" = root); tools/gen_names.sh writes it to contracts_verif_names.go
func cmdNames(args []string) int {
	fs := flag.NewFlagSet("names", flag.ExitOnError)
	repo := fs.String("repo", "/repo", "repository")
	cm := fs.String("contracts", "mirror", "auto|mirror|repo")
	prefix := fs.String("prefix", "", "key prefix of the package (\"\" or \"network:\")")
	fs.Parse(args)
	prog, err := loadProgram(*repo, *cm)
	if err != nil {
		fmt.Println("load error:", err)
		return 1
	}
	seen := map[string]bool{}
	var keys []string
	for _, b := range prog.Contracts.Order {
		if !seen[b.Key] {
			seen[b.Key] = true
			keys = append(keys, b.Key)
		}
	}
	sort.Strings(keys)
	for _, k := range keys {
		fi := prog.Funcs[k]
		if fi == nil {
			continue
		}
		has := strings.Contains(k, ":")
		if (*prefix == "") == has || (has && !strings.HasPrefix(k, *prefix)) {
			continue
		}
		fmt.Printf("//@ vars %s: %s\n", strings.TrimPrefix(k, *prefix), strings.Join(varsOf(fi), " "))
	}
	// the signatures of all functions of the package (see rebindRenamedFuncs)
	var all []string
	for k := range prog.Funcs {
		has := strings.Contains(k, ":")
		if (*prefix == "") == has || (has && !strings.HasPrefix(k, *prefix)) {
			continue
		}
		all = append(all, k)
	}
	sort.Strings(all)
	for _, k := range all {
		fmt.Printf("//@ sig %s: %s\n", strings.TrimPrefix(k, *prefix), sigString(prog.Funcs[k]))
	}
	return 0
}

// the variables a function declares, in source order: receiver, parameters, named results, locals (also those of its literals)
func varsOf(fi *FuncInfo) []string {
	var out []string
	info := fi.Pkg.TypesInfo
	bodyStart := fi.Decl.End()
	if fi.Decl.Body != nil {
		bodyStart = fi.Decl.Body.Pos()
	}
	sep := false
	ast.Inspect(fi.Decl, func(n ast.Node) bool {
		if id, ok := n.(*ast.Ident); ok {
			if v, ok := info.Defs[id].(*types.Var); ok && !v.IsField() && id.Name != "_" {
				if !sep && id.Pos() >= bodyStart {
					out = append(out, "|") // receiver, parameters, named results | locals
					sep = true
				}
				out = append(out, id.Name+":"+strings.ReplaceAll(types.TypeString(v.Type(), func(*types.Package) string { return "" }), " ", ""))
			}
		}
		return true
	})
	if !sep {
		out = append(out, "|")
	}
	return out
}

func varName(e string) string {
	if i := strings.Index(e, ":"); i >= 0 {
		return e[:i]
	}
	return e
}

func varType(e string) string {
	if i := strings.Index(e, ":"); i >= 0 {
		return e[i+1:]
	}
	return ""
}

func splitVars(vs []string) (sig, locals []string) {
	for i, v := range vs {
		if v == "|" {
			return vs[:i], vs[i+1:]
		}
	}
	return nil, vs
}

// the signature's variables are positional for callers, so a contract reads a recorded signature name as whatever the
// variable at that position is called now - also when the old name still exists elsewhere (two parameters swapped)
func (p *Program) sigRenames(fi *FuncInfo) map[string]string {
	if fi == nil {
		return nil
	}
	if m, ok := p.sigRenameCache[fi]; ok {
		return m
	}
	rs, _ := splitVars(p.Contracts.Vars[fi.Key])
	cs, _ := splitVars(varsOf(fi))
	m := map[string]string{}
	if len(rs) > 0 && len(rs) == len(cs) {
		for i := range rs {
			if varName(rs[i]) != varName(cs[i]) {
				m[varName(rs[i])] = varName(cs[i])
			}
		}
	}
	if p.sigRenameCache == nil {
		p.sigRenameCache = map[*FuncInfo]map[string]string{}
	}
	p.sigRenameCache[fi] = m
	return m
}

// renames[old] = new for the function: positional comparison of the recorded variable list with the present one (only when
// both have the same length, and only for names whose positions agree on one new name)
func (p *Program) renames(fi *FuncInfo) map[string]string {
	if fi == nil {
		return nil
	}
	if m, ok := p.renameCache[fi]; ok {
		return m
	}
	// a recorded local that is gone is read as the new local (one that was not recorded) of the same type; with several of
	// one type, in source order (k-th gone with k-th new).  Independent of how many other variables came or went.
	m := map[string]string{}
	_, rec := splitVars(p.Contracts.Vars[fi.Key])
	_, cur := splitVars(varsOf(fi))
	recNames, curNames := map[string]bool{}, map[string]bool{}
	for _, r := range rec {
		recNames[varName(r)] = true
	}
	for _, c := range cur {
		curNames[varName(c)] = true
	}
	gone := map[string][]string{} // type -> names, in order, no duplicates
	fresh := map[string][]string{}
	seen := map[string]bool{}
	for _, r := range rec {
		if n := varName(r); !curNames[n] && !seen["g"+n] {
			seen["g"+n] = true
			gone[varType(r)] = append(gone[varType(r)], n)
		}
	}
	for _, c := range cur {
		if n := varName(c); !recNames[n] && !seen["f"+n] {
			seen["f"+n] = true
			fresh[varType(c)] = append(fresh[varType(c)], n)
		}
	}
	// first by (type, number of declarations of that name in the function), then by type alone, each in source order
	recCnt, curCnt := map[string]int{}, map[string]int{}
	for _, r := range rec {
		recCnt[varName(r)]++
	}
	for _, c := range cur {
		curCnt[varName(c)]++
	}
	usedFresh := map[string]bool{}
	for t, gs := range gone {
		for _, g := range gs {
			for _, f := range fresh[t] {
				if !usedFresh[f] && curCnt[f] == recCnt[g] {
					m[g] = f
					usedFresh[f] = true
					break
				}
			}
		}
	}
	for t, gs := range gone {
		for _, g := range gs {
			if m[g] != "" {
				continue
			}
			for _, f := range fresh[t] {
				if !usedFresh[f] {
					m[g] = f
					usedFresh[f] = true
					break
				}
			}
		}
	}
	// a recorded name that is still declared, but fewer times than recorded (`s := s` became `sub := s`: the loop variable s stays,
	// the per-iteration copy has a new name): where the name does not resolve any more (lookupName consults this map only then -
	// e.g. inside a literal that captured the copy) it is read as the still unmatched new local of the same type
	thinned := map[string]bool{}
	for _, r := range rec {
		n := varName(r)
		if thinned[n] || m[n] != "" || curCnt[n] == 0 || curCnt[n] >= recCnt[n] {
			continue
		}
		thinned[n] = true
		for _, f := range fresh[varType(r)] {
			if !usedFresh[f] {
				m[n] = f
				usedFresh[f] = true
				break
			}
		}
	}
	if p.renameCache == nil {
		p.renameCache = map[*FuncInfo]map[string]string{}
	}
	p.renameCache[fi] = m
	return m
}

// /verif/benign/KNOWN_LIMITS.txt: "<id>: <why>" for the stored behaviour-preserving edits that this technique cannot keep quiet
func knownLimit(id string) string {
	b, err := os.ReadFile(filepath.Join(verifDir(), "benign", "KNOWN_LIMITS.txt"))
	if err != nil {
		return ""
	}
	for _, l := range strings.Split(string(b), "\n") {
		if strings.HasPrefix(l, id+":") {
			return strings.TrimSpace(strings.TrimPrefix(l, id+":"))
		}
	}
	return ""
}

// counterRenames[name] = ordinal of a range loop without a key variable: a recorded int local that is gone and has no new int
// local to be read as (see renames) is read as the iteration counter of the k-th such loop, in source order - an index loop
// "for i := 0; i < len(x); i++" that became "for _, v := range x" keeps invariants that speak of i
func (p *Program) counterRenames(fi *FuncInfo) map[string]int {
	if fi == nil {
		return nil
	}
	if m, ok := p.counterCache[fi]; ok {
		return m
	}
	m := map[string]int{}
	_, rec := splitVars(p.Contracts.Vars[fi.Key])
	_, cur := splitVars(varsOf(fi))
	curNames := map[string]bool{}
	for _, c := range cur {
		curNames[varName(c)] = true
	}
	taken := p.renames(fi)
	var gone []string
	seen := map[string]bool{}
	for _, r := range rec {
		n := varName(r)
		if varType(r) == "int" && !curNames[n] && taken[n] == "" && !seen[n] {
			seen[n] = true
			gone = append(gone, n)
		}
	}
	if len(gone) > 0 {
		loops, _ := numberLoops(fi.Decl)
		type lo struct {
			pos token.Pos
			ord int
		}
		var anon []lo
		for st, ord := range loops {
			if rs, ok := st.(*ast.RangeStmt); ok {
				if id, isId := rs.Key.(*ast.Ident); rs.Key == nil || (isId && id.Name == "_") {
					anon = append(anon, lo{rs.Pos(), ord})
				}
			}
		}
		sort.Slice(anon, func(a, b int) bool { return anon[a].pos < anon[b].pos })
		for k, g := range gone {
			if k < len(anon) {
				m[g] = anon[k].ord
			}
		}
	}
	if p.counterCache == nil {
		p.counterCache = map[*FuncInfo]map[string]int{}
	}
	p.counterCache[fi] = m
	return m
}

// /verif/seeded/KNOWN_MISSES.txt: "<id>: <why>" for stored seeded changes that the checks do not report
func knownMiss(id string) string {
	b, err := os.ReadFile(filepath.Join(verifDir(), "seeded", "KNOWN_MISSES.txt"))
	if err != nil {
		return ""
	}
	for _, l := range strings.Split(string(b), "\n") {
		if strings.HasPrefix(l, id+":") {
			return strings.TrimSpace(strings.TrimPrefix(l, id+":"))
		}
	}
	return ""
}
