package main

// Go types -> SMT sorts; struct layouts; zero values; type ids.

import (
	"fmt"
	"go/types"
	"sort"
	"strings"
)

type unsupported struct{ msg string }

func unsup(format string, args ...interface{}) {
	panic(unsupported{fmt.Sprintf(format, args...)})
}

type FieldInfo struct {
	Name string
	Sort Sort
	Ty   types.Type
	Emb  bool
}

type StructInfo struct {
	Name   string // SMT sort name
	GoName string
	Fields []FieldInfo
}

func (si *StructInfo) Field(name string) (int, *FieldInfo) {
	for i := range si.Fields {
		if si.Fields[i].Name == name {
			return i, &si.Fields[i]
		}
	}
	return -1, nil
}

// Program-wide registries (type ids must be stable across units)
type TypeReg struct {
	ids   map[string]int
	names []string
}

func (r *TypeReg) ID(t types.Type) int {
	t = types.Unalias(t)
	if b, ok := t.(*types.Basic); ok && b.Kind() < types.UntypedBool {
		t = types.Typ[b.Kind()]
	}
	key := types.TypeString(t, nil)
	if id, ok := r.ids[key]; ok {
		return id
	}
	if r.ids == nil {
		r.ids = map[string]int{}
	}
	id := len(r.names) + 100
	r.ids[key] = id
	r.names = append(r.names, key)
	return id
}

// library struct types whose exported fields the repository reads and writes: modelled like its own structs
func isModelledLibStruct(pkgPath, name string) bool {
	return pkgPath == "net/http" && (name == "Client" || name == "Request" || name == "Response")
}

func isOpaquePkg(path string) bool {
	switch path {
	case "sync", "sync/atomic", "time", "context", "net/http", "io", "bytes", "mime/multipart", "os", "net/url", "regexp", "encoding/json":
		return true
	}
	return false
}

func namedOrigin(t types.Type) (*types.Named, bool) {
	t = types.Unalias(t)
	n, ok := t.(*types.Named)
	if !ok {
		return nil, false
	}
	return n.Origin(), true
}

func typeNameOf(t types.Type) string {
	t = types.Unalias(t)
	if p, ok := t.(*types.Pointer); ok {
		return typeNameOf(p.Elem())
	}
	if n, ok := t.(*types.Named); ok {
		return n.Obj().Name()
	}
	return ""
}

func isErrorType(t types.Type) bool {
	t = types.Unalias(t)
	if n, ok := t.(*types.Named); ok {
		return n.Obj().Pkg() == nil && n.Obj().Name() == "error"
	}
	return false
}

// constraint classification of a type parameter
func typeParamClass(tp *types.TypeParam) string {
	c := tp.Constraint()
	if n, ok := types.Unalias(c).(*types.Named); ok {
		switch n.Obj().Name() {
		case "Numeric":
			return "numeric"
		case "Ordered":
			return "ordered"
		}
	}
	return "any"
}

func (u *Unit) sortOf(t types.Type) Sort {
	t = types.Unalias(t)
	switch tt := t.(type) {
	case *types.Basic:
		switch tt.Kind() {
		case types.Bool, types.UntypedBool:
			return SBool
		case types.String, types.UntypedString:
			return SStr
		case types.Float32:
			if u.BV {
				return SF32
			}
			return "Real"
		case types.Float64, types.UntypedFloat:
			if u.BV {
				return SF64
			}
			return "Real"
		case types.UnsafePointer:
			return SRef
		case types.UntypedNil:
			return SVal
		}
		if tt.Info()&types.IsInteger != 0 {
			if u.BV {
				return BV(intBits(tt))
			}
			return SInt
		}
		unsup("basic type %s", tt)
	case *types.Named:
		obj := tt.Obj()
		if obj.Pkg() == nil && obj.Name() == "error" {
			return SErr
		}
		if obj.Pkg() != nil {
			pp := obj.Pkg().Path()
			if pp == "reflect" {
				switch obj.Name() {
				case "Kind":
					return SInt
				case "Type":
					return SRType
				case "Value":
					return SVal
				}
			}
			if pp == "time" && obj.Name() == "Duration" {
				return SInt
			}
			if isModelledLibStruct(pp, obj.Name()) {
				return Sort(u.structInfo(tt).Name)
			}
			if isOpaquePkg(pp) {
				if _, isSig := tt.Underlying().(*types.Signature); isSig {
					return SFn
				}
				if _, isIface := tt.Underlying().(*types.Interface); isIface {
					return SVal
				}
				if _, isPtr := tt.Underlying().(*types.Pointer); isPtr {
					return SRef
				}
				if _, isMap := tt.Underlying().(*types.Map); isMap {
					return SRef
				}
				return SInt // opaque token
			}
		}
		if _, ok := tt.Underlying().(*types.Struct); ok {
			return Sort(u.structInfo(tt).Name)
		}
		return u.sortOf(tt.Underlying())
	case *types.Pointer:
		return SRef
	case *types.Slice:
		return SSlice
	case *types.Map, *types.Chan:
		return SRef
	case *types.Signature:
		return SFn
	case *types.Interface:
		return SVal
	case *types.TypeParam:
		if typeParamClass(tt) == "numeric" {
			return SInt
		}
		return SVal
	case *types.Struct:
		if tt.NumFields() == 0 {
			return SInt
		}
		unsup("anonymous struct type")
	case *types.Tuple:
		unsup("tuple type as value")
	}
	unsup("type %s", t)
	return ""
}

func intBits(b *types.Basic) int {
	switch b.Kind() {
	case types.Int8, types.Uint8:
		return 8
	case types.Int16, types.Uint16:
		return 16
	case types.Int32, types.Uint32:
		return 32
	case types.Int64, types.Uint64:
		return 64
	case types.Int, types.Uint, types.Uintptr, types.UntypedInt, types.UntypedRune:
		return wordBits
	}
	return 64
}

var wordBits = 64

func isUnsigned(t types.Type) bool {
	if b, ok := types.Unalias(t).Underlying().(*types.Basic); ok {
		return b.Info()&types.IsUnsigned != 0
	}
	return false
}
func isIntegerT(t types.Type) bool {
	if t == nil {
		return false
	}
	if b, ok := types.Unalias(t).Underlying().(*types.Basic); ok {
		return b.Info()&types.IsInteger != 0
	}
	return false
}
func isFloatT(t types.Type) bool {
	if b, ok := types.Unalias(t).Underlying().(*types.Basic); ok {
		return b.Info()&types.IsFloat != 0
	}
	return false
}
func isStringT(t types.Type) bool {
	if b, ok := types.Unalias(t).Underlying().(*types.Basic); ok {
		return b.Info()&types.IsString != 0
	}
	return false
}
func isBoolT(t types.Type) bool {
	if b, ok := types.Unalias(t).Underlying().(*types.Basic); ok {
		return b.Info()&types.IsBoolean != 0
	}
	return false
}

func (u *Unit) structInfo(n *types.Named) *StructInfo {
	org := n.Origin()
	name := "St_" + org.Obj().Name()
	if org.Obj().Pkg() != nil && org.Obj().Pkg().Name() != "fpgo" {
		name = "St_" + org.Obj().Pkg().Name() + "_" + org.Obj().Name()
	}
	if si, ok := u.structs[name]; ok {
		return si
	}
	st := n.Underlying().(*types.Struct)
	si := &StructInfo{Name: name, GoName: org.Obj().Name()}
	u.structs[name] = si // pre-register (recursive types go through pointers -> Ref)
	for i := 0; i < st.NumFields(); i++ {
		f := st.Field(i)
		si.Fields = append(si.Fields, FieldInfo{Name: f.Name(), Sort: u.sortOf(f.Type()), Ty: f.Type(), Emb: f.Embedded()})
	}
	// declare datatype
	var b strings.Builder
	fmt.Fprintf(&b, "(declare-datatypes ((%s 0)) (((mk_%s", name, name)
	for _, f := range si.Fields {
		fmt.Fprintf(&b, " (%s.%s %s)", name, f.Name, f.Sort)
	}
	if len(si.Fields) == 0 {
		fmt.Fprintf(&b, " (%s._dummy Int)", name)
	}
	b.WriteString("))))")
	u.D.Once("struct:"+name, b.String())
	return si
}

func (u *Unit) structOf(t types.Type) *StructInfo {
	t = types.Unalias(t)
	if p, ok := t.(*types.Pointer); ok {
		t = types.Unalias(p.Elem())
	}
	n, ok := t.(*types.Named)
	if !ok {
		unsup("struct info of non-named type %s", t)
	}
	if _, ok := n.Underlying().(*types.Struct); !ok {
		unsup("struct info of non-struct %s", t)
	}
	return u.structInfo(n)
}

func (u *Unit) mkStruct(si *StructInfo, fields []Term) Term {
	if len(si.Fields) == 0 {
		return App("mk_"+si.Name, Sort(si.Name), IntLit(0))
	}
	return App("mk_"+si.Name, Sort(si.Name), fields...)
}

func (u *Unit) getField(si *StructInfo, v Term, i int) Term {
	f := si.Fields[i]
	// simplify (St.f (mk_St a b c)) syntactically
	prefix := "(mk_" + si.Name + " "
	if strings.HasPrefix(v.S, prefix) {
		parts := splitSexpArgs(v.S[len(prefix) : len(v.S)-1])
		if len(parts) == len(si.Fields) {
			return Term{parts[i], f.Sort}
		}
	}
	return App(si.Name+"."+f.Name, f.Sort, v)
}

func splitSexpArgs(s string) []string {
	var out []string
	i := 0
	for i < len(s) {
		for i < len(s) && s[i] == ' ' {
			i++
		}
		if i >= len(s) {
			break
		}
		e, n := readSexp(s[i:])
		out = append(out, e)
		i += n
	}
	return out
}

func (u *Unit) setField(si *StructInfo, v Term, i int, nv Term) Term {
	fs := make([]Term, len(si.Fields))
	for j := range si.Fields {
		if j == i {
			fs[j] = nv
		} else {
			fs[j] = u.getField(si, v, j)
		}
	}
	return u.mkStruct(si, fs)
}

// zero value of a Go type
func (u *Unit) zero(t types.Type) Term {
	s := u.sortOf(t)
	tu := types.Unalias(t)
	switch s {
	case SInt:
		return IntLit(0)
	case SBool:
		return False
	case SRef:
		return Term{"nil_Ref", SRef}
	case SErr:
		return Term{"nil_Err", SErr}
	case SFn:
		return Term{"nil_Fn", SFn}
	case SSlice:
		return nilSlice
	case SStr:
		return u.strLit("")
	case SF32:
		return Term{"((_ to_fp 8 24) RNE 0.0)", SF32}
	case SF64:
		return Term{"((_ to_fp 11 53) RNE 0.0)", SF64}
	case "Real":
		return Term{"0.0", "Real"}
	case SVal:
		if tp, ok := tu.(*types.TypeParam); ok {
			name := "zero_" + tp.Obj().Name()
			u.D.Once("const:"+name, fmt.Sprintf("(declare-const %s Val)", name))
			return Term{name, SVal}
		}
		return Term{"nil_Val", SVal}
	}
	if n, ok := s.IsBV(); ok {
		return bvLit(0, n)
	}
	if strings.HasPrefix(string(s), "St_") {
		si := u.structOf(t)
		var fs []Term
		for _, f := range si.Fields {
			fs = append(fs, u.zero(f.Ty))
		}
		return u.mkStruct(si, fs)
	}
	unsup("zero value of %s", t)
	return Term{}
}

var nilSlice = Term{"(mkSlice nil_Ref 0 0 0)", SSlice}

func bvLit(v uint64, n int) Term {
	if n < 64 {
		v &= (1 << uint(n)) - 1
	}
	return Term{fmt.Sprintf("(_ bv%d %d)", v, n), BV(n)}
}

func (u *Unit) strLit(s string) Term {
	id, ok := u.Prog.strIDs[s]
	if !ok {
		id = len(u.Prog.strIDs)
		u.Prog.strIDs[s] = id
	}
	name := fmt.Sprintf("str_%d", id)
	u.D.Once("const:"+name, fmt.Sprintf("(declare-const %s Str) ; %q", name, s))
	u.strUsed[name] = true
	return Term{name, SStr}
}

// distinctness of all string literals / error globals used in this unit (emitted at query time)
func (u *Unit) distinctAxioms() []Term {
	var out []Term
	if len(u.strUsed) > 1 {
		var ns []string
		for n := range u.strUsed {
			ns = append(ns, n)
		}
		sort.Strings(ns)
		out = append(out, Term{"(distinct " + strings.Join(ns, " ") + ")", SBool})
	}
	if len(u.errUsed) > 0 {
		ns := []string{"nil_Err"}
		for n := range u.errUsed {
			ns = append(ns, n)
		}
		sort.Strings(ns)
		out = append(out, Term{"(distinct " + strings.Join(ns, " ") + ")", SBool})
	}
	if len(u.methodConsts) > 0 {
		ns := []string{"nil_Fn"}
		for n := range u.methodConsts {
			ns = append(ns, n)
		}
		sort.Strings(ns)
		out = append(out, Term{"(distinct " + strings.Join(ns, " ") + ")", SBool})
	}
	return out
}
