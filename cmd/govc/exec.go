package main

// Symbolic execution of Go function bodies over the typed AST, producing named obligations.

import (
	"fmt"
	"go/ast"
	"go/token"
	"go/types"
	"sort"
	"strings"

	"golang.org/x/tools/go/packages"
)

type Value struct {
	Term
	Ty types.Type
}

type deferred struct {
	call *ast.CallExpr
}

type Env struct {
	vars      map[types.Object]Term
	heaps     map[string]Term
	pc        []Term
	tags      map[string]int    // term -> known dynamic type id
	alias     map[string]Term   // spec-only names (e.g. _i)
	held      map[string]string // lock term -> "R" | "W"
	defers    []deferred
	clock     Term // allocation clock
	postFrame *postFrame
	tr        *traceState
	delegated int
	aliasTy   map[string]types.Type
	trace     Term // ghost event trace (sequence id)
	tlen      Term
}

func (e *Env) clone() *Env {
	n := &Env{vars: make(map[types.Object]Term, len(e.vars)), heaps: make(map[string]Term, len(e.heaps)),
		tags: make(map[string]int, len(e.tags)), alias: make(map[string]Term, len(e.alias)), held: make(map[string]string, len(e.held)),
		clock: e.clock, trace: e.trace, tlen: e.tlen, delegated: e.delegated, tr: e.tr, aliasTy: make(map[string]types.Type, len(e.aliasTy))}
	for k, v := range e.aliasTy {
		n.aliasTy[k] = v
	}
	for k, v := range e.vars {
		n.vars[k] = v
	}
	for k, v := range e.heaps {
		n.heaps[k] = v
	}
	for k, v := range e.tags {
		n.tags[k] = v
	}
	for k, v := range e.alias {
		n.alias[k] = v
	}
	for k, v := range e.held {
		n.held[k] = v
	}
	n.pc = append([]Term(nil), e.pc...)
	n.defers = append([]deferred(nil), e.defers...)
	return n
}

func (e *Env) assume(t Term) {
	if t.S == "true" {
		return
	}
	e.pc = append(e.pc, t)
}

type outKind int

const (
	oNext outKind = iota
	oBreak
	oContinue
	oReturn
	oPanic
	oDead
)

type Outcome struct {
	env   *Env
	kind  outKind
	label string
	vals  []Value
	pos   token.Pos
}

type Program struct {
	Pkgs                 []*packages.Package
	Fset                 *token.FileSet
	Contracts            *Contracts
	Funcs                map[string]*FuncInfo // key -> info (per package path + key)
	funcByObj            map[*types.Func]*FuncInfo
	perIterationLoopVars bool // go.mod says go >= 1.22
	TypeIDs              TypeReg
	strIDs               map[string]int
	renameCache          map[*FuncInfo]map[string]string
	sigRenameCache       map[*FuncInfo]map[string]string
	counterCache         map[*FuncInfo]map[string]int
	Renamed              []string                // functions under contract found under a new name (rebindRenamedFuncs)
	repair               map[string]*repairState // functions being re-verified with re-bound loop invariants (repair.go)
}

type FuncInfo struct {
	Key  string
	Pkg  *packages.Package
	Decl *ast.FuncDecl
	Obj  *types.Func
}

type Unit struct {
	Prog          *Program
	Pkg           *packages.Package
	Info          *types.Info
	FI            *FuncInfo
	Block         *Block
	D             *Decls
	BV            bool
	Prop          string
	Name          string // obligation name prefix
	Suffix        string
	Obs           []*Obligation
	obIdx         map[string]*Obligation
	structs       map[string]*StructInfo
	strUsed       map[string]bool
	errUsed       map[string]bool
	entry         *Env
	results       []types.Object
	resTys        []types.Type
	depth         int
	loops         map[ast.Stmt]int
	lits          map[*ast.FuncLit]int
	curFn         []*FuncInfo // inline stack
	Assumed       map[string]bool
	Notes         []string
	litOwner      *FuncInfo
	retVals       []Value // spec evaluation: result values
	inSpec        bool
	oldEnv        *Env
	pathCount     int
	extraEntry    []Term
	heapsHavocked bool
	modifiesAll   bool
	modifiesRefs  map[string][]Term
	mapIter       []mapIterInfo
	muteObs       bool
	inClosure     int
	useReflect    bool
	poolObjs      map[string]Term
	addrTaken     map[types.Object]Term
	inlined       map[string]bool
	usedContracts map[string]string
	noFrame       bool
	ownCtx        *specCtx
	recvObj       types.Object
	entryPC       []Term
	usesLocks     bool
	knownLits     map[string]*litInfo
	specLoopOrd   int        // 1 + ordinal of the loop whose clauses are being evaluated (0: none)
	heldLits      []*litInfo // literals handed to callees that only store them ("opt holds-callbacks")
	methodConsts  map[string]bool
	recvActualTy  types.Type
	calleeFacts   map[string]bool
	namedResults  map[string]bool
	inputConst    string
	inputKind     string
	ghosts        map[string]types.Object
	ghostTy       map[string]types.Type
	lamTok        map[string]string
	boxedStatic   map[string]types.Type
	tparamWitness map[string][]Term
	litDepth      int
	litTarget     *ast.FuncLit
	inRangeChan   bool
	heapSorts     map[string]Sort
	preHeaps      map[string]Sort
	setupDone     bool
}

func (u *Unit) note(s string) {
	u.Notes = append(u.Notes, s)
}

func (u *Unit) assumeUsed(s string) {
	u.Assumed[s] = true
}

func (u *Unit) pos(p token.Pos) string {
	if !p.IsValid() {
		return ""
	}
	ps := u.Prog.Fset.Position(p)
	f := ps.Filename
	if i := strings.LastIndex(f, "/repo/"); i >= 0 {
		f = f[i+6:]
	}
	return fmt.Sprintf("%s:%d", f, ps.Line)
}

// emit an obligation query
func (u *Unit) assert(env *Env, name, kind string, pos token.Pos, expr string, goal Term) {
	if u.muteObs {
		return
	}
	full := u.Name + "/" + name + u.Suffix
	ob := u.obIdx[full]
	if ob == nil {
		ob = &Obligation{Name: full, Kind: kind, Func: u.FI.Key, Pos: u.pos(pos), Expr: expr, Decls: u.D, Expect: "unsat"}
		u.obIdx[full] = ob
		u.Obs = append(u.Obs, ob)
	}
	if goal.S == "true" {
		ob.Queries = append(ob.Queries, Query{Path: u.pos(pos), Goal: goal})
		return
	}
	pre := append([]Term(nil), env.pc...)
	ob.Queries = append(ob.Queries, Query{Path: u.pos(pos), Pre: pre, Goal: goal})
}

// safety assertion: name derived from kind + expression text (no line numbers in the name)
func (u *Unit) safety(env *Env, kind string, pos token.Pos, expr string, goal Term) {
	if u.inSpec {
		return
	}
	fn := ""
	if len(u.curFn) > 1 {
		fn = "via=" + u.curFn[len(u.curFn)-1].Key + "/"
	}
	e := expr
	if len(e) > 60 {
		e = e[:60]
	}
	u.assert(env, fmt.Sprintf("%s/%s%s", kind, fn, e), kind, pos, expr, goal)
	// after the check, execution continues only where it held
	env.assume(goal)
}

func (u *Unit) exprText(e ast.Node) string {
	if e == nil {
		return ""
	}
	s := nodeString(u.Prog.Fset, e)
	s = strings.Join(strings.Fields(s), " ")
	return s
}

// ---------------------------------------------------------------------------------------------
// heaps

func (u *Unit) heap(env *Env, name string, sort Sort) Term {
	if h, ok := env.heaps[name]; ok {
		return h
	}
	u.heapSorts[name] = sort
	if u.preHeaps != nil && u.setupDone {
		if _, known := u.preHeaps[name]; !known {
			unsup("heap %s first touched in the second pass", name)
		}
	}
	// first touch: this heap has been unchanged since entry; create the entry heap constant
	cname := "H0_" + name
	u.D.Once("const:"+cname, fmt.Sprintf("(declare-const %s %s)", cname, sort))
	h := Term{cname, sort}
	if u.entry != nil {
		if _, ok := u.entry.heaps[name]; !ok {
			u.entry.heaps[name] = h
			u.entryHeapAxioms(name, h)
		}
	}
	env.heaps[name] = h
	return h
}

// everything stored in an entry heap existed at entry
func (u *Unit) entryHeapAxioms(name string, h Term) {
	es := arrElemSort(h.Sort)
	u.birthDecl()
	if name == mapLenName {
		r := u.D.Bound("r", SRef)
		u.D.Axiom("maplen-nonneg:"+h.S, Forall([]Term{r}, le(IntLit(0), Select(h, r)), []Term{Select(h, r)}).S)
		return
	}
	if strings.HasPrefix(string(es), "(Array ") && !strings.HasPrefix(string(es), "(Array Int ") {
		// map value heaps
		if f, ok := u.closedHeapFact(h, IntLit(1)); ok {
			u.D.Axiom("closed:"+name, f.S)
		}
		return
	}
	if es == SVal && !u.BV {
		if f, ok := u.closedHeapFact(h, IntLit(1)); ok {
			u.D.Axiom("closed:"+name, f.S)
		}
		return
	}
	switch {
	case es == SRef:
		r := u.D.Bound("r", SRef)
		old := le(App("birth", SInt, r), IntLit(0))
		u.D.Axiom("closed:"+name, Forall([]Term{r}, Imp(old, App("<=", SBool, App("birth", SInt, Select(h, r)), IntLit(0))), []Term{Select(h, r)}).S)
	case es == SSlice:
		r := u.D.Bound("r", SRef)
		old := le(App("birth", SInt, r), IntLit(0))
		u.D.Axiom("closed:"+name, Forall([]Term{r}, Imp(old, App("<=", SBool, App("birth", SInt, App("s_base", SRef, Select(h, r))), IntLit(0))), []Term{Select(h, r)}).S)
	case strings.HasPrefix(string(es), "(Array Int "):
		inner := arrElemSort(es)
		r := u.D.Bound("r", SRef)
		i := u.D.Bound("i", SInt)
		cell := Select(Select(h, r), i)
		old := le(App("birth", SInt, r), IntLit(0))
		if inner == SRef {
			u.D.Axiom("closed:"+name, Forall([]Term{r, i}, Imp(old, App("<=", SBool, App("birth", SInt, cell), IntLit(0))), []Term{cell}).S)
		} else if inner == SSlice {
			u.D.Axiom("closed:"+name, Forall([]Term{r, i}, Imp(old, And(App("<=", SBool, App("birth", SInt, App("s_base", SRef, cell)), IntLit(0)), u.validSliceT(cell))), []Term{cell}).S)
		}
	}
}

// every reference stored in heap h under a holder that exists (allocated before bound) was itself allocated before bound:
// a heap never contains a reference to something allocated later.  Returns false-y (empty term) when the heap stores no references.
func (u *Unit) closedHeapFact(h Term, bound Term) (Term, bool) {
	es := arrElemSort(h.Sort)
	u.birthDecl()
	r := u.D.Bound("r", SRef)
	holder := lt(App("birth", SInt, r), bound)
	before := func(t Term) Term { return lt(App("birth", SInt, t), bound) }
	switch {
	case es == SRef:
		return Forall([]Term{r}, Imp(holder, before(Select(h, r))), []Term{Select(h, r)}), true
	case es == SSlice:
		return Forall([]Term{r}, Imp(holder, before(App("s_base", SRef, Select(h, r)))), []Term{Select(h, r)}), true
	case es == SVal:
		// an interface-typed field may hold a pointer: it points to something that exists
		_, un := u.boxFn(SRef)
		return Forall([]Term{r}, Imp(holder, before(App(un, SRef, Select(h, r)))), []Term{Select(h, r)}), true
	case strings.HasPrefix(string(es), "(Array "):
		inner := arrElemSort(es)
		ksort := arrKeySort(es)
		i := u.D.Bound("i", ksort)
		cell := Select(Select(h, r), i)
		if inner == SRef {
			return Forall([]Term{r, i}, Imp(holder, before(cell)), []Term{cell}), true
		}
		if inner == SSlice {
			return Forall([]Term{r, i}, Imp(holder, before(App("s_base", SRef, cell))), []Term{cell}), true
		}
		if inner == SVal && ksort != SInt {
			// an interface value stored in a map may hold a pointer: it points to something that exists
			_, un := u.boxFn(SRef)
			return Forall([]Term{r, i}, Imp(holder, before(App(un, SRef, cell))), []Term{cell}), true
		}
	}
	return Term{}, false
}

// after heaps were replaced by unknown ones (loop head, call, callback): the new heaps are closed at the current clock
func (u *Unit) assumeClosedHeaps(env *Env) {
	var names []string
	for n := range env.heaps {
		names = append(names, n)
	}
	sort.Strings(names)
	for _, n := range names {
		h := env.heaps[n]
		if !(strings.HasPrefix(h.S, "hv_") || strings.HasPrefix(h.S, "hc_") || strings.HasPrefix(h.S, "cb_")) {
			continue
		}
		if f, ok := u.closedHeapFact(h, env.clock); ok {
			env.assume(f)
		}
	}
}

func (u *Unit) birthDecl() {
	u.D.Fun("birth", SInt, SRef)
	u.D.Axiom("birth-nil", "(= (birth nil_Ref) 0)")
}

func (u *Unit) birth(r Term) Term {
	u.birthDecl()
	return App("birth", SInt, r)
}

func (u *Unit) setHeap(env *Env, name string, h Term) {
	env.heaps[name] = h
}

func sliceHeapName(elem Sort) string { return "SH_" + elem.Mangle() }
func ptrHeapName(elem Sort) string   { return "PH_" + elem.Mangle() }
func fieldHeapName(si *StructInfo, f string) string {
	return "FH_" + si.GoName + "_" + f
}

// the key set of a map does not depend on the value type (so generic callee contracts and concrete callers agree on it)
func mapDomName(k, v Sort) string { return "MD_" + k.Mangle() }
func mapValName(k, v Sort) string { return "MV_" + k.Mangle() + "_" + v.Mangle() }

const mapLenName = "ML"

func sBase(s Term) Term { return simplSel("s_base", 0, SRef, s) }
func sOff(s Term) Term  { return simplSel("s_off", 1, SInt, s) }
func sLen(s Term) Term  { return simplSel("s_len", 2, SInt, s) }
func sCap(s Term) Term  { return simplSel("s_cap", 3, SInt, s) }

func simplSel(sel string, idx int, sort Sort, s Term) Term {
	if strings.HasPrefix(s.S, "(mkSlice ") {
		parts := splitSexpArgs(s.S[len("(mkSlice ") : len(s.S)-1])
		if len(parts) == 4 {
			return Term{parts[idx], sort}
		}
	}
	return App(sel, sort, s)
}
func mkSlice(base, off, ln, cp Term) Term { return App("mkSlice", SSlice, base, off, ln, cp) }

func (u *Unit) validSliceT(s Term) Term {
	return And(App("<=", SBool, IntLit(0), sOff(s)), App("<=", SBool, IntLit(0), sLen(s)), App("<=", SBool, sLen(s), sCap(s)),
		Imp(Same(sBase(s), Term{"nil_Ref", SRef}), Same(sCap(s), IntLit(0))))
}

func add(a, b Term) Term {
	if b.S == "0" {
		return a
	}
	if a.S == "0" {
		return b
	}
	return App("+", SInt, a, b)
}
func sub(a, b Term) Term {
	if b.S == "0" {
		return a
	}
	return App("-", SInt, a, b)
}
func le(a, b Term) Term { return App("<=", SBool, a, b) }
func lt(a, b Term) Term { return App("<", SBool, a, b) }

// read element i of slice s (no bounds check here)
func (u *Unit) sliceGet(env *Env, s Term, elem Sort, i Term) Term {
	h := u.heap(env, sliceHeapName(elem), ArrS(SRef, ArrS(SInt, elem)))
	return Select(Select(h, sBase(s)), u.idx(s, i))
}

// position of element i of slice s in its backing array: an uninterpreted symbol (defined by an axiom) rather than
// s_off(s)+i, so that quantifier patterns over slice elements match syntactically on i
func (u *Unit) idx(s, i Term) Term {
	if u.BV {
		return add(sOff(s), i)
	}
	u.D.Fun("idx", SInt, SSlice, SInt)
	u.D.Axiom("idx-def", "(forall ((s Slice) (i Int)) (! (= (idx s i) (+ (s_off s) i)) :pattern ((idx s i))))")
	return App("idx", SInt, s, i)
}

func (u *Unit) sliceSet(env *Env, s Term, elem Sort, i Term, v Term) {
	name := sliceHeapName(elem)
	h := u.heap(env, name, ArrS(SRef, ArrS(SInt, elem)))
	nh := Store(h, sBase(s), Store(Select(h, sBase(s)), u.idx(s, i), v))
	u.setHeap(env, name, u.define(env, "h_"+name, nh))
}

// introduce a definition (keeps terms small)
func (u *Unit) define(env *Env, hint string, t Term) Term {
	if len(t.S) < 40 || u.inClosure > 0 {
		return t
	}
	c := u.D.Fresh(hint, t.Sort)
	env.assume(Same(c, t))
	return c
}

// fresh allocation: returns a new reference
func (u *Unit) alloc(env *Env, hint string) Term {
	r := u.D.Fresh(hint, SRef)
	u.assumeFact(env, Same(u.birth(r), env.clock))
	u.assumeFact(env, Not(Same(r, Term{"nil_Ref", SRef})))
	nc := u.D.Fresh("clk", SInt)
	u.assumeFact(env, Same(nc, add(env.clock, IntLit(1))))
	env.clock = nc
	return r
}

// "this reference value exists now": allocated before the current clock
func (u *Unit) assumeKnownRef(env *Env, r Term) {
	u.assumeFact(env, lt(u.birth(r), env.clock))
}

// an assumption that is a fact about the execution (existence of references, results of allocation, clock monotonicity,
// typing) and not a condition on the inputs: when a function literal is summarised such facts go to the consequent
func (u *Unit) assumeFact(env *Env, t Term) {
	if u.inClosure > 0 {
		u.calleeFacts[t.S] = true
	}
	env.assume(t)
}

// ---------------------------------------------------------------------------------------------
// statements

func (u *Unit) execBlock(stmts []ast.Stmt, env *Env) []Outcome {
	cur := []*Env{env}
	var outs []Outcome
	for _, s := range stmts {
		var next []*Env
		for _, e := range cur {
			for _, o := range u.exec(s, e) {
				if o.kind == oNext {
					next = append(next, o.env)
				} else if o.kind != oDead {
					outs = append(outs, o)
				}
			}
		}
		cur = next
		if len(cur)+len(outs) > 4000 {
			unsup("path explosion (%d paths)", len(cur)+len(outs))
		}
		if len(cur) == 0 {
			break
		}
	}
	for _, e := range cur {
		outs = append(outs, Outcome{env: e, kind: oNext})
	}
	return outs
}

func next(env *Env) []Outcome { return []Outcome{{env: env, kind: oNext}} }

func (u *Unit) exec(s ast.Stmt, env *Env) []Outcome {
	switch st := s.(type) {
	case *ast.BlockStmt:
		return u.execBlock(st.List, env)
	case *ast.ExprStmt:
		return u.execExprStmt(st, env)
	case *ast.AssignStmt:
		return u.execAssign(st, env)
	case *ast.IncDecStmt:
		one := u.constOfType(1, u.Info.TypeOf(st.X))
		cur := u.eval(st.X, env)
		op := token.ADD
		if st.Tok == token.DEC {
			op = token.SUB
		}
		nv := u.arith(op, cur, Value{one, cur.Ty}, env, st.Pos())
		u.assignTo(st.X, nv, env)
		return next(env)
	case *ast.DeclStmt:
		gd := st.Decl.(*ast.GenDecl)
		if gd.Tok != token.VAR {
			return next(env)
		}
		for _, sp := range gd.Specs {
			vs := sp.(*ast.ValueSpec)
			for i, name := range vs.Names {
				obj := u.Info.Defs[name]
				if obj == nil {
					continue
				}
				if i < len(vs.Values) {
					v := u.eval(vs.Values[i], env)
					env.vars[obj] = u.convert(v, obj.Type(), env).Term
				} else {
					env.vars[obj] = u.zero(obj.Type())
				}
			}
		}
		return next(env)
	case *ast.ReturnStmt:
		return u.execReturn(st, env)
	case *ast.IfStmt:
		return u.execIf(st, env)
	case *ast.ForStmt:
		return u.execFor(st, env, "")
	case *ast.RangeStmt:
		return u.execRange(st, env, "")
	case *ast.LabeledStmt:
		switch inner := st.Stmt.(type) {
		case *ast.ForStmt:
			return u.execFor(inner, env, st.Label.Name)
		case *ast.RangeStmt:
			return u.execRange(inner, env, st.Label.Name)
		}
		return u.exec(st.Stmt, env)
	case *ast.BranchStmt:
		lbl := ""
		if st.Label != nil {
			lbl = st.Label.Name
		}
		switch st.Tok {
		case token.BREAK:
			return []Outcome{{env: env, kind: oBreak, label: lbl}}
		case token.CONTINUE:
			return []Outcome{{env: env, kind: oContinue, label: lbl}}
		}
		unsup("branch statement %s", st.Tok)
	case *ast.SwitchStmt:
		return u.execSwitch(st, env)
	case *ast.TypeSwitchStmt:
		return u.execTypeSwitch(st, env)
	case *ast.DeferStmt:
		env.defers = append(env.defers, deferred{call: st.Call})
		return next(env)
	case *ast.EmptyStmt:
		return next(env)
	case *ast.GoStmt:
		return u.execGo(st, env)
	case *ast.SendStmt:
		return u.execSend(st, env)
	case *ast.SelectStmt:
		return u.execSelect(st, env)
	}
	unsup("statement %T at %s", s, u.pos(s.Pos()))
	return nil
}

func (u *Unit) execExprStmt(st *ast.ExprStmt, env *Env) []Outcome {
	if call, ok := st.X.(*ast.CallExpr); ok {
		if id, ok := call.Fun.(*ast.Ident); ok && id.Name == "panic" {
			if _, isBuiltin := u.Info.Uses[id].(*types.Builtin); isBuiltin {
				return []Outcome{{env: env, kind: oPanic, pos: st.Pos()}}
			}
		}
		outs := u.evalCall(call, env)
		var res []Outcome
		for _, o := range outs {
			if o.kind == oReturn {
				res = append(res, Outcome{env: o.env, kind: oNext})
			} else {
				res = append(res, o)
			}
		}
		return res
	}
	u.eval(st.X, env)
	return next(env)
}

func (u *Unit) execAssign(st *ast.AssignStmt, env *Env) []Outcome {
	// op-assign
	if st.Tok != token.ASSIGN && st.Tok != token.DEFINE {
		op := assignOp(st.Tok)
		cur := u.eval(st.Lhs[0], env)
		rhs := u.eval(st.Rhs[0], env)
		rhs = u.convert(rhs, cur.Ty, env)
		nv := u.arith(op, cur, rhs, env, st.Pos())
		u.assignTo(st.Lhs[0], nv, env)
		return next(env)
	}
	if len(st.Rhs) == 1 && len(st.Lhs) > 1 {
		// multi-value: call, map index comma-ok, type assertion comma-ok, receive comma-ok
		return u.execMultiAssign(st, env)
	}
	if len(st.Rhs) == 1 {
		// a single call on the right may fork (inlined callee)
		if call, ok := unparen(st.Rhs[0]).(*ast.CallExpr); ok && !u.isConversionOrBuiltin(call) {
			var res []Outcome
			for _, o := range u.evalCall(call, env) {
				if o.kind != oReturn {
					res = append(res, o)
					continue
				}
				if len(o.vals) != 1 {
					unsup("call in single-value context returns %d values at %s", len(o.vals), u.pos(call.Pos()))
				}
				u.assignTo(st.Lhs[0], o.vals[0], o.env)
				res = append(res, Outcome{env: o.env, kind: oNext})
			}
			return res
		}
	}
	// evaluate all RHS first
	vals := make([]Value, len(st.Rhs))
	for i, r := range st.Rhs {
		vals[i] = u.eval(r, env)
	}
	for i, l := range st.Lhs {
		u.assignTo(l, vals[i], env)
	}
	return next(env)
}

func assignOp(t token.Token) token.Token {
	switch t {
	case token.ADD_ASSIGN:
		return token.ADD
	case token.SUB_ASSIGN:
		return token.SUB
	case token.MUL_ASSIGN:
		return token.MUL
	case token.QUO_ASSIGN:
		return token.QUO
	case token.REM_ASSIGN:
		return token.REM
	}
	unsup("assign op %s", t)
	return token.ILLEGAL
}

func unparen(e ast.Expr) ast.Expr {
	for {
		p, ok := e.(*ast.ParenExpr)
		if !ok {
			return e
		}
		e = p.X
	}
}

func (u *Unit) execMultiAssign(st *ast.AssignStmt, env *Env) []Outcome {
	rhs := unparen(st.Rhs[0])
	switch r := rhs.(type) {
	case *ast.CallExpr:
		var res []Outcome
		for _, o := range u.evalCall(r, env) {
			if o.kind != oReturn {
				res = append(res, o)
				continue
			}
			if len(o.vals) != len(st.Lhs) {
				unsup("assignment count mismatch at %s", u.pos(st.Pos()))
			}
			for i, l := range st.Lhs {
				u.assignTo(l, o.vals[i], o.env)
			}
			res = append(res, Outcome{env: o.env, kind: oNext})
		}
		return res
	case *ast.IndexExpr:
		// v, ok := m[k]
		m := u.eval(r.X, env)
		mt, isMap := types.Unalias(m.Ty).Underlying().(*types.Map)
		if !isMap {
			unsup("comma-ok index on non-map")
		}
		k := u.convert(u.eval(r.Index, env), mt.Key(), env)
		val, ok := u.mapGet(env, m.Term, mt, k.Term)
		u.assignTo(st.Lhs[0], Value{val, mt.Elem()}, env)
		u.assignTo(st.Lhs[1], Value{ok, types.Typ[types.Bool]}, env)
		return next(env)
	case *ast.TypeAssertExpr:
		x := u.eval(r.X, env)
		ty := u.Info.TypeOf(r.Type)
		ok, v := u.typeAssert(env, x, ty)
		okc := u.D.Fresh("ok", SBool)
		env.assume(Same(okc, ok))
		u.assignTo(st.Lhs[0], Value{Ite(okc, v.Term, u.zero(ty)), ty}, env)
		u.assignTo(st.Lhs[1], Value{okc, types.Typ[types.Bool]}, env)
		return next(env)
	case *ast.UnaryExpr:
		if r.Op == token.ARROW {
			v, ok := u.chanRecv2(env, r.X, r.Pos(), true)
			u.assignTo(st.Lhs[0], v, env)
			u.assignTo(st.Lhs[1], Value{ok, types.Typ[types.Bool]}, env)
			return next(env)
		}
	}
	unsup("multi-assign from %T at %s", rhs, u.pos(st.Pos()))
	return nil
}

func (u *Unit) assignTo(lhs ast.Expr, v Value, env *Env) {
	lhs = unparen(lhs)
	switch l := lhs.(type) {
	case *ast.Ident:
		if l.Name == "_" {
			return
		}
		obj := u.Info.Defs[l]
		if obj == nil {
			obj = u.Info.Uses[l]
		}
		if obj == nil {
			unsup("assignment to unknown ident %s", l.Name)
		}
		if vv, ok := obj.(*types.Var); ok && vv.Pkg() != nil && vv.Parent() == vv.Pkg().Scope() {
			unsup("assignment to package-level variable %s", l.Name)
		}
		cv := u.convert(v, obj.Type(), env)
		env.vars[obj] = u.define(env, l.Name, cv.Term)
		return
	case *ast.IndexExpr:
		x := u.eval(l.X, env)
		switch xt := types.Unalias(x.Ty).Underlying().(type) {
		case *types.Slice:
			idx := u.eval(l.Index, env)
			es := u.sortOf(xt.Elem())
			u.boundsCheck(env, x.Term, idx.Term, l)
			u.frameCheckSlice(env, x.Term, l)
			cv := u.convert(v, xt.Elem(), env)
			u.sliceSet(env, x.Term, es, u.toInt(idx), cv.Term)
			return
		case *types.Map:
			k := u.convert(u.eval(l.Index, env), xt.Key(), env)
			cv := u.convert(v, xt.Elem(), env)
			u.safety(env, "nil", l.Pos(), "write to map "+u.exprText(l.X), Not(Same(x.Term, Term{"nil_Ref", SRef})))
			u.frameCheckRef(env, x.Term, "map", l)
			u.mapSet(env, x.Term, xt, k.Term, cv.Term)
			return
		}
		unsup("index assignment on %s", x.Ty)
	case *ast.SelectorExpr:
		// field assignment
		sel := u.Info.Selections[l]
		if sel == nil || sel.Kind() != types.FieldVal {
			unsup("assignment to selector %s", u.exprText(l))
		}
		u.assignField(l, sel, v, env)
		return
	case *ast.StarExpr:
		p := u.eval(l.X, env)
		pt := types.Unalias(p.Ty).Underlying().(*types.Pointer)
		u.safety(env, "nil", l.Pos(), "*"+u.exprText(l.X), Not(Same(p.Term, Term{"nil_Ref", SRef})))
		u.frameCheckRef(env, p.Term, "ptr", l)
		cv := u.convert(v, pt.Elem(), env)
		u.ptrStore(env, p.Term, pt.Elem(), cv.Term)
		return
	}
	unsup("assignment to %T at %s", lhs, u.pos(lhs.Pos()))
}

func (u *Unit) execReturn(st *ast.ReturnStmt, env *Env) []Outcome {
	var vals []Value
	if len(st.Results) == 0 {
		for i, r := range u.curResults() {
			vals = append(vals, Value{env.vars[r], u.curResTys()[i]})
		}
		return []Outcome{{env: env, kind: oReturn, vals: vals, pos: st.Pos()}}
	}
	if len(st.Results) == 1 && len(u.curResTys()) > 1 {
		call, ok := unparen(st.Results[0]).(*ast.CallExpr)
		if !ok {
			unsup("return of tuple from non-call")
		}
		var res []Outcome
		for _, o := range u.evalCall(call, env) {
			if o.kind != oReturn {
				res = append(res, o)
				continue
			}
			var vs []Value
			for i, v := range o.vals {
				vs = append(vs, u.convert(v, u.curResTys()[i], o.env))
			}
			res = append(res, Outcome{env: o.env, kind: oReturn, vals: vs, pos: st.Pos()})
		}
		return res
	}
	if len(st.Results) == 1 {
		if call, ok := unparen(st.Results[0]).(*ast.CallExpr); ok && !u.isConversionOrBuiltin(call) {
			var res []Outcome
			for _, o := range u.evalCall(call, env) {
				if o.kind != oReturn {
					res = append(res, o)
					continue
				}
				res = append(res, Outcome{env: o.env, kind: oReturn, vals: []Value{u.convert(o.vals[0], u.curResTys()[0], o.env)}, pos: st.Pos()})
			}
			return res
		}
	}
	for i, r := range st.Results {
		v := u.eval(r, env)
		vals = append(vals, u.convert(v, u.curResTys()[i], env))
	}
	return []Outcome{{env: env, kind: oReturn, vals: vals, pos: st.Pos()}}
}

type frame struct {
	results []types.Object
	resTys  []types.Type
}

func (u *Unit) curResults() []types.Object { return u.results }
func (u *Unit) curResTys() []types.Type    { return u.resTys }

func (u *Unit) execIf(st *ast.IfStmt, env *Env) []Outcome {
	if st.Init != nil {
		outs := u.exec(st.Init, env)
		if len(outs) != 1 || outs[0].kind != oNext {
			var res []Outcome
			for _, o := range outs {
				if o.kind != oNext {
					res = append(res, o)
					continue
				}
				st2 := *st
				st2.Init = nil
				res = append(res, u.execIf(&st2, o.env)...)
			}
			return res
		}
		env = outs[0].env
	}
	var res []Outcome
	for _, br := range u.evalCond(st.Cond, env) {
		if br.truth {
			res = append(res, u.execBlock(st.Body.List, br.env)...)
		} else if st.Else != nil {
			res = append(res, u.exec(st.Else, br.env)...)
		} else {
			res = append(res, Outcome{env: br.env, kind: oNext})
		}
	}
	return res
}

type condBranch struct {
	env   *Env
	truth bool
}

// evaluate a boolean condition, forking the environment; handles short-circuit && and || and
// conditions that contain inlined calls
func (u *Unit) evalCond(c ast.Expr, env *Env) []condBranch {
	c = unparen(c)
	if b, ok := c.(*ast.BinaryExpr); ok && (b.Op == token.LAND || b.Op == token.LOR) {
		var res []condBranch
		for _, l := range u.evalCond(b.X, env) {
			if b.Op == token.LAND {
				if !l.truth {
					res = append(res, l)
				} else {
					res = append(res, u.evalCond(b.Y, l.env)...)
				}
			} else {
				if l.truth {
					res = append(res, l)
				} else {
					res = append(res, u.evalCond(b.Y, l.env)...)
				}
			}
		}
		return res
	}
	if un, ok := c.(*ast.UnaryExpr); ok && un.Op == token.NOT {
		res := u.evalCond(un.X, env)
		for i := range res {
			res[i].truth = !res[i].truth
		}
		return res
	}
	var res []condBranch
	for _, vo := range u.evalForking(c, env) {
		t := vo.val.Term
		if t.S == "true" {
			res = append(res, condBranch{vo.env, true})
			continue
		}
		if t.S == "false" {
			res = append(res, condBranch{vo.env, false})
			continue
		}
		te := vo.env.clone()
		te.assume(t)
		u.learn(te, t, true)
		fe := vo.env
		fe.assume(Not(t))
		u.learn(fe, t, false)
		res = append(res, condBranch{te, true}, condBranch{fe, false})
	}
	return res
}

type valEnv struct {
	val Value
	env *Env
}

// evaluate an expression that may contain one top-level inlined call (which may fork)
func (u *Unit) evalForking(e ast.Expr, env *Env) []valEnv {
	e = unparen(e)
	if call, ok := e.(*ast.CallExpr); ok && !u.isConversionOrBuiltin(call) {
		var res []valEnv
		for _, o := range u.evalCall(call, env) {
			if o.kind != oReturn {
				continue // panics inside conditions: dropped here (reported by the callee's own obligations)
			}
			res = append(res, valEnv{o.vals[0], o.env})
		}
		return res
	}
	if b, ok := e.(*ast.BinaryExpr); ok {
		// comparison whose left side is a call: f(x) == y
		if call, ok := unparen(b.X).(*ast.CallExpr); ok && !u.isConversionOrBuiltin(call) {
			var res []valEnv
			for _, o := range u.evalCall(call, env) {
				if o.kind != oReturn {
					continue
				}
				y := u.eval(b.Y, o.env)
				res = append(res, valEnv{u.binop(b, o.vals[0], y, o.env), o.env})
			}
			return res
		}
	}
	return []valEnv{{u.eval(e, env), env}}
}

// record facts that allow syntactic pruning (dynamic type tags)
func (u *Unit) learn(env *Env, t Term, truth bool) {
	if !truth {
		return
	}
	// (= (rtype X) N)
	if strings.HasPrefix(t.S, "(= (rtype ") {
		inner := t.S[len("(= (rtype "):]
		x, n := readSexp(inner)
		rest := strings.TrimSpace(inner[n:])
		rest = strings.TrimPrefix(rest, ")")
		rest = strings.TrimSpace(rest)
		rest = strings.TrimSuffix(rest, ")")
		var id int
		if _, err := fmt.Sscanf(rest, "%d", &id); err == nil {
			env.tags[x] = id
		}
	}
}

func (u *Unit) execSwitch(st *ast.SwitchStmt, env *Env) []Outcome {
	if st.Init != nil {
		outs := u.exec(st.Init, env)
		if len(outs) != 1 || outs[0].kind != oNext {
			unsup("forking switch init")
		}
		env = outs[0].env
	}
	var tag *Value
	if st.Tag != nil {
		v := u.eval(st.Tag, env)
		tag = &v
	}
	var res []Outcome
	cur := env
	var defaultClause *ast.CaseClause
	for _, cs := range st.Body.List {
		cc := cs.(*ast.CaseClause)
		if cc.List == nil {
			defaultClause = cc
			continue
		}
		var conds []Term
		for _, e := range cc.List {
			if tag != nil {
				ev := u.eval(e, cur)
				conds = append(conds, u.eqValues(*tag, ev, cur))
			} else {
				conds = append(conds, u.eval(e, cur).Term)
			}
		}
		c := Or(conds...)
		te := cur.clone()
		te.assume(c)
		res = append(res, u.breakToNext(u.execBlock(cc.Body, te))...)
		cur.assume(Not(c))
	}
	if defaultClause != nil {
		res = append(res, u.breakToNext(u.execBlock(defaultClause.Body, cur))...)
	} else {
		res = append(res, Outcome{env: cur, kind: oNext})
	}
	return res
}

func (u *Unit) breakToNext(outs []Outcome) []Outcome {
	for i := range outs {
		if outs[i].kind == oBreak && outs[i].label == "" {
			outs[i].kind = oNext
		}
	}
	return outs
}

func (u *Unit) execTypeSwitch(st *ast.TypeSwitchStmt, env *Env) []Outcome {
	if st.Init != nil {
		unsup("type switch init")
	}
	// switch x := y.(type) or switch y.(type)
	var subject ast.Expr
	var bindName *ast.Ident
	switch a := st.Assign.(type) {
	case *ast.ExprStmt:
		subject = unparen(a.X).(*ast.TypeAssertExpr).X
	case *ast.AssignStmt:
		subject = unparen(a.Rhs[0]).(*ast.TypeAssertExpr).X
		bindName = a.Lhs[0].(*ast.Ident)
	}
	x := u.eval(subject, env)
	if u.sortOf(x.Ty) != SVal {
		unsup("type switch on non-interface sort")
	}
	var res []Outcome
	cur := env
	var defaultClause *ast.CaseClause
	for _, cs := range st.Body.List {
		cc := cs.(*ast.CaseClause)
		if cc.List == nil {
			defaultClause = cc
			continue
		}
		var conds []Term
		var caseTy types.Type
		for _, e := range cc.List {
			ty := u.Info.TypeOf(e)
			caseTy = ty
			ok, _ := u.typeAssert(cur, x, ty)
			conds = append(conds, ok)
		}
		c := Or(conds...)
		if c.S == "false" {
			continue
		}
		te := cur.clone()
		te.assume(c)
		for _, cd := range conds {
			if len(conds) == 1 {
				u.learn(te, cd, true)
			}
		}
		if bindName != nil {
			if obj := u.Info.Implicits[cc]; obj != nil {
				if len(cc.List) == 1 {
					_, v := u.typeAssert(te, x, caseTy)
					te.vars[obj] = v.Term
				} else {
					te.vars[obj] = x.Term
				}
			}
		}
		res = append(res, u.breakToNext(u.execBlock(cc.Body, te))...)
		if c.S == "true" {
			cur = nil
			break
		}
		cur.assume(Not(c))
	}
	if cur != nil {
		if defaultClause != nil {
			if bindName != nil {
				if obj := u.Info.Implicits[defaultClause]; obj != nil {
					cur.vars[obj] = x.Term
				}
			}
			res = append(res, u.breakToNext(u.execBlock(defaultClause.Body, cur))...)
		} else {
			res = append(res, Outcome{env: cur, kind: oNext})
		}
	}
	return res
}

// ---------------------------------------------------------------------------------------------
// loops

type loopInfo struct {
	modVars  []types.Object
	heapAll  bool
	heaps    map[string]bool
	hasAlloc bool
}

// while the clauses of a loop block are evaluated: the ordinal of that loop (-1 otherwise)
func (u *Unit) enterLoopSpec(blk *Block) func() {
	save := u.specLoopOrd
	ord := -1
	fmt.Sscanf(blk.Sub, "loop %d", &ord)
	u.specLoopOrd = ord + 1
	return func() { u.specLoopOrd = save }
}

func (u *Unit) loopOrdinal(s ast.Stmt) int {
	if n, ok := u.loops[s]; ok {
		return n
	}
	return -1
}

func (u *Unit) loopBlock(s ast.Stmt) *Block {
	n := u.loopOrdinal(s)
	if n < 0 {
		return nil
	}
	owner := u.curFn[len(u.curFn)-1]
	if rs := u.Prog.repair[owner.Key]; rs != nil && owner == u.FI {
		return rs.blockFor(n, owner.Key)
	}
	b := u.Prog.Contracts.Get(owner.Key, fmt.Sprintf("loop %d", n))
	if b != nil {
		b.Bound = true
	}
	return b
}

// collect variables assigned in the loop (syntactically), and whether heaps may be written
func (u *Unit) scanLoop(nodes ...ast.Node) loopInfo {
	li := loopInfo{heaps: map[string]bool{}}
	seen := map[types.Object]bool{}
	addVar := func(e ast.Expr) {
		e = unparen(e)
		switch l := e.(type) {
		case *ast.Ident:
			if l.Name == "_" {
				return
			}
			obj := u.Info.Defs[l]
			if obj == nil {
				obj = u.Info.Uses[l]
			}
			if obj != nil && !seen[obj] {
				seen[obj] = true
				li.modVars = append(li.modVars, obj)
			}
		case *ast.SelectorExpr:
			// field of a local struct variable => variable modified; field of pointer => that field's heap
			if id, ok := unparen(l.X).(*ast.Ident); ok {
				obj := u.Info.Uses[id]
				if obj != nil {
					if _, isPtr := types.Unalias(obj.Type()).Underlying().(*types.Pointer); !isPtr {
						if !seen[obj] {
							seen[obj] = true
							li.modVars = append(li.modVars, obj)
						}
						return
					}
				}
			}
			if sel := u.Info.Selections[l]; sel != nil && sel.Kind() == types.FieldVal && len(sel.Index()) == 1 {
				if pt, ok := types.Unalias(u.Info.TypeOf(l.X)).Underlying().(*types.Pointer); ok {
					if si := u.maybeStruct(pt.Elem()); si != nil {
						li.heaps[fieldHeapName(si, l.Sel.Name)] = true
						return
					}
				}
			}
			li.heapAll = true
		case *ast.IndexExpr:
			switch xt := types.Unalias(u.Info.TypeOf(l.X)).Underlying().(type) {
			case *types.Slice:
				li.heaps[sliceHeapName(u.sortOf(xt.Elem()))] = true
			case *types.Map:
				ks, vs := u.sortOf(xt.Key()), u.sortOf(xt.Elem())
				li.heaps[mapDomName(ks, vs)] = true
				li.heaps[mapValName(ks, vs)] = true
				li.heaps[mapLenName] = true
			default:
				li.heapAll = true
			}
		default:
			li.heapAll = true
		}
	}
	for _, n := range nodes {
		if n == nil {
			continue
		}
		ast.Inspect(n, func(x ast.Node) bool {
			switch s := x.(type) {
			case *ast.AssignStmt:
				for _, l := range s.Lhs {
					addVar(l)
				}
			case *ast.IncDecStmt:
				addVar(s.X)
			case *ast.RangeStmt:
				if s.Key != nil {
					addVar(s.Key)
				}
				if s.Value != nil {
					addVar(s.Value)
				}
			case *ast.CallExpr:
				// any call may write heaps (conservative), except conversions, pure builtins and modelled library calls
				if hs, ok := u.callHeapEffect(s); ok {
					for _, h := range hs {
						li.heaps[h] = true
					}
				} else if !u.isPureCallSyntactic(s) {
					li.heapAll = true
				}
			case *ast.SendStmt, *ast.GoStmt:
				li.heapAll = true
			}
			return true
		})
	}
	return li
}

// heaps a call writes, when that is known precisely: append/delete builtins and heap-neutral library calls
func (u *Unit) callHeapEffect(c *ast.CallExpr) ([]string, bool) {
	if id, ok := unparen(c.Fun).(*ast.Ident); ok {
		if b, ok := u.Info.Uses[id].(*types.Builtin); ok {
			switch b.Name() {
			case "append":
				if st, ok := types.Unalias(u.Info.TypeOf(c)).Underlying().(*types.Slice); ok {
					return []string{sliceHeapName(u.sortOf(st.Elem()))}, true
				}
			case "delete":
				if mt, ok := types.Unalias(u.Info.TypeOf(c.Args[0])).Underlying().(*types.Map); ok {
					ks, vs := u.sortOf(mt.Key()), u.sortOf(mt.Elem())
					return []string{mapDomName(ks, vs), mapLenName}, true
				}
			}
			return nil, false
		}
	}
	if fn := calleeObj(u, unparen(c.Fun)); fn != nil && fn.Pkg() != nil {
		switch fn.Pkg().Path() {
		case "sync", "sync/atomic", "reflect", "fmt", "strconv", "math", "strings", "time", "errors", "regexp":
			if recvTypeName(fn) == "AtomBool" {
				return nil, false
			}
			return nil, true
		}
	}
	return nil, false
}

func (u *Unit) isPureCallSyntactic(c *ast.CallExpr) bool {
	if tv, ok := u.Info.Types[c.Fun]; ok && tv.IsType() {
		return true
	}
	if id, ok := unparen(c.Fun).(*ast.Ident); ok {
		if b, ok := u.Info.Uses[id].(*types.Builtin); ok {
			switch b.Name() {
			case "len", "cap", "make", "new", "panic":
				return true
			}
			return false // append, copy, delete write heaps
		}
		// call of a function-typed variable/parameter: pure callback by modelling assumption
		if v, ok := u.Info.Uses[id].(*types.Var); ok {
			if _, isSig := types.Unalias(v.Type()).Underlying().(*types.Signature); isSig && !u.effectfulCallbacks() {
				return true
			}
		}
	}
	if fi := u.calleeInfo(c); fi != nil {
		if b := u.Prog.Contracts.Get(fi.Key, ""); b != nil && b.Pure {
			return true
		}
	}
	return false
}

func (u *Unit) effectfulCallbacks() bool {
	return u.Block != nil && u.Block.Opts["callbacks"] == "effectful"
}

// havoc everything the loop may change; returns nothing (env is updated in place)
func (u *Unit) havocLoop(env *Env, li loopInfo) {
	if u.effectfulCallbacks() && li.heapAll && env.tr != nil && !u.inRangeChan {
		u.havocTrace(env)
	}
	for _, obj := range li.modVars {
		if _, ok := env.vars[obj]; !ok {
			continue // declared inside the loop
		}
		s := env.vars[obj].Sort
		nv := u.D.Fresh(obj.Name(), s)
		env.vars[obj] = nv
		u.typeInvariant(env, nv, obj.Type())
	}
	if li.heapAll {
		u.havocHeaps(env, nil)
	} else if len(li.heaps) > 0 {
		u.havocHeaps(env, li.heaps)
	}
	nc := u.D.Fresh("clk", SInt)
	env.assume(le(env.clock, nc))
	env.clock = nc
	u.assumeClosedHeaps(env)
	for _, obj := range li.modVars {
		if t, ok := env.vars[obj]; ok {
			u.knownRefsOf(env, t)
		}
	}
}

// assume a fact unless it mentions a bound variable (spec evaluation under a quantifier)
func (u *Unit) assumeGround(env *Env, t Term) {
	if strings.Contains(t.S, "?") {
		return
	}
	env.assume(t)
}

func (u *Unit) knownRefsOf(env *Env, t Term) {
	if strings.Contains(t.S, "?") {
		return
	}
	switch t.Sort {
	case SRef:
		u.assumeKnownRef(env, t)
	case SSlice:
		u.assumeKnownRef(env, sBase(t))
	case SVal:
		// an interface value that exists now cannot hold a pointer to something allocated later
		_, un := u.boxFn(SRef)
		u.assumeKnownRef(env, App(un, SRef, t))
	}
}

// replace all (touched) heaps by fresh ones, keeping the cells of objects that existed at entry
// and are not in the modifies set (their stores are separately proved impossible: frame obligations)
func (u *Unit) havocHeaps(env *Env, only map[string]bool) {
	var names []string
	for n := range env.heaps {
		names = append(names, n)
	}
	sort.Strings(names)
	for _, n := range names {
		if only != nil && !only[n] {
			continue
		}
		old := env.heaps[n]
		nh := u.D.Fresh("hv_"+n, old.Sort)
		env.heaps[n] = nh
		u.frameAxiom(env, n, nh)
	}
	u.heapsHavocked = true
}

// objects that existed at entry and are outside the modifies set keep their entry contents
func (u *Unit) frameAxiom(env *Env, name string, nh Term) {
	if name == mapLenName {
		r := u.D.Bound("r", SRef)
		env.assume(Forall([]Term{r}, le(IntLit(0), Select(nh, r)), []Term{Select(nh, r)}))
	}
	h0 := u.entry.heaps[name]
	if h0.S == "" {
		return
	}
	if u.modifiesAll {
		return
	}
	r := u.D.Bound("r", SRef)
	guard := le(u.birth(r), IntLit(0))
	for _, m := range modsFor(u.modifiesRefs, name) {
		guard = And(guard, Not(Same(r, m)))
	}
	env.assume(Forall([]Term{r}, Imp(guard, Same(Select(nh, r), Select(h0, r))), []Term{Select(nh, r)}))
}

func (u *Unit) typeInvariant(env *Env, t Term, ty types.Type) {
	switch t.Sort {
	case SSlice:
		u.assumeFact(env, u.validSliceT(t))
	}
	if !u.BV && t.Sort == SInt && isIntegerT(ty) {
		if isUnsigned(ty) {
			u.assumeFact(env, le(IntLit(0), t))
		}
	}
}

func (u *Unit) checkInvariants(env *Env, blk *Block, kind string, pos token.Pos, loopName string) {
	if blk == nil {
		return
	}
	defer u.enterLoopSpec(blk)()
	rs := u.Prog.repair[u.FI.Key]
	for i, c0 := range blk.Of("invariant") {
		if c0.Label == "" {
			c0.Label = fmt.Sprintf("inv%d", i)
		}
		if rs != nil && strings.HasPrefix(c0.Label, "L") {
			// a candidate of the re-binding run: one that does not even bind here is dropped for this loop
			if rs.dead[loopName+"/"+c0.Label] {
				continue
			}
			t, err := u.trySpec(c0, env, nil)
			if err != "" {
				rs.dead[loopName+"/"+c0.Label] = true
				continue
			}
			u.assert(env, fmt.Sprintf("%s/%s/%s", loopName, kind, c0.Label), kind, pos, c0.Text, t)
			continue
		}
		for _, c := range u.splitClause(c0) {
			t := u.specExpr(c, env, nil)
			u.assert(env, fmt.Sprintf("%s/%s/%s", loopName, kind, c.Label), kind, pos, c.Text, t)
		}
	}
}

func (u *Unit) assumeInvariants(env *Env, blk *Block) {
	if blk == nil {
		return
	}
	defer u.enterLoopSpec(blk)()
	rs := u.Prog.repair[u.FI.Key]
	for _, c := range blk.Of("invariant") {
		if rs != nil && strings.HasPrefix(c.Label, "L") {
			if rs.deadAny(c.Label, blk) {
				continue
			}
			t, err := u.trySpec(c, env, nil)
			if err != "" {
				rs.dead[fmt.Sprintf("loop%s/%s", strings.TrimPrefix(blk.Sub, "loop "), c.Label)] = true
				continue
			}
			env.assume(t)
			continue
		}
		env.assume(u.specExpr(c, env, nil))
	}
}

// vacuity probe: the loop body must be reachable under the invariants (a contradictory invariant would make
// every inv-keep obligation pass); "unsat" fails the probe, sat/unknown pass
func (u *Unit) coverProbe(env *Env, name string, pos token.Pos, what string) {
	if u.muteObs || u.inClosure > 0 {
		return
	}
	full := u.Name + "/" + name + u.Suffix
	ob := u.obIdx[full]
	if ob == nil {
		ob = &Obligation{Name: full, Kind: "cover", Func: u.FI.Key, Pos: u.pos(pos), Expr: what, Decls: u.D, Expect: "sat-any"}
		u.obIdx[full] = ob
		u.Obs = append(u.Obs, ob)
	}
	// one query per symbolic path that reaches the point; the probe passes if at least one of them is satisfiable
	ob.Queries = append(ob.Queries, Query{Path: u.pos(pos), Pre: append([]Term(nil), env.pc...), Goal: True})
}

// loop exit summary ("after" clauses of the loop block): each clause is proved in the exit state and then everything
// learned inside the loop (invariants, exit condition, body facts) is forgotten except those clauses and the havoc facts.
// Forgetting assumptions is always sound; it keeps the verification conditions after the loop small.
func (u *Unit) exitSummary(e *Env, blk *Block, cut int, lname string, pos token.Pos) {
	if blk == nil || len(blk.Of("after")) == 0 || cut > len(e.pc) {
		return
	}
	var keep []Term
	for i, c0 := range blk.Of("after") {
		if c0.Label == "" {
			c0.Label = fmt.Sprintf("after%d", i)
		}
		for _, c := range u.splitClause(c0) {
			t := u.specExpr(c, e, nil)
			u.assert(e, fmt.Sprintf("%s/after/%s", lname, c.Label), "inv-exit", pos, c.Text, t)
			e.assume(t) // later clauses may build on earlier ones (lemma chain)
			keep = append(keep, t)
		}
	}
	e.pc = append(e.pc[:cut:cut], keep...)
}

func (u *Unit) loopName(s ast.Stmt) string {
	n := u.loopOrdinal(s)
	owner := u.curFn[len(u.curFn)-1]
	if len(u.curFn) > 1 {
		return fmt.Sprintf("via=%s/loop%d", owner.Key, n)
	}
	return fmt.Sprintf("loop%d", n)
}

// "for { v, ok := <-ch; if !ok { break }; rest }" (or "{ return }" when the loop ends a result-less function) is
// "for v := range ch { rest }": executed as that, under the loop's own ordinal
func (u *Unit) asRangeOverChan(st *ast.ForStmt) *ast.RangeStmt {
	if st.Init != nil || st.Cond != nil || st.Post != nil || len(st.Body.List) < 2 {
		return nil
	}
	as, ok := st.Body.List[0].(*ast.AssignStmt)
	if !ok || as.Tok != token.DEFINE || len(as.Lhs) != 2 || len(as.Rhs) != 1 {
		return nil
	}
	rcv, ok := unparen(as.Rhs[0]).(*ast.UnaryExpr)
	if !ok || rcv.Op != token.ARROW {
		return nil
	}
	okObj := u.keyObj(as.Lhs[1])
	ifs, ok := st.Body.List[1].(*ast.IfStmt)
	if !ok || okObj == nil || ifs.Init != nil || ifs.Else != nil || len(ifs.Body.List) != 1 {
		return nil
	}
	neg, ok := unparen(ifs.Cond).(*ast.UnaryExpr)
	if !ok || neg.Op != token.NOT || u.keyObj(neg.X) != okObj {
		return nil
	}
	switch ex := ifs.Body.List[0].(type) {
	case *ast.BranchStmt:
		if ex.Tok != token.BREAK || ex.Label != nil {
			return nil
		}
	case *ast.ReturnStmt:
		fn := u.curFn[len(u.curFn)-1]
		body := fn.Decl.Body.List
		if len(u.curFn) != 1 || u.litTarget != nil || len(ex.Results) != 0 || fn.Obj.Type().(*types.Signature).Results().Len() != 0 || len(body) == 0 || body[len(body)-1] != ast.Stmt(st) {
			return nil
		}
	default:
		return nil
	}
	// ok must not be used by the rest of the body
	used := false
	for _, r := range st.Body.List[2:] {
		ast.Inspect(r, func(n ast.Node) bool {
			if id, isId := n.(*ast.Ident); isId && u.Info.Uses[id] == okObj {
				used = true
			}
			return true
		})
	}
	if used {
		return nil
	}
	return &ast.RangeStmt{For: st.For, Key: as.Lhs[0], Tok: token.DEFINE, X: rcv.X, Body: &ast.BlockStmt{Lbrace: st.Body.Lbrace, List: st.Body.List[2:], Rbrace: st.Body.Rbrace}}
}

func (u *Unit) execFor(st *ast.ForStmt, env *Env, label string) []Outcome {
	if rs := u.asRangeOverChan(st); rs != nil {
		if _, known := u.loops[rs]; !known {
			u.loops[rs] = u.loops[st]
		}
		return u.execRange(rs, env, label)
	}
	if st.Init != nil {
		outs := u.exec(st.Init, env)
		if len(outs) != 1 || outs[0].kind != oNext {
			unsup("forking for-init")
		}
		env = outs[0].env
	}
	blk := u.loopBlock(st)
	lname := u.loopName(st)
	if blk == nil {
		u.note(fmt.Sprintf("loop %s of %s has no invariant block (treated as invariant true)", lname, u.curFn[len(u.curFn)-1].Key))
	}
	// "for i := e; ...": invariants may call the loop variable _i, as they do for "for i := range x" (so that turning a range
	// loop into an index loop keeps its invariants)
	var ivar types.Object
	if as, ok := st.Init.(*ast.AssignStmt); ok && as.Tok == token.DEFINE && len(as.Lhs) == 1 {
		if o := u.keyObj(as.Lhs[0]); o != nil && isIntegerT(o.Type()) {
			ivar = o
		}
	}
	setI := func(e *Env) {
		if ivar != nil {
			if t, ok := e.vars[ivar]; ok && t.Sort == SInt {
				e.alias["_i"] = t
			}
		}
	}
	clearI := func(e *Env) {
		if ivar != nil {
			delete(e.alias, "_i")
		}
	}
	setI(env)
	u.runGhostKind(env, blk, "ghostbefore")
	u.checkInvariants(env, blk, "inv-init", st.Pos(), lname)
	li := u.scanLoop(st.Body, st.Post, st.Cond)
	li.modVars = append(li.modVars, u.ghostsSetIn(st)...)
	var lower Term
	if ivar != nil && st.Post != nil {
		// "for i := e; ...; i++" whose body never assigns i: i never drops below its initial value (what a range loop gives for free)
		if inc, ok := st.Post.(*ast.IncDecStmt); ok && inc.Tok == token.INC && u.keyObj(inc.X) == ivar && !assignsVar(u.Info, st.Body, ivar) && !u.assignedInALiteral(ivar) {
			if t, ok := env.vars[ivar]; ok && t.Sort == SInt {
				lower = t
			}
		}
	}
	// ... and with a condition "i < B" whose B the body cannot change (an identifier or len(identifier) that is not assigned in
	// the body), i never exceeds B unless it still has its initial value
	var boundExpr ast.Expr
	if lower.S != "" {
		if be, ok := st.Cond.(*ast.BinaryExpr); ok && be.Op == token.LSS && u.keyObj(be.X) == ivar {
			b := unparen(be.Y)
			var id *ast.Ident
			if call, ok := b.(*ast.CallExpr); ok && len(call.Args) == 1 {
				if f, ok := call.Fun.(*ast.Ident); ok && f.Name == "len" {
					id, _ = unparen(call.Args[0]).(*ast.Ident)
				}
			} else {
				id, _ = b.(*ast.Ident)
			}
			if id != nil {
				if obj := u.Info.Uses[id]; obj != nil {
					if _, isVar := obj.(*types.Var); isVar && !assignsVar(u.Info, st.Body, obj) && !u.assignedInALiteral(obj) {
						if tt := u.Info.TypeOf(b); tt != nil && isIntegerT(tt) {
							boundExpr = b
						}
					}
				}
			}
		}
	}
	u.havocLoop(env, li)
	if lower.S != "" {
		if t, ok := env.vars[ivar]; ok && t.Sort == SInt {
			env.assume(le(lower, t))
			if boundExpr != nil {
				save := u.muteObs
				u.muteObs = true
				bv := u.eval(boundExpr, env)
				u.muteObs = save
				if bv.Sort == SInt {
					env.assume(Or(le(t, bv.Term), Same(t, lower)))
				}
			}
		}
	}
	setI(env)
	cut := len(env.pc)
	u.assumeInvariants(env, blk)
	var res []Outcome
	var branches []condBranch
	if st.Cond != nil {
		branches = u.evalCond(st.Cond, env)
	} else {
		branches = []condBranch{{env, true}}
	}
	for _, br := range branches {
		if !br.truth {
			u.exitSummary(br.env, blk, cut, lname, st.Pos())
			clearI(br.env)
			res = append(res, Outcome{env: br.env, kind: oNext})
			continue
		}
		if blk != nil {
			u.coverProbe(br.env, lname+"/cover/body-reachable", st.Pos(), "loop body reachable under the invariants")
		}
		clearI(br.env)
		for _, o := range u.execBlock(st.Body.List, br.env) {
			switch {
			case o.kind == oNext || (o.kind == oContinue && (o.label == "" || o.label == label)):
				e := o.env
				setI(e)
				u.runGhostSets(e, blk)
				if st.Post != nil {
					po := u.exec(st.Post, e)
					e = po[0].env
				}
				setI(e)
				u.checkInvariants(e, blk, "inv-keep", st.Pos(), lname)
			case o.kind == oBreak && (o.label == "" || o.label == label):
				setI(o.env)
				u.exitSummary(o.env, blk, cut, lname, st.Pos())
				clearI(o.env)
				res = append(res, Outcome{env: o.env, kind: oNext})
			default:
				res = append(res, o)
			}
		}
	}
	return res
}

func (u *Unit) execRange(st *ast.RangeStmt, env *Env, label string) []Outcome {
	x := u.eval(st.X, env)
	blk := u.loopBlock(st)
	lname := u.loopName(st)
	if blk == nil {
		u.note(fmt.Sprintf("loop %s of %s has no invariant block (treated as invariant true)", lname, u.curFn[len(u.curFn)-1].Key))
	}
	switch xt := types.Unalias(x.Ty).Underlying().(type) {
	case *types.Slice:
		return u.execRangeSlice(st, env, label, x, xt, blk, lname)
	case *types.Map:
		return u.execRangeMap(st, env, label, x, xt, blk, lname)
	case *types.Chan:
		return u.execRangeChan(st, env, label, x, xt, blk, lname)
	}
	unsup("range over %s", x.Ty)
	return nil
}

func (u *Unit) keyObj(e ast.Expr) types.Object {
	if e == nil {
		return nil
	}
	id, ok := e.(*ast.Ident)
	if !ok || id.Name == "_" {
		return nil
	}
	if o := u.Info.Defs[id]; o != nil {
		return o
	}
	return u.Info.Uses[id]
}

func (u *Unit) execRangeSlice(st *ast.RangeStmt, env *Env, label string, x Value, xt *types.Slice, blk *Block, lname string) []Outcome {
	es := u.sortOf(xt.Elem())
	n := sLen(x.Term)
	kobj, vobj := u.keyObj(st.Key), u.keyObj(st.Value)
	// iteration counter before the loop
	env.alias["_i"] = IntLit(0)
	if kobj != nil {
		env.alias[kobj.Name()] = IntLit(0)
	}
	u.runGhostKind(env, blk, "ghostbefore")
	u.checkInvariants(env, blk, "inv-init", st.Pos(), lname)
	li := u.scanLoop(st.Body)
	li.modVars = append(li.modVars, u.ghostsSetIn(st)...)
	u.havocLoop(env, li)
	k := u.D.Fresh("k", SInt)
	env.assume(le(IntLit(0), k))
	env.assume(le(k, n))
	env.alias["_i"] = k
	if kobj != nil {
		env.alias[kobj.Name()] = k
	}
	cut := len(env.pc)
	u.assumeInvariants(env, blk)
	var res []Outcome
	// exit
	ex := env.clone()
	ex.assume(Same(k, n))
	u.exitSummary(ex, blk, cut, lname, st.Pos())
	delete(ex.alias, "_i")
	if kobj != nil {
		delete(ex.alias, kobj.Name())
	}
	res = append(res, Outcome{env: ex, kind: oNext})
	// body
	be := env
	be.assume(lt(k, n))
	be.alias[fmt.Sprintf("_i%d", u.loopOrdinal(st))] = k
	delete(be.alias, "_i")
	if kobj != nil {
		delete(be.alias, kobj.Name())
		be.vars[kobj] = u.fromInt(k, kobj.Type())
	}
	if blk != nil {
		u.coverProbe(be, lname+"/cover/body-reachable", st.Pos(), "loop body reachable under the invariants")
	}
	if vobj != nil {
		elem := u.sliceGet(be, x.Term, es, k)
		be.vars[vobj] = u.define(be, vobj.Name(), elem)
		u.knownRefsOf(be, be.vars[vobj])
		if es == SSlice {
			u.assumeGround(be, u.validSliceT(be.vars[vobj]))
		}
	}
	for _, o := range u.execBlock(st.Body.List, be) {
		switch {
		case o.kind == oNext || (o.kind == oContinue && (o.label == "" || o.label == label)):
			e := o.env
			e.alias["_i"] = k
			u.runGhostSets(e, blk)
			k1 := add(k, IntLit(1))
			e.alias["_i"] = k1
			if kobj != nil {
				e.alias[kobj.Name()] = k1
			}
			u.checkInvariants(e, blk, "inv-keep", st.Pos(), lname)
		case o.kind == oBreak && (o.label == "" || o.label == label):
			o.env.alias["_i"] = k
			u.exitSummary(o.env, blk, cut, lname, st.Pos())
			delete(o.env.alias, "_i")
			res = append(res, Outcome{env: o.env, kind: oNext})
		default:
			res = append(res, o)
		}
	}
	return res
}

func (u *Unit) execRangeMap(st *ast.RangeStmt, env *Env, label string, x Value, xt *types.Map, blk *Block, lname string) []Outcome {
	ks, vs := u.sortOf(xt.Key()), u.sortOf(xt.Elem())
	kobj, vobj := u.keyObj(st.Key), u.keyObj(st.Value)
	// ghost enumeration of the keys present at loop entry
	isNil := Same(x.Term, Term{"nil_Ref", SRef})
	emptyDom := Term{fmt.Sprintf("((as const %s) false)", ArrS(ks, SBool)), ArrS(ks, SBool)}
	dom0 := u.D.Fresh("dom0", ArrS(ks, SBool))
	env.assume(Same(dom0, Ite(isNil, emptyDom, Select(u.heap(env, mapDomName(ks, vs), ArrS(SRef, ArrS(ks, SBool))), x.Term))))
	n := u.D.Fresh("mapn", SInt)
	env.assume(Same(n, Ite(isNil, IntLit(0), u.mapLen(env, x.Term))))
	env.assume(le(IntLit(0), n))
	enum := u.D.Fresh("mapks", ArrS(SInt, ks))
	u.D.n++
	kiName := fmt.Sprintf("mapki!%d", u.D.n)
	u.D.Fun(kiName, SInt, ks)
	j := u.D.Bound("j", SInt)
	kk := u.D.Bound("kk", ks)
	ki := func(t Term) Term { return App(kiName, SInt, t) }
	env.assume(Forall([]Term{j}, Imp(And(le(IntLit(0), j), lt(j, n)), And(Select(dom0, Select(enum, j)), Same(ki(Select(enum, j)), j))), []Term{Select(enum, j)}))
	env.assume(Forall([]Term{kk}, Imp(And(Not(isNil), Select(dom0, kk)), And(le(IntLit(0), ki(kk)), lt(ki(kk), n), Same(Select(enum, ki(kk)), kk))), []Term{Select(dom0, kk)}, []Term{ki(kk)}))
	u.assumeUsed("map iteration visits every key present at loop entry exactly once, in an arbitrary order (keys inserted during the loop are not visited)")
	u.mapIter = append(u.mapIter, mapIterInfo{enum: enum, ki: kiName, n: n, dom0: dom0, keyTy: xt.Key()})
	env.alias["_n"] = n
	defer func() { u.mapIter = u.mapIter[:len(u.mapIter)-1] }()

	env.alias["_i"] = IntLit(0)
	// _m: the map being iterated (the value of the range expression, evaluated once)
	env.alias["_m"] = x.Term
	env.aliasTy["_m"] = x.Ty
	u.runGhostKind(env, blk, "ghostbefore")
	u.checkInvariants(env, blk, "inv-init", st.Pos(), lname)
	li := u.scanLoop(st.Body)
	li.modVars = append(li.modVars, u.ghostsSetIn(st)...)
	u.havocLoop(env, li)
	k := u.D.Fresh("k", SInt)
	env.assume(le(IntLit(0), k))
	env.assume(le(k, n))
	env.alias["_i"] = k
	u.assumeInvariants(env, blk)
	var res []Outcome
	ex := env.clone()
	ex.assume(Same(k, n))
	delete(ex.alias, "_i")
	res = append(res, Outcome{env: ex, kind: oNext})
	be := env
	be.assume(lt(k, n))
	key := u.define(be, "key", Select(enum, k))
	// a key deleted during the iteration is skipped
	domNow := Select(u.heap(be, mapDomName(ks, vs), ArrS(SRef, ArrS(ks, SBool))), x.Term)
	skip := be.clone()
	skip.assume(Not(Select(domNow, key)))
	{
		k1 := add(k, IntLit(1))
		skip.alias["_i"] = k1
		u.checkInvariants(skip, blk, "inv-keep", st.Pos(), lname)
	}
	be.assume(Select(domNow, key))
	if blk != nil {
		u.coverProbe(be, lname+"/cover/body-reachable", st.Pos(), "loop body reachable under the invariants")
	}
	delete(be.alias, "_i")
	if kobj != nil {
		be.vars[kobj] = key
	}
	if vobj != nil {
		val := Select(Select(u.heap(be, mapValName(ks, vs), ArrS(SRef, ArrS(ks, vs))), x.Term), key)
		be.vars[vobj] = u.define(be, vobj.Name(), val)
		u.knownRefsOf(be, be.vars[vobj])
	}
	be.alias["_key"] = key
	for _, o := range u.execBlock(st.Body.List, be) {
		switch {
		case o.kind == oNext || (o.kind == oContinue && (o.label == "" || o.label == label)):
			e := o.env
			e.alias["_i"] = k
			u.runGhostSets(e, blk)
			e.alias["_i"] = add(k, IntLit(1))
			u.checkInvariants(e, blk, "inv-keep", st.Pos(), lname)
		case o.kind == oBreak && (o.label == "" || o.label == label):
			delete(o.env.alias, "_key")
			res = append(res, Outcome{env: o.env, kind: oNext})
		default:
			res = append(res, o)
		}
	}
	return res
}

type mapIterInfo struct {
	keyTy types.Type
	enum  Term
	ki    string
	n     Term
	dom0  Term
}

func nodeString(fset *token.FileSet, n ast.Node) string {
	var b strings.Builder
	printerFprint(&b, fset, n)
	return b.String()
}

func assignsVar(info *types.Info, body ast.Node, v types.Object) bool {
	found := false
	ast.Inspect(body, func(n ast.Node) bool {
		var lhs []ast.Expr
		switch st := n.(type) {
		case *ast.AssignStmt:
			lhs = st.Lhs
		case *ast.IncDecStmt:
			lhs = []ast.Expr{st.X}
		case *ast.UnaryExpr:
			if st.Op == token.AND {
				lhs = []ast.Expr{st.X}
			}
		}
		for _, l := range lhs {
			if id, ok := unparen(l).(*ast.Ident); ok && (info.Uses[id] == v || info.Defs[id] == v) {
				found = true
			}
		}
		return true
	})
	return found
}

// is the variable assigned (or its address taken) inside any function literal of the function being executed?  (such a
// literal could run during a loop body through a call)
func (u *Unit) assignedInALiteral(v types.Object) bool {
	owner := u.curFn[len(u.curFn)-1]
	found := false
	ast.Inspect(owner.Decl, func(n ast.Node) bool {
		if lit, ok := n.(*ast.FuncLit); ok {
			if assignsVar(owner.Pkg.TypesInfo, lit.Body, v) {
				found = true
			}
		}
		return true
	})
	return found
}
