package main

// Trusted models of library functions (each use is recorded in the unit's trusted base).

import (
	"fmt"
	"go/ast"
	"go/constant"
	"go/token"
	"go/types"
	"sort"
	"strings"
)

// reflect.Kind values
const (
	kInvalid = 0
	kBool    = 1
	kInt     = 2
	kChan    = 18
	kFunc    = 19
	kIface   = 20
	kMap     = 21
	kPtr     = 22
	kSlice   = 23
	kString  = 24
	kStruct  = 25
	kUnsafe  = 26
)

func kindOfType(t types.Type) int {
	switch x := types.Unalias(t).Underlying().(type) {
	case *types.Basic:
		switch x.Kind() {
		case types.Bool:
			return 1
		case types.Int:
			return 2
		case types.Int8:
			return 3
		case types.Int16:
			return 4
		case types.Int32:
			return 5
		case types.Int64:
			return 6
		case types.Uint:
			return 7
		case types.Uint8:
			return 8
		case types.Uint16:
			return 9
		case types.Uint32:
			return 10
		case types.Uint64:
			return 11
		case types.Uintptr:
			return 12
		case types.Float32:
			return 13
		case types.Float64:
			return 14
		case types.Complex64:
			return 15
		case types.Complex128:
			return 16
		case types.String:
			return 24
		case types.UnsafePointer:
			return 26
		}
	case *types.Array:
		return 17
	case *types.Chan:
		return 18
	case *types.Signature:
		return 19
	case *types.Interface:
		return 20
	case *types.Map:
		return 21
	case *types.Pointer:
		return 22
	case *types.Slice:
		return 23
	case *types.Struct:
		return 25
	}
	return -1
}

func (u *Unit) rkind(v Term) Term {
	u.D.Fun("rkind", SInt, SVal)
	u.untyped(v)
	u.D.Trust("reflect: Kind()==Invalid exactly for the zero Value / untyped nil")
	if strings.Contains(v.S, "?") {
		x := u.D.Bound("x", SVal)
		u.D.Axiom("rkind-invalid", Forall([]Term{x}, Same(App("untyped", SBool, x), Same(App("rkind", SInt, x), IntLit(0))), []Term{App("rkind", SInt, x)}, []Term{App("untyped", SBool, x)}).S)
		u.D.Axiom("rkind-range", Forall([]Term{x}, And(le(IntLit(0), App("rkind", SInt, x)), le(App("rkind", SInt, x), IntLit(26))), []Term{App("rkind", SInt, x)}).S)
	} else {
		k := App("rkind", SInt, v)
		u.D.Axiom("rkind-invalid:"+v.S, Same(App("untyped", SBool, v), Same(k, IntLit(0))).S)
		u.D.Axiom("rkind-range:"+v.S, And(le(IntLit(0), k), le(k, IntLit(26))).S)
	}
	return App("rkind", SInt, v)
}

func (u *Unit) nilref(v Term) Term {
	u.D.Fun("nilref", SBool, SVal)
	return App("nilref", SBool, v)
}

// reflect facts about a value boxed from static type ty
func (u *Unit) reflectFactsFor(env *Env, b Term, ty types.Type) {
	if !u.useReflect {
		return
	}
	k := kindOfType(ty)
	if k < 0 {
		return
	}
	env.assume(Same(u.rkind(b), IntLit(int64(k))))
	env.assume(Not(u.untyped(b)))
}

func isNilableKind(k Term) Term {
	var alts []Term
	for _, n := range []int64{kChan, kFunc, kIface, kMap, kPtr, kSlice, kUnsafe} {
		alts = append(alts, Same(k, IntLit(n)))
	}
	return Or(alts...)
}

func calleeObj(u *Unit, fun ast.Expr) *types.Func {
	switch f := unparen(fun).(type) {
	case *ast.Ident:
		if fn, ok := u.Info.Uses[f].(*types.Func); ok {
			return fn
		}
	case *ast.SelectorExpr:
		if sel := u.Info.Selections[f]; sel != nil {
			if fn, ok := sel.Obj().(*types.Func); ok {
				return fn
			}
			return nil
		}
		if fn, ok := u.Info.Uses[f.Sel].(*types.Func); ok {
			return fn
		}
	}
	return nil
}

func recvTypeName(fn *types.Func) string {
	sig := fn.Type().(*types.Signature)
	if sig.Recv() == nil {
		return ""
	}
	return typeNameOf(sig.Recv().Type())
}

func (u *Unit) libraryCall(c *ast.CallExpr, fun ast.Expr, env *Env) ([]Outcome, bool) {
	fn := calleeObj(u, fun)
	if fn == nil || fn.Pkg() == nil {
		return nil, false
	}
	pp := fn.Pkg().Path()
	if strings.Contains(pp, "TeaEntityLab") {
		// AtomBool is modelled as a plain boolean cell
		if recvTypeName(fn) == "AtomBool" {
			return u.atomBoolCall(c, fun.(*ast.SelectorExpr), fn, env), true
		}
		return nil, false
	}
	name := pp + "." + fn.Name()
	if rn := recvTypeName(fn); rn != "" {
		name = pp + "." + rn + "." + fn.Name()
	}
	boolT := types.Typ[types.Bool]
	argv := func(i int) Value { return u.eval(c.Args[i], env) }
	recvv := func() Value { return u.eval(fun.(*ast.SelectorExpr).X, env) }
	switch name {
	// ------------------------------------------------------------------ reflect
	case "reflect.ValueOf":
		u.useReflect = true
		v := u.convert(argv(0), types.NewInterfaceType(nil, nil), env)
		return ret(env, Value{v.Term, u.Info.TypeOf(c)}), true
	case "reflect.Value.Kind":
		u.useReflect = true
		return ret(env, Value{u.rkind(recvv().Term), u.Info.TypeOf(c)}), true
	case "reflect.Value.IsValid":
		u.useReflect = true
		return ret(env, Value{Not(u.untyped(recvv().Term)), boolT}), true
	case "reflect.Value.IsNil":
		u.useReflect = true
		v := recvv()
		u.safety(env, "pre", c.Pos(), "reflect.Value.IsNil on "+u.exprText(fun.(*ast.SelectorExpr).X), isNilableKind(u.rkind(v.Term)))
		u.D.Trust("reflect: Value.IsNil panics unless Kind is Chan, Func, Interface, Map, Ptr, Slice or UnsafePointer")
		return ret(env, Value{u.nilref(v.Term), boolT}), true
	case "reflect.Value.Interface":
		u.useReflect = true
		v := recvv()
		u.safety(env, "pre", c.Pos(), "reflect.Value.Interface on "+u.exprText(fun.(*ast.SelectorExpr).X), Not(u.untyped(v.Term)))
		u.D.Trust("reflect: Value.Interface panics on the zero Value")
		return ret(env, Value{v.Term, u.Info.TypeOf(c)}), true
	case "reflect.Value.Elem":
		u.useReflect = true
		v := recvv()
		k := u.rkind(v.Term)
		u.safety(env, "pre", c.Pos(), "reflect.Value.Elem on "+u.exprText(fun.(*ast.SelectorExpr).X), Or(Same(k, IntLit(kPtr)), Same(k, IntLit(kIface))))
		return ret(env, Value{u.relem(env, v.Term), u.Info.TypeOf(c)}), true
	case "reflect.Indirect":
		u.useReflect = true
		v := argv(0)
		k := u.rkind(v.Term)
		return ret(env, Value{Ite(Same(k, IntLit(kPtr)), u.relem(env, v.Term), v.Term), u.Info.TypeOf(c)}), true
	case "reflect.Value.FieldByName":
		// the field as an uninterpreted function of the struct value and the name (the zero Value when there is no such field)
		u.useReflect = true
		v := recvv()
		u.safety(env, "pre", c.Pos(), "reflect.Value.FieldByName on "+u.exprText(fun.(*ast.SelectorExpr).X), Same(u.rkind(v.Term), IntLit(kStruct)))
		u.D.Trust("reflect: Value.FieldByName panics unless Kind is Struct; the field is a function of the struct value and the name")
		return ret(env, Value{u.rfield(v.Term, argv(0).Term), u.Info.TypeOf(c)}), true
	case "reflect.Value.String":
		// the underlying string of a string-kinded value; some description of the value otherwise (never panics)
		u.useReflect = true
		v := recvv()
		_, un := u.boxFn(SStr)
		other := u.D.Fresh("rvstring", SStr)
		u.D.Trust("reflect: Value.String returns the underlying string when Kind is String")
		return ret(env, Value{Ite(Same(u.rkind(v.Term), IntLit(24)), App(un, SStr, v.Term), other), types.Typ[types.String]}), true
	case "reflect.Value.Type":
		u.useReflect = true
		v := recvv()
		u.safety(env, "pre", c.Pos(), "reflect.Value.Type on "+u.exprText(fun.(*ast.SelectorExpr).X), Not(u.untyped(v.Term)))
		return ret(env, Value{u.rtype(v.Term), u.Info.TypeOf(c)}), true
	case "reflect.TypeOf":
		u.useReflect = true
		v := u.convert(argv(0), types.NewInterfaceType(nil, nil), env)
		u.D.Trust("reflect: TypeOf(x)==nil exactly for the untyped nil interface")
		x := u.D.Bound("x", SVal)
		u.rtype(v.Term)
		u.untyped(v.Term)
		u.D.Axiom("rtype-nonzero", Forall([]Term{x}, Imp(Not(App("untyped", SBool, x)), lt(IntLit(0), App("rtype", SInt, x))), []Term{App("rtype", SInt, x)}).S)
		return ret(env, Value{Ite(u.untyped(v.Term), IntLit(0), u.rtype(v.Term)), u.Info.TypeOf(c)}), true
	case "reflect.Type.Kind":
		u.useReflect = true
		t := recvv()
		u.safety(env, "nil", c.Pos(), u.exprText(fun.(*ast.SelectorExpr).X)+".Kind() on nil reflect.Type", Not(Same(t.Term, IntLit(0))))
		u.D.Fun("tkind", SInt, SInt)
		x := u.D.Bound("x", SVal)
		u.rkind(Term{"nil_Val", SVal})
		u.rtype(Term{"nil_Val", SVal})
		u.D.Axiom("tkind-rkind", Forall([]Term{x}, Imp(Not(App("untyped", SBool, x)), Same(App("tkind", SInt, App("rtype", SInt, x)), App("rkind", SInt, x))), []Term{App("rtype", SInt, x)}).S)
		return ret(env, Value{App("tkind", SInt, t.Term), u.Info.TypeOf(c)}), true
	case "reflect.New":
		u.useReflect = true
		t := argv(0)
		u.D.Fun("rnew", SVal, SInt, SInt)
		nv := u.define(env, "rnew", App("rnew", SVal, t.Term, env.clock))
		env.assume(Same(u.rkind(nv), IntLit(kPtr)))
		env.assume(Not(u.nilref(nv)))
		env.assume(Not(u.untyped(nv)))
		el := u.relem(env, nv)
		env.assume(Same(u.rtype(el), t.Term))
		u.D.Fun("ptrto", SInt, SInt)
		env.assume(Same(u.rtype(nv), App("ptrto", SInt, t.Term)))
		env.assume(u.settable(el))
		nc := u.D.Fresh("clk", SInt)
		env.assume(Same(nc, add(env.clock, IntLit(1))))
		env.clock = nc
		return ret(env, Value{nv, u.Info.TypeOf(c)}), true
	case "reflect.Value.Set":
		u.useReflect = true
		v := recvv()
		u.safety(env, "pre", c.Pos(), "reflect.Value.Set on "+u.exprText(fun.(*ast.SelectorExpr).X), u.settable(v.Term))
		u.D.Trust("reflect: Value.Set panics unless the Value is settable (never the zero Value)")
		argv(0)
		u.D.Fun("rset_tick", SInt, SInt)
		return ret(env), true
	// ------------------------------------------------------------------ math
	case "math.Round":
		v := argv(0)
		if v.Sort != SF64 {
			unsup("math.Round outside bv mode")
		}
		u.D.Trust("math.Round(x) = IEEE roundToIntegral, ties away from zero")
		return ret(env, Value{App("fp.roundToIntegral RNA", SF64, v.Term), v.Ty}), true
	case "math.Abs":
		v := argv(0)
		if v.Sort != SF64 {
			unsup("math.Abs outside bv mode")
		}
		return ret(env, Value{App("fp.abs", SF64, v.Term), v.Ty}), true
	case "math.IsNaN":
		v := argv(0)
		if v.Sort != SF64 {
			unsup("math.IsNaN outside bv mode")
		}
		return ret(env, Value{App("fp.isNaN", SBool, v.Term), boolT}), true
	case "math.IsInf":
		v := argv(0)
		if v.Sort != SF64 {
			unsup("math.IsInf outside bv mode")
		}
		sign, ok := constInt(u, c.Args[1])
		if !ok {
			unsup("math.IsInf with non-constant sign")
		}
		inf := App("fp.isInfinite", SBool, v.Term)
		switch {
		case sign > 0:
			inf = And(inf, App("fp.isPositive", SBool, v.Term))
		case sign < 0:
			inf = And(inf, App("fp.isNegative", SBool, v.Term))
		}
		return ret(env, Value{inf, boolT}), true
	// ------------------------------------------------------------------ strconv
	case "strconv.Atoi":
		r, e := u.parseInt(env, argv(0).Term, wordBits, true)
		return ret(env, Value{r, types.Typ[types.Int]}, Value{e, errType()}), true
	case "strconv.ParseInt", "strconv.ParseUint":
		s := argv(0)
		base, okb := constInt(u, c.Args[1])
		bits, okbits := constInt(u, c.Args[2])
		if !okb || !okbits || base != 10 {
			unsup("strconv.%s with non-constant base/bitSize", fn.Name())
		}
		if bits == 0 {
			bits = int64(wordBits)
		}
		signed := fn.Name() == "ParseInt"
		r, e := u.parseInt(env, s.Term, int(bits), signed)
		rt := types.Typ[types.Int64]
		if !signed {
			rt = types.Typ[types.Uint64]
		}
		return ret(env, Value{r, rt}, Value{e, errType()}), true
	case "strconv.ParseFloat":
		s := argv(0)
		bits, ok := constInt(u, c.Args[1])
		if !ok {
			unsup("ParseFloat with non-constant bitSize")
		}
		r, e := u.parseFloat(env, s.Term, int(bits))
		return ret(env, Value{r, types.Typ[types.Float64]}, Value{e, errType()}), true
	case "strconv.ParseBool":
		s := argv(0)
		u.D.Fun("str_isbool", SBool, SStr)
		u.D.Fun("str_bool", SBool, SStr)
		e := u.D.Fresh("perr", SErr)
		env.assume(Same(Same(e, Term{"nil_Err", SErr}), App("str_isbool", SBool, s.Term)))
		u.D.Trust("strconv.ParseBool: (b,nil) exactly for the accepted spellings")
		return ret(env, Value{And(App("str_isbool", SBool, s.Term), App("str_bool", SBool, s.Term)), boolT}, Value{e, errType()}), true
	case "strconv.Itoa":
		v := argv(0)
		fnm := "itoa_" + v.Sort.Mangle()
		u.D.Fun(fnm, SStr, v.Sort)
		return ret(env, Value{App(fnm, SStr, v.Term), types.Typ[types.String]}), true
	// ------------------------------------------------------------------ fmt / errors / strings
	case "fmt.Sprintf", "fmt.Sprint", "fmt.Errorf":
		if fn.Name() == "Sprintf" && len(c.Args) > 0 {
			// a constant format made of text and %s verbs over string arguments is the concatenation it denotes
			if tv, ok := u.Info.Types[c.Args[0]]; ok && tv.Value != nil && tv.Value.Kind() == constant.String {
				allStr := true
				var as []Term
				for i := 1; i < len(c.Args); i++ {
					if b, ok := types.Unalias(u.Info.TypeOf(c.Args[i])).Underlying().(*types.Basic); !ok || b.Kind() != types.String {
						allStr = false
					}
				}
				if allStr {
					for i := 1; i < len(c.Args); i++ {
						as = append(as, argv(i).Term)
					}
					if t, ok := u.sprintfChain(constant.StringVal(tv.Value), as); ok {
						return ret(env, Value{t, types.Typ[types.String]}), true
					}
				}
			}
		}
		if fn.Name() == "Sprint" && len(c.Args) == 1 && !c.Ellipsis.IsValid() {
			// Sprint of one operand formats it with the default verb: fmt.Sprint(x) == fmt.Sprintf("%v", x)
			f := u.constVal(constant.MakeString("%v"), types.Typ[types.String])
			v := u.convert(argv(0), types.NewInterfaceType(nil, nil), env)
			u.D.Fun("sprintf_2", SStr, SStr, v.Sort)
			u.D.Trust("fmt.Sprint is total and deterministic (string contents are not modelled)")
			return ret(env, Value{App("sprintf_2", SStr, f.Term, v.Term), types.Typ[types.String]}), true
		}
		var ts []Term
		var ss []Sort
		for i := range c.Args {
			v := argv(i)
			if i > 0 || v.Sort != SStr {
				v = u.convert(v, types.NewInterfaceType(nil, nil), env)
			}
			ts = append(ts, v.Term)
			ss = append(ss, v.Sort)
		}
		rs := SStr
		rt := types.Type(types.Typ[types.String])
		if fn.Name() == "Errorf" {
			rs = SErr
			rt = errType()
		}
		fnm := fmt.Sprintf("%s_%d", strings.ToLower(fn.Name()), len(ts))
		if len(ts) > 0 && ss[0] != SStr {
			fnm += "v"
		}
		u.D.Fun(fnm, rs, ss...)
		r := App(fnm, rs, ts...)
		if rs == SErr {
			env.assume(Not(Same(r, Term{"nil_Err", SErr})))
		}
		u.D.Trust("fmt." + fn.Name() + " is total and deterministic (string contents are not modelled)")
		return ret(env, Value{r, rt}), true
	case "errors.New":
		s := argv(0)
		u.D.Fun("err_new", SErr, SStr)
		r := App("err_new", SErr, s.Term)
		env.assume(Not(Same(r, Term{"nil_Err", SErr})))
		return ret(env, Value{r, errType()}), true
	case "strings.ReplaceAll":
		u.D.Fun("str_replaceall", SStr, SStr, SStr, SStr)
		u.D.Trust("strings.ReplaceAll is an uninterpreted function of its three arguments")
		return ret(env, Value{App("str_replaceall", SStr, argv(0).Term, argv(1).Term, argv(2).Term), types.Typ[types.String]}), true
	case "strings.Compare":
		a, b := argv(0), argv(1)
		fnl := "lt_" + SStr.Mangle()
		u.orderAxioms(fnl, SStr)
		u.D.Trust("strings.Compare(a,b) is -1/0/+1 by the natural string order")
		r := Ite(App(fnl, SBool, a.Term, b.Term), IntLit(-1), Ite(App(fnl, SBool, b.Term, a.Term), IntLit(1), IntLit(0)))
		return ret(env, Value{r, types.Typ[types.Int]}), true
	case "regexp.MatchString":
		u.D.Fun("regex_match", SBool, SStr, SStr)
		u.D.Fun("regex_err", SErr, SStr)
		p, s := argv(0), argv(1)
		return ret(env, Value{App("regex_match", SBool, p.Term, s.Term), boolT}, Value{App("regex_err", SErr, p.Term), errType()}), true
	// ------------------------------------------------------------------ sort
	case "sort.SliceStable", "sort.Slice":
		return u.sortSliceStable(c, env), true
	// ------------------------------------------------------------------ sync
	case "sync.Mutex.Lock", "sync.RWMutex.Lock":
		u.lockOp(env, fun.(*ast.SelectorExpr).X, "W", true, c)
		return ret(env), true
	case "sync.RWMutex.RLock":
		u.lockOp(env, fun.(*ast.SelectorExpr).X, "R", true, c)
		return ret(env), true
	case "sync.Mutex.TryLock", "sync.RWMutex.TryLock", "sync.RWMutex.TryRLock":
		mode := "W"
		if fn.Name() == "TryRLock" {
			mode = "R"
		}
		te := env.clone()
		u.lockOp(te, fun.(*ast.SelectorExpr).X, mode, true, c)
		return []Outcome{{env: te, kind: oReturn, vals: []Value{{True, boolT}}}, {env: env, kind: oReturn, vals: []Value{{False, boolT}}}}, true
	case "sync.Mutex.Unlock", "sync.RWMutex.Unlock":
		u.lockOp(env, fun.(*ast.SelectorExpr).X, "W", false, c)
		return ret(env), true
	case "sync.RWMutex.RUnlock":
		u.lockOp(env, fun.(*ast.SelectorExpr).X, "R", false, c)
		return ret(env), true
	// sync.WaitGroup: Add / Done / Wait are events 8 / 9 / 10 of the trace (per-goroutine view; the join itself - Wait returns
	// only after the matching Done calls - is the library's, trusted).  At Done the "ensures@done" clauses of the unit are
	// proved (what the signalling goroutine publishes must hold when it signals, not merely when it returns); at Wait every
	// local that a function literal created in this activation assigns becomes unknown (the joined goroutine may have run).
	case "sync.WaitGroup.Add":
		n := u.box(argv(0))
		u.emit(env, 8, Term{}, n.Term, Term{}, Term{})
		return ret(env), true
	case "sync.WaitGroup.Done":
		if u.Block != nil {
			for k, cl := range u.Block.Of("ensures@done") {
				label := cl.Label
				if label == "" {
					label = fmt.Sprintf("done%d", k)
				}
				sc := *u.ownCtx
				u.assert(env, "done/"+label, "post", c.Pos(), cl.Text, u.specExprCtx(cl, env, &sc))
			}
		}
		u.emit(env, 9, Term{}, Term{}, Term{}, Term{})
		return ret(env), true
	case "sync.WaitGroup.Wait":
		u.emit(env, 10, Term{}, Term{}, Term{}, Term{})
		u.D.Trust("sync.WaitGroup: Wait returns only after the Done calls it was told to expect (Add); what the signalling goroutines wrote before Done is visible afterwards")
		u.havocLitAssigned(env, nil)
		return ret(env), true
	case "sync.Pool.Get":
		// an object not currently reachable from the structure, or a fresh one from New
		r := u.alloc(env, "poolobj")
		u.D.Trust("sync.Pool.Get returns a node that is not reachable from the queue (modelled as fresh storage with arbitrary contents)")
		u.havocFreshObject(env, r)
		b := u.D.Fresh("poolval", SVal)
		u.poolObjs[b.S] = r
		return ret(env, Value{b, u.Info.TypeOf(c)}), true
	case "sync.Pool.Put":
		v := argv(0)
		u.poolPutCheck(env, c, v)
		return ret(env), true
	// ------------------------------------------------------------------ net/http (TRUSTED models, used by C17)
	case "net/http.NewRequestWithContext":
		// (nil, err) or a fresh request with the given method, a URL whose String() is the given url, the given body,
		// and a fresh empty header
		u.D.Trust("http.NewRequestWithContext returns (nil, err) or a fresh *Request with Method == method, URL.String() == url, Body wrapping body, and a fresh empty Header")
		argv(0)
		method, urlv, body := argv(1), argv(2), u.convert(argv(3), types.NewInterfaceType(nil, nil), env)
		rt := sig0(fn).Results().At(0).Type()
		reqT := rt.(*types.Pointer).Elem()
		fail := env.clone()
		e := u.D.Fresh("reqerr", SErr)
		fail.assume(Not(Same(e, Term{"nil_Err", SErr})))
		okEnv := env
		r := u.alloc(okEnv, "request")
		si := u.structOf(reqT)
		setF := func(name string, v Term) {
			for _, f := range si.Fields {
				if f.Name == name {
					hn := fieldHeapName(si, name)
					h := u.heap(okEnv, hn, ArrS(SRef, f.Sort))
					u.setHeap(okEnv, hn, Store(h, r, v))
				}
			}
		}
		setF("Method", method.Term)
		ur := u.alloc(okEnv, "url")
		u.D.Fun("url_string", SStr, SRef)
		okEnv.assume(Same(App("url_string", SStr, ur), urlv.Term))
		setF("URL", ur)
		u.D.Fun("req_body_of", SVal, SVal)
		setF("Body", App("req_body_of", SVal, body.Term))
		hm := u.alloc(okEnv, "header")
		{
			mt := headerMapType(u)
			dom, _, ks, vs := u.mapHeaps(okEnv, mt)
			empty := u.D.Fresh("emptydom", ArrS(ks, SBool))
			kq := u.D.Bound("k", ks)
			okEnv.assume(Forall([]Term{kq}, Not(Select(empty, kq)), []Term{Select(empty, kq)}))
			u.setHeap(okEnv, mapDomName(ks, vs), Store(dom, hm, empty))
			lenH := u.heap(okEnv, mapLenName, ArrS(SRef, SInt))
			u.setHeap(okEnv, mapLenName, Store(lenH, hm, IntLit(0)))
		}
		setF("Header", hm)
		return []Outcome{
			{env: okEnv, kind: oReturn, vals: []Value{{r, rt}, {Term{"nil_Err", SErr}, errType()}}},
			{env: fail, kind: oReturn, vals: []Value{{Term{"nil_Ref", SRef}, rt}, {e, errType()}}},
		}, true
	case "net/http.Header.Clone":
		u.D.Trust("http.Header.Clone returns nil for a nil header, else a fresh map with the same keys and values")
		h := recvv()
		mt := headerMapType(u)
		nilEnv := env.clone()
		nilEnv.assume(Same(h.Term, Term{"nil_Ref", SRef}))
		env.assume(Not(Same(h.Term, Term{"nil_Ref", SRef})))
		nh := u.alloc(env, "hclone")
		dom, vh, ks, vs := u.mapHeaps(env, mt)
		u.setHeap(env, mapDomName(ks, vs), Store(dom, nh, Select(dom, h.Term)))
		u.setHeap(env, mapValName(ks, vs), Store(vh, nh, Select(vh, h.Term)))
		lenH := u.heap(env, mapLenName, ArrS(SRef, SInt))
		u.setHeap(env, mapLenName, Store(lenH, nh, Select(lenH, h.Term)))
		rt := u.Info.TypeOf(c)
		return []Outcome{
			{env: env, kind: oReturn, vals: []Value{{nh, rt}}},
			{env: nilEnv, kind: oReturn, vals: []Value{{Term{"nil_Ref", SRef}, rt}}},
		}, true
	case "net/http.Header.Add":
		u.D.Trust("http.Header.Add(k, v) replaces the value list of k by hdr_added(old list, v) (a write to the header map)")
		h := recvv()
		k, v := argv(0), argv(1)
		mt := headerMapType(u)
		u.safety(env, "nil", c.Pos(), "write to nil header map "+u.exprText(fun.(*ast.SelectorExpr).X), Not(Same(h.Term, Term{"nil_Ref", SRef})))
		u.frameCheckRef(env, h.Term, "map", c)
		oldRaw, had := u.mapGet(env, h.Term, mt, k.Term)
		old := Ite(had, oldRaw, u.zero(mt.Elem()))
		u.D.Fun("hdr_added", SSlice, SSlice, SStr)
		nv := App("hdr_added", SSlice, old, v.Term)
		u.mapSet(env, h.Term, mt, k.Term, nv)
		return ret(env), true
	case "net/http.Client.Do":
		// one event of kind 2: tr_obj = the client, tr_fn = method("http.Client.Do"), tr_arg = the request, tr_err = the error
		u.D.Trust("http.Client.Do: one request per call; a nil error comes with a non-nil response whose Body is non-nil")
		cl := recvv()
		req := argv(0)
		rt := sig0(fn).Results().At(0).Type()
		resp := u.D.Fresh("resp", SRef)
		e := u.D.Fresh("doerr", SErr)
		env.assume(Not(lt(env.clock, u.birth(resp))))
		env.assume(Imp(Same(e, Term{"nil_Err", SErr}), Not(Same(resp, Term{"nil_Ref", SRef}))))
		if u.effectfulCallbacks() {
			u.emitRes(env, 2, methodConst(u, "http.Client.Do"), u.box(req).Term, cl.Term, e, u.box(Value{resp, rt}).Term)
		}
		{
			// a non-nil response has a non-nil Body
			si := u.structOf(rt.(*types.Pointer).Elem())
			for _, f := range si.Fields {
				if f.Name == "Body" {
					h := u.heap(env, fieldHeapName(si, "Body"), ArrS(SRef, f.Sort))
					env.assume(Imp(Not(Same(resp, Term{"nil_Ref", SRef})), Not(u.untyped(Select(h, resp)))))
				}
			}
		}
		return ret(env, Value{resp, rt}, Value{e, errType()}), true
	case "time.Now":
		r := u.D.Fresh("now", SInt)
		return ret(env, Value{r, u.Info.TypeOf(c)}), true
	}
	if isOpaquePkg(pp) || pp == "reflect" || pp == "strconv" || pp == "math" || pp == "fmt" || pp == "strings" || pp == "sort" || pp == "io/ioutil" || pp == "errors" || pp == "log" || pp == "runtime" {
		return u.opaqueLibraryCall(c, fun, fn, name, env), true
	}
	return nil, false
}

func errType() types.Type { return types.Universe.Lookup("error").Type() }

func constInt(u *Unit, e ast.Expr) (int64, bool) {
	tv, ok := u.Info.Types[e]
	if !ok || tv.Value == nil {
		return 0, false
	}
	s := tv.Value.ExactString()
	var n int64
	if _, err := fmt.Sscanf(s, "%d", &n); err != nil {
		return 0, false
	}
	return n, true
}

func (u *Unit) rfield(v, name Term) Term {
	u.D.Fun("rfield", SVal, SVal, SStr)
	return App("rfield", SVal, v, name)
}

func (u *Unit) relem(env *Env, v Term) Term {
	u.D.Fun("relem", SVal, SVal)
	x := u.D.Bound("x", SVal)
	u.nilref(v)
	u.rkind(v)
	// Elem of a nil pointer is the zero Value
	u.D.Axiom("relem-nil", Forall([]Term{x}, Imp(And(Same(App("rkind", SInt, x), IntLit(kPtr)), App("nilref", SBool, x)), App("untyped", SBool, App("relem", SVal, x))), []Term{App("relem", SVal, x)}).S)
	u.D.Axiom("relem-nonnil", Forall([]Term{x}, Imp(And(Same(App("rkind", SInt, x), IntLit(kPtr)), Not(App("nilref", SBool, x))), Not(App("untyped", SBool, App("relem", SVal, x)))), []Term{App("relem", SVal, x)}).S)
	u.D.Fun("ptrto", SInt, SInt)
	u.rtype(v)
	u.D.Axiom("relem-ptrtype", Forall([]Term{x}, Imp(And(Same(App("rkind", SInt, x), IntLit(kPtr)), Not(App("nilref", SBool, x))), Same(App("rtype", SInt, x), App("ptrto", SInt, App("rtype", SInt, App("relem", SVal, x))))), []Term{App("relem", SVal, x)}).S)
	u.settable(v)
	u.D.Axiom("relem-settable", Forall([]Term{x}, Imp(And(Same(App("rkind", SInt, x), IntLit(kPtr)), Not(App("nilref", SBool, x))), App("settable", SBool, App("relem", SVal, x))), []Term{App("relem", SVal, x)}).S)
	u.D.Trust("reflect: Elem/Indirect of a nil pointer is the zero Value; of a non-nil pointer a valid, settable Value")
	return App("relem", SVal, v)
}

func (u *Unit) settable(v Term) Term {
	u.D.Fun("settable", SBool, SVal)
	x := u.D.Bound("x", SVal)
	u.untyped(v)
	u.D.Axiom("settable-valid", Forall([]Term{x}, Imp(App("settable", SBool, x), Not(App("untyped", SBool, x))), []Term{App("settable", SBool, x)}).S)
	return App("settable", SBool, v)
}

// ---------------------------------------------------------------------------------------------
// strconv (bit-vector mode): the number a text denotes is an uninterpreted 128-bit signed value
// (values beyond +-2^100 behave identically for every <=64-bit range test)

func (u *Unit) parseInt(env *Env, s Term, bits int, signed bool) (Term, Term) {
	if !u.BV {
		unsup("strconv.ParseInt outside bv mode")
	}
	u.D.Fun("str_isint", SBool, SStr)
	u.D.Fun("str_hassign", SBool, SStr)
	u.D.Fun("str_int", BV(128), SStr)
	u.D.Trust("strconv.ParseInt/ParseUint/Atoi: (n,nil) exactly when the text is an integer literal (ParseUint: without sign) in range of bitSize; the denoted number is an uninterpreted function of the text (128-bit abstraction)")
	isint := App("str_isint", SBool, s)
	val := App("str_int", BV(128), s)
	lit := func(n int64) Term {
		if n >= 0 {
			return Term{fmt.Sprintf("(_ bv%d 128)", n), BV(128)}
		}
		return App("bvneg", BV(128), Term{fmt.Sprintf("(_ bv%d 128)", -n), BV(128)})
	}
	var lo, hi Term
	one := Term{"(_ bv1 128)", BV(128)}
	shl := func(k int) Term { return App("bvshl", BV(128), one, Term{fmt.Sprintf("(_ bv%d 128)", k), BV(128)}) }
	if signed {
		lo = App("bvneg", BV(128), shl(bits-1))
		hi = App("bvsub", BV(128), shl(bits-1), one)
	} else {
		lo = lit(0)
		hi = App("bvsub", BV(128), shl(bits), one)
	}
	inr := And(isint, App("bvsle", SBool, lo, val), App("bvsle", SBool, val, hi))
	if !signed {
		inr = And(inr, Not(App("str_hassign", SBool, s)))
	}
	e := u.D.Fresh("perr", SErr)
	env.assume(Same(Same(e, Term{"nil_Err", SErr}), inr))
	low64 := App("(_ extract 63 0)", BV(64), val)
	clamp := Ite(App("bvslt", SBool, val, lo), App("(_ extract 63 0)", BV(64), lo), App("(_ extract 63 0)", BV(64), hi))
	syntaxOK := isint
	if !signed {
		syntaxOK = And(isint, Not(App("str_hassign", SBool, s)))
	}
	r := Ite(inr, low64, Ite(syntaxOK, clamp, bvLit(0, 64)))
	rc := u.D.Fresh("pint", BV(64))
	env.assume(Same(rc, r))
	return rc, e
}

func (u *Unit) parseFloat(env *Env, s Term, bits int) (Term, Term) {
	if !u.BV {
		unsup("strconv.ParseFloat outside bv mode")
	}
	u.D.Fun("str_isfloat", SBool, SStr)
	u.D.Trust("strconv.ParseFloat: (f,nil) exactly when the text is a floating-point literal whose nearest value of the requested size is finite; f is that nearest value (uninterpreted function of the text)")
	isf := App("str_isfloat", SBool, s)
	var r Term
	if bits == 32 {
		u.D.Fun("str_f32", SF32, SStr)
		r32 := App("str_f32", SF32, s)
		r = App("(_ to_fp 11 53) RNE", SF64, r32)
		env.assume(Not(App("fp.isNaN", SBool, r32)))
	} else {
		u.D.Fun("str_f64", SF64, SStr)
		r = App("str_f64", SF64, s)
		env.assume(Not(App("fp.isNaN", SBool, r)))
	}
	e := u.D.Fresh("perr", SErr)
	ok := And(isf, Not(App("fp.isInfinite", SBool, r)))
	env.assume(Same(Same(e, Term{"nil_Err", SErr}), ok))
	rc := u.D.Fresh("pfloat", SF64)
	env.assume(Same(rc, Ite(isf, r, f64Lit(0))))
	return rc, e
}

// ---------------------------------------------------------------------------------------------
// opaque library calls: results are arbitrary, nothing of ours is modified

func (u *Unit) opaqueLibraryCall(c *ast.CallExpr, fun ast.Expr, fn *types.Func, name string, env *Env) []Outcome {
	sig := fn.Type().(*types.Signature)
	for i, a := range c.Args {
		if tv, ok := u.Info.Types[a]; ok && tv.IsType() {
			continue
		}
		av := u.eval(a, env)
		// specifications may name the arguments of the latest call of an opaque library function: <Func>_arg<i>
		env.alias[fmt.Sprintf("%s_arg%d", fn.Name(), i)] = av.Term
		env.aliasTy[fmt.Sprintf("%s_arg%d", fn.Name(), i)] = av.Ty
	}
	if se, ok := fun.(*ast.SelectorExpr); ok {
		if sel := u.Info.Selections[se]; sel != nil {
			u.eval(se.X, env)
		}
	}
	u.D.Trust("library call " + name + " is opaque: arbitrary result, no effect on modelled state")
	var vals []Value
	errv := Term{}
	for i := 0; i < sig.Results().Len(); i++ {
		rt := sig.Results().At(i).Type()
		v := u.D.Fresh("lib_"+fn.Name(), u.sortOf(rt))
		u.typeInvariant(env, v, rt)
		if v.Sort == SErr {
			errv = v
		}
		vals = append(vals, Value{v, rt})
		// specifications may name the results of the latest call of an opaque library function: <Func>_r<i>
		env.alias[fmt.Sprintf("%s_r%d", fn.Name(), i)] = v
		env.aliasTy[fmt.Sprintf("%s_r%d", fn.Name(), i)] = rt
	}
	if u.effectfulCallbacks() {
		// a call through an opaque interface value (e.g. the wrapped http.RoundTripper): event of kind 2
		if se, ok := fun.(*ast.SelectorExpr); ok {
			if sel := u.Info.Selections[se]; sel != nil {
				if _, isIface := types.Unalias(sel.Recv()).Underlying().(*types.Interface); isIface {
					recv := u.eval(se.X, env)
					u.safety(env, "nil", c.Pos(), u.exprText(se.X)+" (interface method call)", Not(u.untyped(recv.Term)))
					arg := Term{"nil_Val", SVal}
					if len(c.Args) > 0 {
						av := u.eval(c.Args[0], env)
						arg = av.Term
						if av.Sort != SVal {
							arg = u.box(av).Term
						}
					}
					u.emit(env, 2, Term{}, arg, recv.Term, errv)
					for i, v := range vals {
						env.alias[fmt.Sprintf("_ifaceres%d", i)] = v.Term
						env.aliasTy[fmt.Sprintf("_ifaceres%d", i)] = v.Ty
					}
				}
			}
		}
	}
	return ret(env, vals...)
}

// ---------------------------------------------------------------------------------------------
// AtomBool: a boolean cell (heap PH_Bool)

func (u *Unit) atomBoolCall(c *ast.CallExpr, se *ast.SelectorExpr, fn *types.Func, env *Env) []Outcome {
	// receiver is a field of a pointer struct: use (holder ref, field) as the cell
	holder, field := u.fieldCell(se.X, env)
	if fse, ok := unparen(se.X).(*ast.SelectorExpr); ok {
		u.lockGuardCheck(env, fse, fn.Name() == "Set")
	}
	hn := "AB_" + field
	h := u.heap(env, hn, ArrS(SRef, SBool))
	switch fn.Name() {
	case "Get":
		return ret(env, Value{Select(h, holder), types.Typ[types.Bool]})
	case "Set":
		v := u.eval(c.Args[0], env)
		// "opt set-outside-lock=<flag field>:<lock field>": the flag is published without waiting for the lock (a holder of the lock
		// may be blocked for as long as it likes; readers of the flag must not have to wait for it)
		if u.Block != nil {
			if d := strings.SplitN(u.Block.Opts["set-outside-lock"], ":", 2); len(d) == 2 {
				if fse, ok := unparen(se.X).(*ast.SelectorExpr); ok && fse.Sel.Name == d[0] {
					key := u.baseKey(fse.X, env) + "." + d[1]
					u.assert(env, "perm/set-outside-lock/"+u.exprText(fse), "perm", c.Pos(), u.exprText(fse)+" is set while "+u.exprText(fse.X)+"."+d[1]+" is not held", boolTerm(env.held[key] == ""))
				}
			}
		}
		u.setHeap(env, hn, Store(h, holder, v.Term))
		return ret(env)
	}
	unsup("AtomBool.%s", fn.Name())
	return nil
}

// for an expression x.f where x is a pointer to a struct: (x, "Struct_f")
func (u *Unit) fieldCell(e ast.Expr, env *Env) (Term, string) {
	se, ok := unparen(e).(*ast.SelectorExpr)
	if !ok {
		unsup("field cell of %s", u.exprText(e))
	}
	sel := u.Info.Selections[se]
	if sel == nil || sel.Kind() != types.FieldVal {
		unsup("field cell of %s", u.exprText(e))
	}
	base := u.eval(se.X, env)
	path := sel.Index()
	cur := base
	for _, idx := range path[:len(path)-1] {
		cur = u.fieldPath(cur, []int{idx}, env, se)
	}
	if _, isPtr := types.Unalias(cur.Ty).Underlying().(*types.Pointer); !isPtr {
		unsup("field cell on a struct value %s", u.exprText(e))
	}
	u.safety(env, "nil", e.Pos(), u.exprText(se.X), Not(Same(cur.Term, Term{"nil_Ref", SRef})))
	return cur.Term, typeNameOf(cur.Ty) + "_" + se.Sel.Name
}

// ---------------------------------------------------------------------------------------------
// locks (ghost: which locks this activation holds and in which mode)

// the identity of a lock x.f: the object x denotes (so that a helper that locks its own receiver and the closure of its caller
// that touches the same object agree whatever the two variables are called), else the expression text
func (u *Unit) lockKey(lockExpr ast.Expr, env *Env) string {
	if se, ok := unparen(lockExpr).(*ast.SelectorExpr); ok {
		return u.baseKey(se.X, env) + "." + se.Sel.Name
	}
	return u.exprText(lockExpr)
}

func (u *Unit) baseKey(x ast.Expr, env *Env) string {
	if id, ok := unparen(x).(*ast.Ident); ok {
		if obj := u.Info.Uses[id]; obj != nil {
			if t, ok := env.vars[obj]; ok && t.Sort == SRef {
				return "@" + t.S
			}
		}
	}
	return u.exprText(x)
}

// locals of the running function that a function literal created in this activation assigns: after a point at which such a
// literal may have run elsewhere (a join, or a callee that was handed the literal) their values are unknown
func (u *Unit) havocLitAssigned(env *Env, only map[string]bool) {
	var keys []string
	for k := range u.knownLits {
		keys = append(keys, k)
	}
	sort.Strings(keys)
	for _, k := range keys {
		li := u.knownLits[k]
		if li == nil || li.lit == nil || (only != nil && !only[k]) {
			continue
		}
		ast.Inspect(li.lit.Body, func(n ast.Node) bool {
			var lhs []ast.Expr
			switch st := n.(type) {
			case *ast.AssignStmt:
				if st.Tok != token.DEFINE {
					lhs = st.Lhs
				}
			case *ast.IncDecStmt:
				lhs = []ast.Expr{st.X}
			}
			for _, l := range lhs {
				id, ok := unparen(l).(*ast.Ident)
				if !ok {
					continue
				}
				v, ok := li.info.Uses[id].(*types.Var)
				if !ok || (v.Pos() >= li.lit.Pos() && v.Pos() <= li.lit.End()) {
					continue
				}
				if cur, ok := env.vars[v]; ok {
					nv := u.D.Fresh("joined_"+v.Name(), cur.Sort)
					u.typeInvariant(env, nv, v.Type())
					env.vars[v] = nv
				}
			}
			return true
		})
	}
}

// "text%stext%s..." over string arguments as a left-nested concatenation (the shape of a + b + c); false for any other verb
func (u *Unit) sprintfChain(format string, args []Term) (Term, bool) {
	pieces := strings.Split(format, "%s")
	if len(pieces) != len(args)+1 {
		return Term{}, false
	}
	for _, p := range pieces {
		if strings.Contains(p, "%") {
			return Term{}, false
		}
	}
	var seq []Term
	for i, p := range pieces {
		if p != "" {
			seq = append(seq, u.strLit(p))
		}
		if i < len(args) {
			seq = append(seq, args[i])
		}
	}
	if len(seq) == 0 {
		return u.strLit(""), true
	}
	u.D.Fun("str_concat", SStr, SStr, SStr)
	acc := seq[0]
	for _, t := range seq[1:] {
		acc = App("str_concat", SStr, acc, t)
	}
	return acc, true
}

func (u *Unit) lockOp(env *Env, lockExpr ast.Expr, mode string, acquire bool, at ast.Node) {
	u.usesLocks = true
	key := u.lockKey(lockExpr, env)
	if acquire {
		if cur, ok := env.held[key]; ok {
			u.assert(env, "perm/lock-not-reentrant/"+u.exprText(lockExpr), "perm", at.Pos(), u.exprText(lockExpr)+" acquired while held "+cur, False)
		}
		env.held[key] = mode
		return
	}
	cur, ok := env.held[key]
	okT := boolTerm(ok && cur == mode)
	u.assert(env, "perm/unlock-matches/"+u.exprText(lockExpr), "perm", at.Pos(), "release of "+u.exprText(lockExpr)+" matches its acquire mode", okT)
	delete(env.held, key)
	for k := range env.held {
		if strings.HasPrefix(k, "decided:") && strings.HasSuffix(k, "@"+key) {
			delete(env.held, k)
		}
	}
}

// a freshly obtained object with arbitrary field contents
func (u *Unit) havocFreshObject(env *Env, r Term) {
	// nothing to do: heaps at a fresh reference are unconstrained (entry heaps say nothing about birth>0 refs)
}

var _ = token.NoPos

// the pool invariant of objects of type *T is the contract macro POOLINV_T(p): asserted at Put, assumed at Get
func (u *Unit) poolInvFor(env *Env, r Value) (Term, bool) {
	name := "POOLINV_" + typeNameOf(r.Ty)
	if _, ok := u.Prog.Contracts.Macros[name]; !ok {
		return Term{}, false
	}
	sc := *u.ownCtx
	sc.bound = map[string]Value{"poolobj": r}
	save := u.inSpec
	u.inSpec = true
	t := u.sv(u.parseSpec(Clause{Text: name + "(poolobj)"}), env, &sc)
	u.inSpec = save
	return t.Term, true
}

func (u *Unit) poolPutCheck(env *Env, c *ast.CallExpr, v Value) {
	if v.Ty == nil || u.sortOf(v.Ty) != SRef {
		return
	}
	if inv, ok := u.poolInvFor(env, v); ok {
		u.assert(env, "pre/sync.Pool.Put/pool-invariant@"+u.siteTag(c), "pre", c.Pos(), "POOLINV_"+typeNameOf(v.Ty)+"("+u.exprText(c.Args[0])+")", inv)
	}
}

func sig0(fn *types.Func) *types.Signature { return fn.Type().(*types.Signature) }

// map[string][]string, the underlying type of http.Header
func headerMapType(u *Unit) *types.Map {
	return types.NewMap(types.Typ[types.String], types.NewSlice(types.Typ[types.String]))
}
