package main

// Expression translation (typed Go AST -> SMT terms) with automatic safety obligations.

import (
	"bytes"
	"fmt"
	"go/ast"
	"go/constant"
	"go/printer"
	"go/token"
	"go/types"
	"io"
	"math"
	"math/big"
	"strings"
)

func printerFprint(w io.Writer, fset *token.FileSet, n ast.Node) {
	var b bytes.Buffer
	printer.Fprint(&b, fset, n)
	w.Write(b.Bytes())
}

func (u *Unit) toInt(v Value) Term { return v.Term }
func (u *Unit) fromInt(t Term, ty types.Type) Term {
	s := u.sortOf(ty)
	if s == SInt {
		return t
	}
	unsup("range key of sort %s", s)
	return t
}

func (u *Unit) constOfType(n int64, ty types.Type) Term {
	s := u.sortOf(ty)
	if s == SInt {
		return IntLit(n)
	}
	if w, ok := s.IsBV(); ok {
		return bvLit(uint64(n), w)
	}
	if s == SF64 {
		return f64Lit(float64(n))
	}
	if s == SF32 {
		return f32Lit(float32(n))
	}
	unsup("constant %d of type %s", n, ty)
	return Term{}
}

func f64Lit(f float64) Term {
	b := math.Float64bits(f)
	return Term{fmt.Sprintf("(fp #b%01b #b%011b #b%052b)", b>>63, (b>>52)&0x7ff, b&((1<<52)-1)), SF64}
}
func f32Lit(f float32) Term {
	b := math.Float32bits(f)
	return Term{fmt.Sprintf("(fp #b%01b #b%08b #b%023b)", b>>31, (b>>23)&0xff, b&((1<<23)-1)), SF32}
}

func (u *Unit) constVal(cv constant.Value, ty types.Type) Value {
	tu := types.Unalias(ty)
	if tp, ok := tu.(*types.TypeParam); ok {
		// numeric constant converted to a type parameter
		if u.sortOf(tp) == SInt {
			if i, ok := constant.Int64Val(constant.ToInt(cv)); ok {
				return Value{IntLit(i), ty}
			}
		}
		unsup("constant of type parameter type %s", ty)
	}
	b, ok := tu.Underlying().(*types.Basic)
	if !ok {
		if _, isIface := tu.Underlying().(*types.Interface); isIface {
			// constant boxed into interface: determine default type
			switch cv.Kind() {
			case constant.Bool:
				return u.box(Value{boolTerm(constant.BoolVal(cv)), types.Typ[types.Bool]})
			case constant.String:
				return u.box(Value{u.strLit(constant.StringVal(cv)), types.Typ[types.String]})
			case constant.Int:
				return u.box(u.constVal(cv, types.Typ[types.Int]))
			case constant.Float:
				return u.box(u.constVal(cv, types.Typ[types.Float64]))
			}
		}
		unsup("constant of type %s", ty)
	}
	switch {
	case b.Info()&types.IsBoolean != 0:
		return Value{boolTerm(constant.BoolVal(cv)), ty}
	case b.Info()&types.IsString != 0:
		return Value{u.strLit(constant.StringVal(cv)), ty}
	case b.Info()&types.IsInteger != 0:
		iv := constant.ToInt(cv)
		if u.BV {
			w := intBits(b)
			bi, _ := new(big.Int).SetString(iv.ExactString(), 10)
			mod := new(big.Int).Lsh(big.NewInt(1), uint(w))
			bi.Mod(bi, mod)
			return Value{Term{fmt.Sprintf("(_ bv%s %d)", bi.String(), w), BV(w)}, ty}
		}
		s := iv.ExactString()
		if strings.HasPrefix(s, "-") {
			return Value{Term{"(- " + s[1:] + ")", SInt}, ty}
		}
		return Value{Term{s, SInt}, ty}
	case b.Info()&types.IsFloat != 0:
		if !u.BV {
			f, _ := constant.Float64Val(cv)
			return Value{Term{fmt.Sprintf("%f", f), "Real"}, ty}
		}
		if b.Kind() == types.Float32 {
			f, _ := constant.Float32Val(cv)
			return Value{f32Lit(f), ty}
		}
		f, _ := constant.Float64Val(cv)
		return Value{f64Lit(f), ty}
	}
	unsup("constant of basic type %s", ty)
	return Value{}
}

func boolTerm(b bool) Term {
	if b {
		return True
	}
	return False
}

func (u *Unit) eval(e ast.Expr, env *Env) Value {
	e = unparen(e)
	if tv, ok := u.Info.Types[e]; ok && tv.Value != nil {
		return u.constVal(tv.Value, tv.Type)
	}
	switch x := e.(type) {
	case *ast.Ident:
		return u.evalIdent(x, env)
	case *ast.BasicLit:
		unsup("literal without constant value")
	case *ast.BinaryExpr:
		if x.Op == token.LAND || x.Op == token.LOR {
			l := u.eval(x.X, env)
			// evaluate the right operand under the assumption that it is reached (safety obligations inside it)
			sub := env.clone()
			if x.Op == token.LAND {
				sub.assume(l.Term)
			} else {
				sub.assume(Not(l.Term))
			}
			guard := sub.pc[len(sub.pc)-1]
			basePC := len(sub.pc)
			r := u.eval(x.Y, sub)
			u.adoptDecls(env, sub)
			// what was learnt (callee postconditions, definitions) and what changed while evaluating the right operand holds
			// under the condition that it was evaluated
			if len(sub.pc) >= basePC && len(env.pc) == basePC-1 {
				for _, f := range sub.pc[basePC:] {
					env.assume(Imp(guard, f))
				}
				for n, h := range sub.heaps {
					if old, ok := env.heaps[n]; ok && old.S != h.S {
						env.heaps[n] = u.define(env, "h_"+n, Ite(guard, h, old))
					}
				}
				if sub.clock.S != env.clock.S {
					env.clock = u.define(env, "clk", Ite(guard, sub.clock, env.clock))
				}
				if sub.tr != nil && env.tr != nil && sub.tr.n.S != env.tr.n.S {
					a, b := sub.tr, env.tr
					env.tr = &traceState{n: Ite(guard, a.n, b.n), kind: Ite(guard, a.kind, b.kind), fn: Ite(guard, a.fn, b.fn), arg: Ite(guard, a.arg, b.arg),
						obj: Ite(guard, a.obj, b.obj), err: Ite(guard, a.err, b.err), recv: Ite(guard, a.recv, b.recv), res: Ite(guard, a.res, b.res),
						args: Ite(guard, a.args, b.args), ress: Ite(guard, a.ress, b.ress)}
				}
			}
			if x.Op == token.LAND {
				return Value{And(l.Term, r.Term), types.Typ[types.Bool]}
			}
			return Value{Or(l.Term, r.Term), types.Typ[types.Bool]}
		}
		l := u.eval(x.X, env)
		r := u.eval(x.Y, env)
		return u.binop(x, l, r, env)
	case *ast.UnaryExpr:
		return u.evalUnary(x, env)
	case *ast.StarExpr:
		// *new(T) idiom
		if call, ok := unparen(x.X).(*ast.CallExpr); ok {
			if id, ok := call.Fun.(*ast.Ident); ok && id.Name == "new" {
				return Value{u.zero(u.Info.TypeOf(e)), u.Info.TypeOf(e)}
			}
		}
		p := u.eval(x.X, env)
		pt, ok := types.Unalias(p.Ty).Underlying().(*types.Pointer)
		if !ok {
			unsup("deref of non-pointer %s", p.Ty)
		}
		u.safety(env, "nil", x.Pos(), "*"+u.exprText(x.X), Not(Same(p.Term, Term{"nil_Ref", SRef})))
		return Value{u.ptrLoad(env, p.Term, pt.Elem()), pt.Elem()}
	case *ast.SelectorExpr:
		return u.evalSelector(x, env)
	case *ast.IndexExpr:
		xv := u.eval(x.X, env)
		switch xt := types.Unalias(xv.Ty).Underlying().(type) {
		case *types.Slice:
			idx := u.eval(x.Index, env)
			u.boundsCheck(env, xv.Term, idx.Term, x)
			v := u.sliceGet(env, xv.Term, u.sortOf(xt.Elem()), idx.Term)
			u.knownRefsOf(env, v)
			if v.Sort == SSlice {
				u.assumeGround(env, u.validSliceT(v))
			}
			return Value{v, xt.Elem()}
		case *types.Map:
			k := u.convert(u.eval(x.Index, env), xt.Key(), env)
			val, ok := u.mapGet(env, xv.Term, xt, k.Term)
			v := Ite(ok, val, u.zero(xt.Elem()))
			return Value{v, xt.Elem()}
		}
		unsup("index of %s", xv.Ty)
	case *ast.SliceExpr:
		return u.evalSliceExpr(x, env)
	case *ast.CallExpr:
		basePC := len(env.pc)
		baseHeaps := map[string]Term{}
		for k, v := range env.heaps {
			baseHeaps[k] = v
		}
		outs := u.evalCall(x, env)
		var rets []Outcome
		for _, o := range outs {
			if o.kind == oReturn {
				rets = append(rets, o)
			}
		}
		if len(rets) == 0 {
			// every path panics: make the rest unreachable
			env.assume(False)
			return Value{u.zero(u.Info.TypeOf(x)), u.Info.TypeOf(x)}
		}
		if len(rets) == 1 {
			if rets[0].env != env {
				*env = *rets[0].env
			}
			if len(rets[0].vals) != 1 {
				unsup("multi-value call in expression context at %s", u.pos(x.Pos()))
			}
			return rets[0].vals[0]
		}
		vals := u.mergeOutcomes(env, rets, basePC, baseHeaps)
		if len(vals) != 1 {
			unsup("multi-value call in expression context at %s", u.pos(x.Pos()))
		}
		return vals[0]
	case *ast.CompositeLit:
		return u.evalCompositeLit(x, env, false)
	case *ast.FuncLit:
		return u.closure(x, env)
	case *ast.TypeAssertExpr:
		if r, ok := u.poolGet(x, env); ok {
			return r
		}
		xv := u.eval(x.X, env)
		ty := u.Info.TypeOf(x.Type)
		ok, v := u.typeAssert(env, xv, ty)
		u.safety(env, "assert-type", x.Pos(), u.exprText(x), ok)
		return v
	case *ast.IndexListExpr:
		unsup("generic instantiation as value")
	}
	unsup("expression %T at %s", e, u.pos(e.Pos()))
	return Value{}
}

// sub-environment was used for obligations only; nothing to copy back except heaps touched lazily
func (u *Unit) adoptDecls(env, sub *Env) {
	for k, v := range sub.heaps {
		if _, ok := env.heaps[k]; !ok {
			env.heaps[k] = v
		}
	}
}

// merge several return outcomes of one call (all extend env's path condition) back into env
func (u *Unit) mergeOutcomes(env *Env, rets []Outcome, base int, baseHeaps map[string]Term) []Value {
	nres := len(rets[0].vals)
	res := make([]Value, nres)
	for i := 0; i < nres; i++ {
		res[i] = Value{u.D.Fresh("mres", rets[0].vals[i].Sort), rets[0].vals[i].Ty}
	}
	// heaps that differ
	heapNames := map[string]Sort{}
	for _, o := range rets {
		for n, h := range o.env.heaps {
			if baseHeaps[n].S != h.S {
				heapNames[n] = h.Sort
			}
		}
	}
	newHeaps := map[string]Term{}
	for n, s := range heapNames {
		newHeaps[n] = u.D.Fresh("mh_"+n, s)
	}
	clk := u.D.Fresh("clk", SInt)
	var disj []Term
	for _, o := range rets {
		if len(o.env.pc) < base {
			unsup("merge: path condition shrank")
		}
		conj := append([]Term(nil), o.env.pc[base:]...)
		for i := 0; i < nres; i++ {
			conj = append(conj, Same(res[i].Term, o.vals[i].Term))
		}
		for n := range heapNames {
			h, ok := o.env.heaps[n]
			if !ok {
				h = baseHeaps[n]
			}
			if h.S == "" {
				h = u.heap(o.env, n, heapNames[n])
			}
			conj = append(conj, Same(newHeaps[n], h))
		}
		conj = append(conj, Same(clk, o.env.clock))
		disj = append(disj, And(conj...))
	}
	env.pc = env.pc[:base:base]
	env.assume(Or(disj...))
	for n, h := range newHeaps {
		env.heaps[n] = h
	}
	env.clock = clk
	return res
}

func (u *Unit) evalIdent(x *ast.Ident, env *Env) Value {
	obj := u.Info.Uses[x]
	if obj == nil {
		obj = u.Info.Defs[x]
	}
	switch o := obj.(type) {
	case *types.Nil:
		ty := u.Info.TypeOf(x)
		if b, ok := ty.(*types.Basic); ok && b.Kind() == types.UntypedNil {
			return Value{Term{"nil_Val", SVal}, ty}
		}
		return Value{u.zero(ty), ty}
	case *types.Var:
		if t, ok := env.vars[o]; ok {
			return Value{t, o.Type()}
		}
		if o.Pkg() != nil && o.Parent() == o.Pkg().Scope() {
			return u.global(o, env)
		}
		unsup("variable %s has no value (captured or out of scope) at %s", o.Name(), u.pos(x.Pos()))
	case *types.Func:
		name := "fn_" + o.Name()
		u.D.Once("const:"+name, fmt.Sprintf("(declare-const %s Fn)", name))
		return Value{Term{name, SFn}, o.Type()}
	case *types.Const:
		return u.constVal(o.Val(), o.Type())
	}
	unsup("identifier %s (%T) at %s", x.Name, obj, u.pos(x.Pos()))
	return Value{}
}

// package-level variables
func (u *Unit) global(o *types.Var, env *Env) Value {
	s := u.sortOf(o.Type())
	if s == SErr {
		name := "g_" + o.Name()
		u.D.Once("const:"+name, fmt.Sprintf("(declare-const %s Err)", name))
		u.errUsed[name] = true
		return Value{Term{name, SErr}, o.Type()}
	}
	// find the declaration
	for _, pkg := range u.Prog.Pkgs {
		if pkg.Types != o.Pkg() {
			continue
		}
		for _, f := range pkg.Syntax {
			for _, d := range f.Decls {
				gd, ok := d.(*ast.GenDecl)
				if !ok || gd.Tok != token.VAR {
					continue
				}
				for _, sp := range gd.Specs {
					vs := sp.(*ast.ValueSpec)
					for i, n := range vs.Names {
						if pkg.TypesInfo.Defs[n] != o {
							continue
						}
						if len(vs.Values) == 0 {
							u.globalStable(o, "zero value")
							return Value{u.zero(o.Type()), o.Type()}
						}
						if cl, ok := unparen(vs.Values[i]).(*ast.CompositeLit); ok {
							u.globalStable(o, "initial value")
							save := u.Info
							u.Info = pkg.TypesInfo
							v := u.evalCompositeLit(cl, env, false)
							u.Info = save
							return Value{v.Term, o.Type()}
						}
					}
				}
			}
		}
	}
	name := "g_" + o.Name()
	u.D.Once("const:"+name, fmt.Sprintf("(declare-const %s %s)", name, s))
	if s == SVal && o.Pkg() != nil && !strings.Contains(o.Pkg().Path(), "TeaEntityLab") {
		// exported interface-typed variables of the standard library (http.DefaultTransport, ...) are not nil
		env.assume(Not(u.untyped(Term{name, s})))
		u.D.Fun("uf_libval", SBool, SVal)
		env.assume(App("uf_libval", SBool, Term{name, s}))
		u.assumeUsed("library variable " + o.Pkg().Name() + "." + o.Name() + " is non-nil and is not a value created by this module")
	}
	return Value{Term{name, s}, o.Type()}
}

func (u *Unit) evalUnary(x *ast.UnaryExpr, env *Env) Value {
	switch x.Op {
	case token.NOT:
		v := u.eval(x.X, env)
		return Value{Not(v.Term), v.Ty}
	case token.SUB:
		v := u.eval(x.X, env)
		zero := Value{u.constOfType(0, v.Ty), v.Ty}
		if v.Sort.IsFP() {
			return Value{App("fp.neg", v.Sort, v.Term), v.Ty}
		}
		return u.arith(token.SUB, zero, v, env, x.Pos())
	case token.ADD:
		return u.eval(x.X, env)
	case token.XOR:
		v := u.eval(x.X, env)
		if _, ok := v.Sort.IsBV(); ok {
			return Value{App("bvnot", v.Sort, v.Term), v.Ty}
		}
		unsup("^ in int mode")
	case token.AND:
		return u.evalAddrOf(x, env)
	case token.ARROW:
		v, _ := u.chanRecv(env, x.X, x.Pos())
		return v
	}
	unsup("unary %s", x.Op)
	return Value{}
}

func (u *Unit) evalAddrOf(x *ast.UnaryExpr, env *Env) Value {
	ty := u.Info.TypeOf(x)
	inner := unparen(x.X)
	if cl, ok := inner.(*ast.CompositeLit); ok {
		return u.evalCompositeLit(cl, env, true)
	}
	// &local or &local.field : allocate a cell holding a copy of the current value
	v := u.eval(inner, env)
	r := u.alloc(env, "addr")
	u.ptrStore(env, r, v.Ty, v.Term)
	if id, ok := inner.(*ast.Ident); ok {
		if obj := u.Info.Uses[id]; obj != nil {
			u.addrTaken[obj] = r
		}
	}
	u.note("address-of " + u.exprText(inner) + " modelled as a fresh cell holding the current value")
	return Value{r, ty}
}

// load the value a pointer refers to
func (u *Unit) ptrLoad(env *Env, p Term, elem types.Type) Term {
	if si := u.maybeStruct(elem); si != nil {
		var fs []Term
		for _, f := range si.Fields {
			h := u.heap(env, fieldHeapName(si, f.Name), ArrS(SRef, f.Sort))
			fs = append(fs, Select(h, p))
		}
		return u.mkStruct(si, fs)
	}
	s := u.sortOf(elem)
	h := u.heap(env, ptrHeapName(s), ArrS(SRef, s))
	v := Select(h, p)
	if s == SSlice {
		u.assumeGround(env, u.validSliceT(v))
	}
	u.knownRefsOf(env, v)
	return v
}

func (u *Unit) ptrStore(env *Env, p Term, elem types.Type, v Term) {
	if si := u.maybeStruct(elem); si != nil {
		for i, f := range si.Fields {
			if typeNameOf(f.Ty) == "AtomBool" {
				// AtomBool fields live in their own boolean cell heap (see atomBoolCall); a stored struct value has them zero
				hn := "AB_" + si.GoName + "_" + f.Name
				h := u.heap(env, hn, ArrS(SRef, SBool))
				u.setHeap(env, hn, Store(h, p, False))
				continue
			}
			name := fieldHeapName(si, f.Name)
			h := u.heap(env, name, ArrS(SRef, f.Sort))
			u.setHeap(env, name, u.define(env, "h_"+name, Store(h, p, u.getField(si, v, i))))
		}
		return
	}
	s := u.sortOf(elem)
	name := ptrHeapName(s)
	h := u.heap(env, name, ArrS(SRef, s))
	u.setHeap(env, name, u.define(env, "h_"+name, Store(h, p, v)))
}

func (u *Unit) maybeStruct(t types.Type) *StructInfo {
	t = types.Unalias(t)
	n, ok := t.(*types.Named)
	if !ok {
		return nil
	}
	if _, ok := n.Underlying().(*types.Struct); !ok {
		return nil
	}
	if n.Obj().Pkg() != nil && (isOpaquePkg(n.Obj().Pkg().Path()) || n.Obj().Pkg().Path() == "reflect") {
		if !isModelledLibStruct(n.Obj().Pkg().Path(), n.Obj().Name()) {
			return nil
		}
	}
	return u.structInfo(n)
}

func (u *Unit) evalSelector(x *ast.SelectorExpr, env *Env) Value {
	// package-qualified identifier
	if id, ok := x.X.(*ast.Ident); ok {
		if _, isPkg := u.Info.Uses[id].(*types.PkgName); isPkg {
			obj := u.Info.Uses[x.Sel]
			switch o := obj.(type) {
			case *types.Var:
				return u.global(o, env)
			case *types.Const:
				return u.constVal(o.Val(), o.Type())
			case *types.Func:
				name := "fn_" + o.Pkg().Name() + "_" + o.Name()
				u.D.Once("const:"+name, fmt.Sprintf("(declare-const %s Fn)", name))
				return Value{Term{name, SFn}, o.Type()}
			}
			unsup("package member %s", u.exprText(x))
		}
	}
	sel := u.Info.Selections[x]
	if sel == nil {
		unsup("selector without selection: %s", u.exprText(x))
	}
	if sel.Kind() != types.FieldVal {
		unsup("method value %s", u.exprText(x))
	}
	base := u.eval(x.X, env)
	u.lockGuardCheck(env, x, false)
	return u.fieldPath(base, sel.Index(), env, x)
}

// "opt lockguard=<field>:<lock>": every access to X.<field> must happen while X.<lock> is held (exclusively for writes)
func (u *Unit) lockGuardCheck(env *Env, x *ast.SelectorExpr, write bool) {
	if u.Block == nil || u.Block.Opts["lockguard"] == "" || u.inSpec {
		return
	}
	// "opt decide-under=<flag field>:<lock>": a read of the flag while the lock is held is remembered until the lock is released;
	// writes to guarded fields must be preceded by such a read (check-then-act inside one critical section)
	var decideKey string
	if d := strings.SplitN(u.Block.Opts["decide-under"], ":", 2); len(d) == 2 {
		decideKey = "decided:" + u.baseKey(x.X, env) + "." + d[0] + "@" + u.baseKey(x.X, env) + "." + d[1]
		if x.Sel.Name == d[0] && env.held[u.baseKey(x.X, env)+"."+d[1]] != "" {
			env.held[decideKey] = "D"
		}
	}
	for _, ent := range strings.Split(u.Block.Opts["lockguard"], ";") {
		parts := strings.SplitN(strings.TrimSpace(ent), ":", 2)
		if len(parts) != 2 || x.Sel.Name != parts[0] {
			continue
		}
		key := u.baseKey(x.X, env) + "." + parts[1]
		mode := env.held[key]
		ok := mode == "W" || (!write && mode == "R")
		what := "read"
		if write {
			what = "write"
		}
		u.assert(env, fmt.Sprintf("perm/guarded-%s/%s", what, u.exprText(x)), "perm", x.Pos(), what+" of "+u.exprText(x)+" requires "+u.exprText(x.X)+"."+parts[1]+" to be held", boolTerm(ok))
		if write && decideKey != "" {
			u.assert(env, fmt.Sprintf("perm/decided-under-lock/%s", u.exprText(x)), "perm", x.Pos(), "write of "+u.exprText(x)+" must follow a read of the "+u.Block.Opts["decide-under"]+" flag in the same critical section", boolTerm(env.held[decideKey] != ""))
		}
	}
}

// follow a field path (embedded fields included)
func (u *Unit) fieldPath(base Value, path []int, env *Env, at ast.Node) Value {
	cur := base
	for _, idx := range path {
		t := types.Unalias(cur.Ty)
		if p, ok := t.Underlying().(*types.Pointer); ok {
			si := u.structOf(p.Elem())
			f := si.Fields[idx]
			u.safety(env, "nil", at.Pos(), u.exprText(at), Not(Same(cur.Term, Term{"nil_Ref", SRef})))
			if typeNameOf(f.Ty) == "AtomBool" && u.inSpec {
				// in specifications x.flagField (an AtomBool) denotes the boolean it holds
				h := u.heap(env, "AB_"+typeNameOf(cur.Ty)+"_"+f.Name, ArrS(SRef, SBool))
				cur = Value{Select(h, cur.Term), types.Typ[types.Bool]}
				continue
			}
			h := u.heap(env, fieldHeapName(si, f.Name), ArrS(SRef, f.Sort))
			v := Select(h, cur.Term)
			u.knownRefsOf(env, v)
			if f.Sort == SSlice {
				u.assumeGround(env, u.validSliceT(v))
			}
			cur = Value{v, f.Ty}
			continue
		}
		si := u.structOf(t)
		f := si.Fields[idx]
		cur = Value{u.getField(si, cur.Term, idx), f.Ty}
	}
	return cur
}

func (u *Unit) assignField(l *ast.SelectorExpr, sel *types.Selection, v Value, env *Env) {
	path := sel.Index()
	base := u.eval(l.X, env)
	// walk to the last struct holder
	cur := base
	for _, idx := range path[:len(path)-1] {
		cur = u.fieldPath(cur, []int{idx}, env, l)
	}
	last := path[len(path)-1]
	u.lockGuardCheck(env, l, true)
	t := types.Unalias(cur.Ty)
	if n, ok := t.(*types.Named); ok && n.Obj().Pkg() != nil && isOpaquePkg(n.Obj().Pkg().Path()) {
		u.note("assignment to " + u.exprText(l) + " (field of an opaque library value) is not modelled")
		return
	}
	if p, ok := t.Underlying().(*types.Pointer); ok {
		si := u.structOf(p.Elem())
		f := si.Fields[last]
		u.safety(env, "nil", l.Pos(), u.exprText(l), Not(Same(cur.Term, Term{"nil_Ref", SRef})))
		u.frameCheckField(env, cur.Term, si, f.Name, l)
		name := fieldHeapName(si, f.Name)
		h := u.heap(env, name, ArrS(SRef, f.Sort))
		cv := u.convert(v, f.Ty, env)
		u.setHeap(env, name, u.define(env, "h_"+name, Store(h, cur.Term, cv.Term)))
		return
	}
	// field of a struct value embedded (by value) in a struct reached through a pointer: p.Embedded.f = v
	if len(path) == 2 {
		if bp, ok := types.Unalias(base.Ty).Underlying().(*types.Pointer); ok {
			if osi := u.maybeStruct(bp.Elem()); osi != nil {
				if isi := u.maybeStruct(t); isi != nil {
					ef := osi.Fields[path[0]]
					u.safety(env, "nil", l.Pos(), u.exprText(l), Not(Same(base.Term, Term{"nil_Ref", SRef})))
					u.frameCheckField(env, base.Term, osi, ef.Name, l)
					name := fieldHeapName(osi, ef.Name)
					h := u.heap(env, name, ArrS(SRef, ef.Sort))
					cv := u.convert(v, isi.Fields[last].Ty, env)
					nv := u.setField(isi, Select(h, base.Term), last, cv.Term)
					u.setHeap(env, name, u.define(env, "h_"+name, Store(h, base.Term, nv)))
					return
				}
			}
		}
	}
	// field of a local struct variable
	if len(path) == 1 {
		if id, ok := unparen(l.X).(*ast.Ident); ok {
			obj := u.Info.Uses[id]
			si := u.structOf(t)
			cv := u.convert(v, si.Fields[last].Ty, env)
			env.vars[obj] = u.setField(si, cur.Term, last, cv.Term)
			return
		}
	}
	unsup("field assignment %s", u.exprText(l))
}

func (u *Unit) evalSliceExpr(x *ast.SliceExpr, env *Env) Value {
	xv := u.eval(x.X, env)
	if _, ok := types.Unalias(xv.Ty).Underlying().(*types.Slice); !ok {
		unsup("slice expression on %s", xv.Ty)
	}
	s := xv.Term
	lo := IntLit(0)
	if x.Low != nil {
		lo = u.eval(x.Low, env).Term
	}
	hi := sLen(s)
	if x.High != nil {
		hi = u.eval(x.High, env).Term
	}
	mx := sCap(s)
	if x.Max != nil {
		mx = u.eval(x.Max, env).Term
	}
	goal := And(le(IntLit(0), lo), le(lo, hi), le(hi, mx), le(mx, sCap(s)))
	u.safety(env, "bounds", x.Pos(), u.exprText(x), goal)
	r := mkSlice(sBase(s), add(sOff(s), lo), sub(hi, lo), sub(mx, lo))
	slv := u.define(env, "sl", r)
	if x.Low != nil && !strings.Contains(s.S, "?") && !strings.Contains(lo.S, "?") {
		// positions of the sub-slice are positions of the sliced value (an instance of the definition of idx, stated so that
		// quantified facts about s[...] are triggered by reads through the sub-slice)
		j := u.D.Bound("j", SInt)
		env.assume(Forall([]Term{j}, Same(u.idx(slv, j), u.idx(s, add(lo, j))), []Term{u.idx(slv, j)}))
	}
	return Value{slv, u.Info.TypeOf(x)}
}

func (u *Unit) boundsCheck(env *Env, s Term, idx Term, at ast.Node) {
	u.safety(env, "bounds", at.Pos(), u.exprText(at), And(le(IntLit(0), idx), lt(idx, sLen(s))))
}

// frame: a store into a slice cell must hit storage allocated by this call, or be covered by modifies
func (u *Unit) frameCheckSlice(env *Env, s Term, at ast.Node) {
	u.frameCheckRef(env, sBase(s), "cells", at)
}

func (u *Unit) frameCheckRef(env *Env, r Term, what string, at ast.Node) {
	if u.modifiesAll || u.inSpec || u.noFrame {
		return
	}
	goal := lt(IntLit(0), u.birth(r))
	var alts []Term
	for _, ms := range u.modifiesRefs {
		for _, m := range ms {
			alts = append(alts, Same(r, m))
		}
	}
	if len(alts) > 0 {
		goal = Or(append([]Term{goal}, alts...)...)
	}
	u.safety(env, "frame", at.Pos(), u.exprText(at), goal)
}

func (u *Unit) frameCheckField(env *Env, r Term, si *StructInfo, field string, at ast.Node) {
	u.frameCheckRef(env, r, "field", at)
}

// ---------------------------------------------------------------------------------------------
// maps

func (u *Unit) mapHeaps(env *Env, mt *types.Map) (dom, val Term, ks, vs Sort) {
	ks, vs = u.sortOf(mt.Key()), u.sortOf(mt.Elem())
	dom = u.heap(env, mapDomName(ks, vs), ArrS(SRef, ArrS(ks, SBool)))
	val = u.heap(env, mapValName(ks, vs), ArrS(SRef, ArrS(ks, vs)))
	return
}

func (u *Unit) mapLen(env *Env, m Term) Term {
	h := u.heap(env, mapLenName, ArrS(SRef, SInt))
	return Select(h, m)
}

func (u *Unit) mapGet(env *Env, m Term, mt *types.Map, k Term) (val Term, ok Term) {
	dom, vh, _, _ := u.mapHeaps(env, mt)
	notNil := Not(Same(m, Term{"nil_Ref", SRef}))
	ok = And(notNil, Select(Select(dom, m), k))
	val = Select(Select(vh, m), k)
	u.knownRefsOf(env, val)
	if val.Sort == SSlice {
		u.assumeGround(env, u.validSliceT(val))
	}
	return
}

func (u *Unit) mapSet(env *Env, m Term, mt *types.Map, k, v Term) {
	dom, vh, ks, vs := u.mapHeaps(env, mt)
	had := Select(Select(dom, m), k)
	lenH := u.heap(env, mapLenName, ArrS(SRef, SInt))
	newLen := Ite(had, Select(lenH, m), add(Select(lenH, m), IntLit(1)))
	u.setHeap(env, mapLenName, u.define(env, "h_ML", Store(lenH, m, newLen)))
	u.setHeap(env, mapDomName(ks, vs), u.define(env, "h_MD", Store(dom, m, Store(Select(dom, m), k, True))))
	u.setHeap(env, mapValName(ks, vs), u.define(env, "h_MV", Store(vh, m, Store(Select(vh, m), k, v))))
}

func (u *Unit) mapDelete(env *Env, m Term, mt *types.Map, k Term) {
	dom, _, ks, vs := u.mapHeaps(env, mt)
	had := And(Not(Same(m, Term{"nil_Ref", SRef})), Select(Select(dom, m), k))
	lenH := u.heap(env, mapLenName, ArrS(SRef, SInt))
	newLen := Ite(had, sub(Select(lenH, m), IntLit(1)), Select(lenH, m))
	u.setHeap(env, mapLenName, u.define(env, "h_ML", Store(lenH, m, newLen)))
	u.setHeap(env, mapDomName(ks, vs), u.define(env, "h_MD", Store(dom, m, Store(Select(dom, m), k, False))))
}

// a new empty map
func (u *Unit) mapNew(env *Env, mt *types.Map) Term {
	r := u.alloc(env, "map")
	dom, _, ks, vs := u.mapHeaps(env, mt)
	lenH := u.heap(env, mapLenName, ArrS(SRef, SInt))
	u.setHeap(env, mapLenName, u.define(env, "h_ML", Store(lenH, r, IntLit(0))))
	empty := Term{fmt.Sprintf("((as const %s) false)", ArrS(ks, SBool)), ArrS(ks, SBool)}
	u.setHeap(env, mapDomName(ks, vs), u.define(env, "h_MD", Store(dom, r, empty)))
	return r
}

// ---------------------------------------------------------------------------------------------
// composite literals

func (u *Unit) evalCompositeLit(cl *ast.CompositeLit, env *Env, addr bool) Value {
	ty := u.Info.TypeOf(cl)
	switch t := types.Unalias(ty).Underlying().(type) {
	case *types.Struct:
		if nt, ok := types.Unalias(ty).(*types.Named); ok && addr && len(cl.Elts) == 0 && nt.Obj().Pkg() != nil && !strings.Contains(nt.Obj().Pkg().Path(), "TeaEntityLab") {
			// &lib.T{} of a library struct without exported fields (bytes.Buffer, ...): a fresh object whose contents the module cannot name
			opaque := true
			for i := 0; i < t.NumFields(); i++ {
				if t.Field(i).Exported() {
					opaque = false
				}
			}
			if opaque {
				return Value{u.alloc(env, "new_"+nt.Obj().Name()), types.NewPointer(ty)}
			}
		}
		si := u.structOf(ty)
		fs := make([]Term, len(si.Fields))
		for i, f := range si.Fields {
			fs[i] = u.zero(f.Ty)
		}
		for i, el := range cl.Elts {
			if kv, ok := el.(*ast.KeyValueExpr); ok {
				name := kv.Key.(*ast.Ident).Name
				idx, f := si.Field(name)
				if f == nil {
					unsup("unknown field %s", name)
				}
				fs[idx] = u.convert(u.eval(kv.Value, env), f.Ty, env).Term
			} else {
				fs[i] = u.convert(u.eval(el, env), si.Fields[i].Ty, env).Term
			}
		}
		v := u.mkStruct(si, fs)
		if addr {
			r := u.alloc(env, "new_"+si.GoName)
			u.ptrStore(env, r, ty, v)
			return Value{r, types.NewPointer(ty)}
		}
		return Value{v, ty}
	case *types.Slice:
		es := u.sortOf(t.Elem())
		n := int64(len(cl.Elts))
		r := u.alloc(env, "lit")
		s := mkSlice(r, IntLit(0), IntLit(n), IntLit(n))
		name := sliceHeapName(es)
		h := u.heap(env, name, ArrS(SRef, ArrS(SInt, es)))
		arr := Select(h, r)
		for i, el := range cl.Elts {
			if _, ok := el.(*ast.KeyValueExpr); ok {
				unsup("keyed slice literal")
			}
			v := u.convert(u.eval(el, env), t.Elem(), env)
			arr = Store(arr, IntLit(int64(i)), v.Term)
		}
		h = u.heap(env, name, ArrS(SRef, ArrS(SInt, es)))
		u.setHeap(env, name, u.define(env, "h_"+name, Store(h, r, arr)))
		if addr {
			unsup("address of slice literal")
		}
		return Value{s, ty}
	case *types.Map:
		r := u.mapNew(env, t)
		for _, el := range cl.Elts {
			kv := el.(*ast.KeyValueExpr)
			k := u.convert(u.eval(kv.Key, env), t.Key(), env)
			v := u.convert(u.eval(kv.Value, env), t.Elem(), env)
			u.mapSet(env, r, t, k.Term, v.Term)
		}
		if addr {
			p := u.alloc(env, "mapcell")
			u.ptrStore(env, p, ty, r)
			return Value{p, types.NewPointer(ty)}
		}
		return Value{r, ty}
	}
	unsup("composite literal of %s", ty)
	return Value{}
}

// ---------------------------------------------------------------------------------------------
// boxing / dynamic types

func (u *Unit) rtype(v Term) Term {
	u.D.Fun("rtype", SInt, SVal)
	// the nil interface has no dynamic type (type ids of real types are positive)
	u.D.Axiom("rtype-nil", "(= (rtype nil_Val) 0)")
	return App("rtype", SInt, v)
}

func hasTypeParam(t types.Type) bool {
	found := false
	var walk func(t types.Type)
	seen := map[types.Type]bool{}
	walk = func(t types.Type) {
		if t == nil || found || seen[t] {
			return
		}
		seen[t] = true
		switch x := types.Unalias(t).(type) {
		case *types.TypeParam:
			found = true
		case *types.Named:
			ta := x.TypeArgs()
			for i := 0; i < ta.Len(); i++ {
				walk(ta.At(i))
			}
		case *types.Pointer:
			walk(x.Elem())
		case *types.Slice:
			walk(x.Elem())
		case *types.Map:
			walk(x.Key())
			walk(x.Elem())
		case *types.Signature:
			for i := 0; i < x.Params().Len(); i++ {
				walk(x.Params().At(i).Type())
			}
			for i := 0; i < x.Results().Len(); i++ {
				walk(x.Results().At(i).Type())
			}
		}
	}
	walk(t)
	return found
}

func isInterfaceT(t types.Type) bool {
	t = types.Unalias(t)
	if _, ok := t.(*types.TypeParam); ok {
		return false
	}
	_, ok := t.Underlying().(*types.Interface)
	return ok
}

func (u *Unit) boxFn(s Sort) (string, string) {
	bn, un := "box_"+s.Mangle(), "unbox_"+s.Mangle()
	u.D.Fun(bn, SVal, s)
	u.D.Fun(un, s, SVal)
	return bn, un
}

func (u *Unit) box(v Value) Value {
	if v.Sort == SVal {
		return v
	}
	bn, un := u.boxFn(v.Sort)
	b := App(bn, SVal, v.Term)
	if strings.Contains(v.S, "?") {
		x := u.D.Bound("x", v.Sort)
		u.D.Axiom("unbox-box:"+string(v.Sort), Forall([]Term{x}, Same(App(un, v.Sort, App(bn, SVal, x)), x), []Term{App(bn, SVal, x)}).S)
	} else {
		// ground instance: unbox(box(t)) = t; a boxed concrete value is never the nil interface, nor a library singleton
		u.D.Axiom("unbox-box:"+b.S, Same(App(un, v.Sort, b), v.Term).S)
		u.D.Fun("untyped", SBool, SVal)
		u.D.Axiom("untyped-nil", "(untyped nil_Val)")
		u.D.Axiom("box-typed:"+b.S, Not(App("untyped", SBool, b)).S)
		u.D.Fun("uf_libval", SBool, SVal)
		u.D.Axiom("box-notlib:"+b.S, Not(App("uf_libval", SBool, b)).S)
	}
	return Value{b, v.Ty}
}

// facts about a freshly boxed value of static type ty
// predicate "the dynamic type is (an instantiation of) the named type N", used where a type id is not available
func dynIsName(ty types.Type) string {
	if n, ok := types.Unalias(ty).(*types.Named); ok {
		return "dyn_isa_" + n.Origin().Obj().Name()
	}
	if p, ok := types.Unalias(ty).(*types.Pointer); ok {
		if n, ok := types.Unalias(p.Elem()).(*types.Named); ok {
			return "dyn_isptr_" + n.Origin().Obj().Name()
		}
	}
	return "dyn_is_" + identSan.ReplaceAllString(types.TypeString(ty, func(*types.Package) string { return "" }), "_")
}

func dynImplName(ty types.Type) string {
	if n, ok := types.Unalias(ty).(*types.Named); ok {
		return "dyn_impl_" + n.Origin().Obj().Name()
	}
	return "dyn_implements_" + identSan.ReplaceAllString(types.TypeString(ty, func(*types.Package) string { return "" }), "_")
}

func (u *Unit) boxFacts(env *Env, b Term, ty types.Type) {
	if ty != nil && !isInterfaceT(ty) {
		if n, ok := types.Unalias(ty).(*types.Named); ok && hasTypeParam(ty) {
			fn := dynIsName(n)
			u.D.Fun(fn, SBool, SVal)
			env.assume(App(fn, SBool, b))
			env.assume(Not(u.untyped(b)))
			u.isaOrigin(fn, n, b)
			// a boxed value of a named non-interface type implements exactly the interfaces its method set satisfies
			u.boxedStatic[b.S] = ty
		}
	}
	if pt, ok := types.Unalias(ty).(*types.Pointer); ok && hasTypeParam(ty) {
		if _, isNamed := types.Unalias(pt.Elem()).(*types.Named); isNamed {
			// a boxed pointer to a generic named type: its dynamic type is that pointer type
			fn := dynIsName(ty)
			u.D.Fun(fn, SBool, SVal)
			env.assume(App(fn, SBool, b))
			env.assume(Not(u.untyped(b)))
			u.boxedStatic[b.S] = ty
		}
	}
	if ty == nil || hasTypeParam(ty) || isInterfaceT(ty) {
		return
	}
	u.boxedStatic[b.S] = ty
	id := u.typeID(ty)
	env.assume(Same(u.rtype(b), IntLit(int64(id))))
	env.tags[b.S] = id
	u.reflectFactsFor(env, b, ty)
}

func (u *Unit) typeAssert(env *Env, x Value, ty types.Type) (Term, Value) {
	if x.Sort != SVal {
		unsup("type assertion on non-interface value of sort %s", x.Sort)
	}
	s := u.sortOf(ty)
	var v Value
	if s == SVal {
		v = Value{x.Term, ty}
	} else {
		_, un := u.boxFn(s)
		v = Value{App(un, s, x.Term), ty}
	}
	if isInterfaceT(ty) {
		if it, _ := types.Unalias(ty).Underlying().(*types.Interface); it != nil && it.NumMethods() == 0 {
			// x.(interface{}) succeeds iff x is not the nil interface
			return Not(u.untyped(x.Term)), v
		}
		if st, ok := u.boxedStatic[x.S]; ok {
			if it, ok := types.Unalias(ty).Underlying().(*types.Interface); ok {
				return boolTerm(types.Implements(st, it) || types.Implements(types.NewPointer(st), it) && false), v
			}
		}
		fn := dynImplName(ty)
		u.D.Fun(fn, SBool, SVal)
		return App(fn, SBool, x.Term), v
	}
	if hasTypeParam(ty) {
		fn := dynIsName(ty)
		u.D.Fun(fn, SBool, SVal)
		if _, bare := types.Unalias(ty).(*types.TypeParam); bare {
			// same dynamic type as a known value of static type T  =>  the assertion to T succeeds
			for _, w := range u.tparamWitness[fn] {
				env.assume(Imp(And(Not(u.untyped(x.Term)), Not(u.untyped(w)), Same(u.rtype(x.Term), u.rtype(w))), App(fn, SBool, x.Term)))
			}
		}
		u.isaTyped(fn, x.Term)
		u.isaOrigin(fn, ty, x.Term)
		return App(fn, SBool, x.Term), v
	}
	id := u.typeID(ty)
	if known, ok := env.tags[x.S]; ok {
		return boolTerm(known == id), v
	}
	ok := Same(u.rtype(x.Term), IntLit(int64(id)))
	return ok, v
}

// type identities: every concrete type has a positive id; torigin(id) is the id itself for a non-generic type and the id of
// the generic declaration for an instance of a generic type (so instances of different declarations, and non-generic
// types, are pairwise different)
func (u *Unit) typeID(ty types.Type) int {
	id := u.Prog.TypeIDs.ID(ty)
	u.D.Fun("torigin", SInt, SInt)
	u.D.Axiom(fmt.Sprintf("torigin:%d", id), fmt.Sprintf("(= (torigin %d) %d)", id, id))
	// the reflect kind of a type the engine knows by id (so that "dynamic type is T" implies "Kind() is T's kind")
	if k := kindOfType(ty); k > 0 && !u.BV {
		if _, isTP := types.Unalias(ty).(*types.TypeParam); !isTP {
			u.D.Fun("tkind", SInt, SInt)
			u.D.Axiom(fmt.Sprintf("tkind:%d", id), fmt.Sprintf("(= (tkind %d) %d)", id, k))
			if u.useReflect {
				x := u.D.Bound("x", SVal)
				u.D.Fun("rkind", SInt, SVal)
				u.D.Fun("rtype", SInt, SVal)
				u.D.Fun("untyped", SBool, SVal)
				u.D.Axiom("tkind-rkind", Forall([]Term{x}, Imp(Not(App("untyped", SBool, x)), Same(App("tkind", SInt, App("rtype", SInt, x)), App("rkind", SInt, x))), []Term{App("rtype", SInt, x)}).S)
			}
		}
	}
	return id
}

func (u *Unit) isaOrigin(fn string, named types.Type, v Term) {
	n, ok := types.Unalias(named).(*types.Named)
	if !ok {
		return
	}
	oid := u.Prog.TypeIDs.ID(n.Origin())
	u.D.Fun("torigin", SInt, SInt)
	if strings.Contains(v.S, "?") || !u.BV {
		x := u.D.Bound("x", SVal)
		u.D.Axiom("isa-origin:"+fn, Forall([]Term{x}, Imp(App(fn, SBool, x), Same(App("torigin", SInt, u.rtype(x)), IntLit(int64(oid)))), []Term{App(fn, SBool, x)}).S)
		return
	}
	u.D.Axiom("isa-origin:"+fn+":"+v.S, Imp(App(fn, SBool, v), Same(App("torigin", SInt, u.rtype(v)), IntLit(int64(oid)))).S)
}

// a value whose dynamic type is a concrete (generic) named type is not the nil interface
func (u *Unit) isaTyped(fn string, v Term) {
	if strings.Contains(v.S, "?") || !u.BV {
		x := u.D.Bound("x", SVal)
		u.D.Axiom("isa-typed:"+fn, Forall([]Term{x}, Imp(App(fn, SBool, x), Not(u.untyped(x))), []Term{App(fn, SBool, x)}).S)
		return
	}
	u.D.Axiom("isa-typed:"+fn+":"+v.S, Imp(App(fn, SBool, v), Not(u.untyped(v))).S)
}

func (u *Unit) untyped(v Term) Term {
	u.D.Fun("untyped", SBool, SVal)
	u.D.Axiom("untyped-nil", "(untyped nil_Val)")
	// the nil interface value is unique
	if strings.Contains(v.S, "?") {
		x := u.D.Bound("x", SVal)
		u.D.Axiom("untyped-unique", Forall([]Term{x}, Imp(App("untyped", SBool, x), Same(x, Term{"nil_Val", SVal})), []Term{App("untyped", SBool, x)}).S)
	} else if v.S != "nil_Val" {
		u.D.Axiom("untyped-unique:"+v.S, Imp(App("untyped", SBool, v), Same(v, Term{"nil_Val", SVal})).S)
	}
	return App("untyped", SBool, v)
}

// implicit conversion on assignment / argument passing
func (u *Unit) convert(v Value, target types.Type, env *Env) Value {
	if target == nil {
		return v
	}
	ts := u.sortOf(target)
	if b, ok := v.Ty.(*types.Basic); ok && b.Kind() == types.UntypedNil {
		return Value{u.zero(target), target}
	}
	if v.Sort == ts {
		if ts == SVal && env != nil {
			if tp, ok := types.Unalias(v.Ty).(*types.TypeParam); ok && isInterfaceT(target) && !strings.Contains(v.S, "?") {
				// a value whose static type is the type parameter T has dynamic type T (or is the nil interface)
				fn := dynIsName(tp)
				u.D.Fun(fn, SBool, SVal)
				tf := Imp(Not(u.untyped(v.Term)), App(fn, SBool, v.Term))
				if u.inClosure > 0 {
					u.calleeFacts[tf.S] = true // a typing fact, not a condition on the arguments
				}
				env.assume(tf)
				u.tparamWitness[fn] = append(u.tparamWitness[fn], v.Term)
			}
		}
		return Value{v.Term, target}
	}
	if ts == SVal {
		b := u.box(v)
		bt := u.define(env, "boxed", b.Term)
		u.boxFacts(env, bt, v.Ty)
		return Value{bt, target}
	}
	if v.Sort == SVal {
		_, un := u.boxFn(ts)
		return Value{App(un, ts, v.Term), target}
	}
	unsup("conversion from sort %s to %s (%s -> %s)", v.Sort, ts, v.Ty, target)
	return Value{}
}

func isInterfaceTOrParam(t types.Type) bool {
	if t == nil {
		return true
	}
	t = types.Unalias(t)
	if _, ok := t.(*types.TypeParam); ok {
		return true
	}
	_, ok := t.Underlying().(*types.Interface)
	return ok
}

// ---------------------------------------------------------------------------------------------
// operators

func isUntypedNil(v Value) bool {
	b, ok := v.Ty.(*types.Basic)
	return ok && b.Kind() == types.UntypedNil
}

func (u *Unit) eqValues(a, b Value, env *Env) Term {
	if isUntypedNil(b) && !isUntypedNil(a) {
		b = Value{u.zero(a.Ty), a.Ty}
	} else if isUntypedNil(a) && !isUntypedNil(b) {
		a = Value{u.zero(b.Ty), b.Ty}
	}
	if a.Sort != b.Sort {
		// mixed: box the concrete side
		if a.Sort == SVal {
			b = u.convert(b, a.Ty, env)
		} else if b.Sort == SVal {
			a = u.convert(a, b.Ty, env)
		} else {
			unsup("comparison of sorts %s and %s", a.Sort, b.Sort)
		}
	}
	if a.Sort == SSlice {
		// only comparison with nil is legal in Go
		if b.S == nilSlice.S {
			return Same(sBase(a.Term), Term{"nil_Ref", SRef})
		}
		if a.S == nilSlice.S {
			return Same(sBase(b.Term), Term{"nil_Ref", SRef})
		}
	}
	return Eq(a.Term, b.Term)
}

func (u *Unit) binop(x *ast.BinaryExpr, l, r Value, env *Env) Value {
	boolT := types.Typ[types.Bool]
	switch x.Op {
	case token.EQL:
		return Value{u.eqValues(l, r, env), boolT}
	case token.NEQ:
		return Value{Not(u.eqValues(l, r, env)), boolT}
	case token.LSS, token.LEQ, token.GTR, token.GEQ:
		return Value{u.compare(x.Op, l, r), boolT}
	case token.ADD, token.SUB, token.MUL, token.QUO, token.REM:
		return u.arith(x.Op, l, r, env, x.Pos())
	case token.LAND:
		return Value{And(l.Term, r.Term), boolT}
	case token.LOR:
		return Value{Or(l.Term, r.Term), boolT}
	}
	unsup("binary operator %s", x.Op)
	return Value{}
}

func (u *Unit) compare(op token.Token, l, r Value) Term {
	if l.Sort != r.Sort {
		unsup("ordered comparison of different sorts %s / %s", l.Sort, r.Sort)
	}
	// normalise to < and <=
	switch op {
	case token.GTR:
		return u.compare(token.LSS, r, l)
	case token.GEQ:
		return u.compare(token.LEQ, r, l)
	}
	strict := op == token.LSS
	switch {
	case l.Sort == SInt || l.Sort == "Real":
		if strict {
			return lt(l.Term, r.Term)
		}
		return le(l.Term, r.Term)
	case l.Sort.IsFP():
		if strict {
			return App("fp.lt", SBool, l.Term, r.Term)
		}
		return App("fp.leq", SBool, l.Term, r.Term)
	case l.Sort == SVal || l.Sort == SStr:
		fn := "lt_" + l.Sort.Mangle()
		u.orderAxioms(fn, l.Sort)
		if strict {
			return App(fn, SBool, l.Term, r.Term)
		}
		return Not(App(fn, SBool, r.Term, l.Term))
	}
	if _, ok := l.Sort.IsBV(); ok {
		uns := isUnsigned(l.Ty)
		opn := map[[2]bool]string{{true, true}: "bvult", {true, false}: "bvslt", {false, true}: "bvule", {false, false}: "bvsle"}[[2]bool{strict, uns}]
		return App(opn, SBool, l.Term, r.Term)
	}
	unsup("ordered comparison on sort %s", l.Sort)
	return Term{}
}

// strict total order on an uninterpreted sort
func (u *Unit) orderAxioms(fn string, s Sort) {
	u.D.Fun(fn, SBool, s, s)
	a, b, c := Term{"a", s}, Term{"b", s}, Term{"c", s}
	f := func(x, y Term) Term { return App(fn, SBool, x, y) }
	u.D.Axiom(fn+"-irr", Forall([]Term{a}, Not(f(a, a))).S)
	u.D.Axiom(fn+"-trans", Forall([]Term{a, b, c}, Imp(And(f(a, b), f(b, c)), f(a, c)), []Term{f(a, b), f(b, c)}).S)
	u.D.Axiom(fn+"-total", Forall([]Term{a, b}, Or(f(a, b), f(b, a), Same(a, b)), []Term{f(a, b)}, []Term{f(b, a)}).S)
	u.assumeUsed("ordered comparison on a type parameter / string is a strict total order (no NaN elements)")
}

func (u *Unit) arith(op token.Token, l, r Value, env *Env, pos token.Pos) Value {
	if l.Sort != r.Sort {
		unsup("arithmetic on different sorts %s / %s at %s", l.Sort, r.Sort, u.pos(pos))
	}
	s := l.Sort
	switch {
	case s == SInt:
		switch op {
		case token.ADD:
			return Value{add(l.Term, r.Term), l.Ty}
		case token.SUB:
			return Value{sub(l.Term, r.Term), l.Ty}
		case token.MUL:
			return Value{App("*", SInt, l.Term, r.Term), l.Ty}
		case token.QUO, token.REM:
			u.safety(env, "div", pos, "division by zero", Not(Same(r.Term, IntLit(0))))
			// Go truncates toward zero
			absq := App("div", SInt, App("abs", SInt, l.Term), App("abs", SInt, r.Term))
			sameSign := Same(le(IntLit(0), l.Term), le(IntLit(0), r.Term))
			q := Ite(sameSign, absq, App("-", SInt, absq))
			if op == token.QUO {
				return Value{q, l.Ty}
			}
			return Value{sub(l.Term, App("*", SInt, q, r.Term)), l.Ty}
		}
	case s == "Real":
		opn := map[token.Token]string{token.ADD: "+", token.SUB: "-", token.MUL: "*", token.QUO: "/"}[op]
		if opn != "" {
			return Value{App(opn, s, l.Term, r.Term), l.Ty}
		}
	case s.IsFP():
		opn := map[token.Token]string{token.ADD: "fp.add", token.SUB: "fp.sub", token.MUL: "fp.mul", token.QUO: "fp.div"}[op]
		if opn != "" {
			return Value{App(opn+" RNE", s, l.Term, r.Term), l.Ty}
		}
	case s == SStr && op == token.ADD:
		u.D.Fun("str_concat", SStr, SStr, SStr)
		return Value{App("str_concat", SStr, l.Term, r.Term), l.Ty}
	}
	if _, ok := s.IsBV(); ok {
		uns := isUnsigned(l.Ty)
		var opn string
		switch op {
		case token.ADD:
			opn = "bvadd"
		case token.SUB:
			opn = "bvsub"
		case token.MUL:
			opn = "bvmul"
		case token.QUO:
			opn = "bvsdiv"
			if uns {
				opn = "bvudiv"
			}
		case token.REM:
			opn = "bvsrem"
			if uns {
				opn = "bvurem"
			}
		}
		if opn != "" {
			return Value{App(opn, s, l.Term, r.Term), l.Ty}
		}
	}
	unsup("arithmetic %s on sort %s at %s", op, s, u.pos(pos))
	return Value{}
}

// explicit conversion T(x)
func (u *Unit) conversion(v Value, target types.Type, env *Env, pos token.Pos) Value {
	ts := u.sortOf(target)
	if v.Sort == ts {
		return Value{v.Term, target}
	}
	sb, sIsBV := v.Sort.IsBV()
	tb, tIsBV := ts.IsBV()
	switch {
	case sIsBV && tIsBV:
		if tb == sb {
			return Value{v.Term, target}
		}
		if tb < sb {
			return Value{App(fmt.Sprintf("(_ extract %d 0)", tb-1), ts, v.Term), target}
		}
		ext := "sign_extend"
		if isUnsigned(v.Ty) {
			ext = "zero_extend"
		}
		return Value{App(fmt.Sprintf("(_ %s %d)", ext, tb-sb), ts, v.Term), target}
	case sIsBV && ts.IsFP():
		eb, sbits := fpParams(ts)
		if isUnsigned(v.Ty) {
			return Value{App(fmt.Sprintf("(_ to_fp_unsigned %d %d) RNE", eb, sbits), ts, v.Term), target}
		}
		return Value{App(fmt.Sprintf("(_ to_fp %d %d) RNE", eb, sbits), ts, v.Term), target}
	case v.Sort.IsFP() && tIsBV:
		u.assumeUsed("float->integer conversion is fp.to_sbv/ubv RTZ; its out-of-range result is unspecified (as in the Go spec)")
		if isUnsigned(target) {
			return Value{App(fmt.Sprintf("(_ fp.to_ubv %d) RTZ", tb), ts, v.Term), target}
		}
		return Value{App(fmt.Sprintf("(_ fp.to_sbv %d) RTZ", tb), ts, v.Term), target}
	case v.Sort.IsFP() && ts.IsFP():
		eb, sbits := fpParams(ts)
		return Value{App(fmt.Sprintf("(_ to_fp %d %d) RNE", eb, sbits), ts, v.Term), target}
	}
	if ts == SVal || v.Sort == SVal {
		return u.convert(v, target, env)
	}
	if v.Sort == SInt && ts == "Real" {
		return Value{App("to_real", ts, v.Term), target}
	}
	if v.Sort == "Real" && ts == SInt {
		return Value{App("to_int", ts, v.Term), target}
	}
	unsup("conversion %s -> %s at %s", v.Ty, target, u.pos(pos))
	return Value{}
}

func fpParams(s Sort) (int, int) {
	if s == SF32 {
		return 8, 24
	}
	return 11, 53
}

// q.pool.Get().(*Node): trusted model of sync.Pool - the result is a non-nil object of the asserted type that the
// structure does not reference (expressed through the ghost status map named by "opt poolfresh=<ghost>": status 0)
func (u *Unit) poolGet(x *ast.TypeAssertExpr, env *Env) (Value, bool) {
	call, ok := unparen(x.X).(*ast.CallExpr)
	if !ok {
		return Value{}, false
	}
	fn := calleeObj(u, unparen(call.Fun))
	if fn == nil || fn.Pkg() == nil || fn.Pkg().Path() != "sync" || recvTypeName(fn) != "Pool" || fn.Name() != "Get" {
		return Value{}, false
	}
	ty := u.Info.TypeOf(x.Type)
	if u.sortOf(ty) != SRef {
		return Value{}, false
	}
	r := u.D.Fresh("pooled", SRef)
	env.assume(Not(Same(r, Term{"nil_Ref", SRef})))
	u.assumeKnownRef(env, r)
	gname := ""
	if u.Block != nil {
		gname = u.Block.Opts["poolfresh"]
	}
	if gname != "" {
		if obj := u.ghosts[gname]; obj != nil {
			env.assume(Same(Select(env.vars[obj], r), IntLit(0)))
		}
	}
	if inv, ok := u.poolInvFor(env, Value{r, ty}); ok {
		env.assume(inv)
		u.D.Trust("sync.Pool: objects obtained by Get satisfy the pool invariant POOLINV_" + typeNameOf(ty) + " that is proved at every Put (and holds of New's zeroed objects)")
	}
	u.D.Trust("sync.Pool.Get().(*T) returns a non-nil *T that the data structure does not reference (only objects handed to Put, or made by New, come back)")
	return Value{r, ty}, true
}
