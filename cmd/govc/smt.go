package main

// SMT layer: terms, lazily registered declarations, query printing, solver portfolio.

import (
	"bytes"
	"context"
	"fmt"
	"os"
	"os/exec"
	"path/filepath"
	"regexp"
	"runtime"
	"sort"
	"strconv"
	"strings"
	"sync"
	"time"
)

type Sort string

const (
	SInt   Sort = "Int"
	SBool  Sort = "Bool"
	SVal   Sort = "Val"
	SRef   Sort = "Ref"
	SStr   Sort = "Str"
	SErr   Sort = "Err"
	SFn    Sort = "Fn"
	SSlice Sort = "Slice"
	SF32   Sort = "(_ FloatingPoint 8 24)"
	SF64   Sort = "(_ FloatingPoint 11 53)"
	SRType Sort = "Int" // reflect.Type / type ids
)

func BV(n int) Sort       { return Sort(fmt.Sprintf("(_ BitVec %d)", n)) }
func ArrS(k, v Sort) Sort { return Sort(fmt.Sprintf("(Array %s %s)", k, v)) }
func (s Sort) IsBV() (int, bool) {
	var n int
	if _, err := fmt.Sscanf(string(s), "(_ BitVec %d)", &n); err == nil {
		return n, true
	}
	return 0, false
}
func (s Sort) IsFP() bool { return s == SF32 || s == SF64 }

// mangled name of a sort usable inside identifiers
func (s Sort) Mangle() string {
	r := strings.NewReplacer("(", "", ")", "", " ", "_")
	return r.Replace(string(s))
}

type Term struct {
	S    string
	Sort Sort
}

func T(s string, sort Sort) Term { return Term{s, sort} }

func App(op string, sort Sort, args ...Term) Term {
	var b strings.Builder
	b.WriteByte('(')
	b.WriteString(op)
	for _, a := range args {
		b.WriteByte(' ')
		b.WriteString(a.S)
	}
	b.WriteByte(')')
	return Term{b.String(), sort}
}

var (
	True  = Term{"true", SBool}
	False = Term{"false", SBool}
)

func IntLit(n int64) Term {
	if n < 0 {
		return Term{fmt.Sprintf("(- %d)", -n), SInt}
	}
	return Term{fmt.Sprintf("%d", n), SInt}
}

func And(ts ...Term) Term {
	var out []Term
	for _, t := range ts {
		if t.S == "true" {
			continue
		}
		if t.S == "false" {
			return False
		}
		out = append(out, t)
	}
	if len(out) == 0 {
		return True
	}
	if len(out) == 1 {
		return out[0]
	}
	return App("and", SBool, out...)
}
func Or(ts ...Term) Term {
	var out []Term
	for _, t := range ts {
		if t.S == "false" {
			continue
		}
		if t.S == "true" {
			return True
		}
		out = append(out, t)
	}
	if len(out) == 0 {
		return False
	}
	if len(out) == 1 {
		return out[0]
	}
	return App("or", SBool, out...)
}
func Not(t Term) Term {
	if t.S == "true" {
		return False
	}
	if t.S == "false" {
		return True
	}
	if strings.HasPrefix(t.S, "(not ") {
		return Term{t.S[5 : len(t.S)-1], SBool}
	}
	return App("not", SBool, t)
}
func Imp(a, b Term) Term {
	if a.S == "true" {
		return b
	}
	if a.S == "false" || b.S == "true" {
		return True
	}
	return App("=>", SBool, a, b)
}
func Eq(a, b Term) Term {
	if a.S == b.S {
		return True
	}
	if a.Sort.IsFP() {
		// Go == on floats is IEEE equality
		return App("fp.eq", SBool, a, b)
	}
	return App("=", SBool, a, b)
}

// structural (bitwise / SMT) equality, also for floats
func Same(a, b Term) Term {
	if a.S == b.S {
		return True
	}
	return App("=", SBool, a, b)
}
func Ite(c, a, b Term) Term {
	if c.S == "true" {
		return a
	}
	if c.S == "false" {
		return b
	}
	if a.S == b.S {
		return a
	}
	return App("ite", a.Sort, c, a, b)
}
func Select(a, i Term) Term {
	// sort of result: parse "(Array K V)"
	return App("select", arrElemSort(a.Sort), a, i)
}
func Store(a, i, v Term) Term { return App("store", a.Sort, a, i, v) }

func arrElemSort(s Sort) Sort {
	str := string(s)
	if !strings.HasPrefix(str, "(Array ") {
		panic("not an array sort: " + str)
	}
	inner := str[len("(Array ") : len(str)-1]
	// split inner into two sorts (balanced parens)
	depth := 0
	for i := 0; i < len(inner); i++ {
		switch inner[i] {
		case '(':
			depth++
		case ')':
			depth--
		case ' ':
			if depth == 0 {
				return Sort(inner[i+1:])
			}
		}
	}
	panic("bad array sort " + str)
}
func arrKeySort(s Sort) Sort {
	str := string(s)
	inner := str[len("(Array ") : len(str)-1]
	depth := 0
	for i := 0; i < len(inner); i++ {
		switch inner[i] {
		case '(':
			depth++
		case ')':
			depth--
		case ' ':
			if depth == 0 {
				return Sort(inner[:i])
			}
		}
	}
	panic("bad array sort " + str)
}

func Forall(vars []Term, body Term, pats ...[]Term) Term {
	if len(vars) == 0 || body.S == "true" {
		return body
	}
	var b strings.Builder
	b.WriteString("(forall (")
	for _, v := range vars {
		fmt.Fprintf(&b, "(%s %s)", v.S, v.Sort)
	}
	b.WriteString(") ")
	// a pattern may not contain connectives or ite: such patterns are dropped (the solver then chooses its own triggers)
	{
		var ok [][]Term
		for _, p := range pats {
			bad := false
			for _, t := range p {
				if strings.Contains(t.S, "(ite ") || strings.Contains(t.S, "(not ") || strings.Contains(t.S, "(and ") || strings.Contains(t.S, "(or ") || strings.Contains(t.S, "(=> ") || strings.Contains(t.S, "(= ") {
					bad = true
				}
			}
			if !bad {
				ok = append(ok, p)
			}
		}
		pats = ok
	}
	if len(pats) > 0 {
		b.WriteString("(! ")
		b.WriteString(body.S)
		for _, p := range pats {
			b.WriteString(" :pattern (")
			for i, t := range p {
				if i > 0 {
					b.WriteByte(' ')
				}
				b.WriteString(t.S)
			}
			b.WriteString(")")
		}
		b.WriteString(")")
	} else {
		b.WriteString(body.S)
	}
	b.WriteString(")")
	return Term{b.String(), SBool}
}
func Exists(vars []Term, body Term) Term {
	var b strings.Builder
	b.WriteString("(exists (")
	for _, v := range vars {
		fmt.Fprintf(&b, "(%s %s)", v.S, v.Sort)
	}
	b.WriteString(") ")
	b.WriteString(body.S)
	b.WriteString(")")
	return Term{b.String(), SBool}
}

// ---------------------------------------------------------------------------------------------
// Declarations registry (one per verification unit)

type Decls struct {
	order   []string          // declaration texts in order
	seen    map[string]bool   // by key
	n       int               // fresh counter
	notes   map[string]string // const name -> human note (for model reading)
	trusted map[string]bool   // trusted axioms / assumptions used
}

func NewDecls() *Decls {
	return &Decls{seen: map[string]bool{}, notes: map[string]string{}, trusted: map[string]bool{}}
}

func (d *Decls) Once(key, text string) {
	if d.seen[key] {
		return
	}
	d.seen[key] = true
	d.order = append(d.order, text)
}

func (d *Decls) Trust(s string) { d.trusted[s] = true }

var identSan = regexp.MustCompile(`[^A-Za-z0-9_]`)

func (d *Decls) Fresh(hint string, sort Sort) Term {
	d.n++
	name := fmt.Sprintf("%s!%d", identSan.ReplaceAllString(hint, "_"), d.n)
	d.order = append(d.order, fmt.Sprintf("(declare-const %s %s)", name, sort))
	return Term{name, sort}
}

// bound variable name (not declared)
func (d *Decls) Bound(hint string, sort Sort) Term {
	d.n++
	return Term{fmt.Sprintf("%s?%d", identSan.ReplaceAllString(hint, "_"), d.n), sort}
}

func (d *Decls) Fun(name string, ret Sort, args ...Sort) {
	var as []string
	for _, a := range args {
		as = append(as, string(a))
	}
	d.Once("fun:"+name, fmt.Sprintf("(declare-fun %s (%s) %s)", name, strings.Join(as, " "), ret))
}

func (d *Decls) Axiom(key string, t string) {
	d.Once("ax:"+key, "(assert "+t+")")
}

func (d *Decls) Text() string {
	// sort declarations first (a heap constant may have been declared before the struct datatype it stores), otherwise in order
	var sorts, rest []string
	for _, t := range d.order {
		if strings.HasPrefix(t, "(declare-datatypes") || strings.HasPrefix(t, "(declare-sort") {
			sorts = append(sorts, t)
		} else {
			rest = append(rest, t)
		}
	}
	return strings.Join(append(sorts, rest...), "\n")
}

// ---------------------------------------------------------------------------------------------
// Obligations and solving

type Query struct {
	Path string // "" or path tag
	Pre  []Term // assumptions
	Goal Term
}

type Obligation struct {
	Name    string
	Kind    string // post, pre, inv-init, inv-keep, bounds, nil, assert-type, frame, perm, lemma, cover, ...
	Func    string
	Pos     string
	Expr    string // source/contract text of the clause
	Queries []Query
	Decls   *Decls
	Expect  string // "unsat" normally; "sat" for vacuity probes (must NOT be unsat)
	// results
	Status   string // discharged | failed | vacuous-ok | broken
	Solver   string
	Seconds  float64
	Detail   string // solver outputs
	Model    string
	ModelFor int // query index of model
	Files    []string
	Logic    string
	replayer func(ob *Obligation, repo string) map[string]interface{}
}

const preludeBase = `(set-option :produce-models true)
(set-logic ALL)
(declare-sort Val 0)
(declare-sort Ref 0)
(declare-sort Str 0)
(declare-sort Err 0)
(declare-sort Fn 0)
(declare-sort Iface 0)
(declare-const nil_Ref Ref)
(declare-const nil_Err Err)
(declare-const nil_Fn Fn)
(declare-const nil_Val Val)
(declare-const nil_Iface Iface)
(declare-datatypes ((Slice 0)) (((mkSlice (s_base Ref) (s_off Int) (s_len Int) (s_cap Int)))))
`

func (o *Obligation) smtText(q Query, withModel bool) string {
	var b strings.Builder
	b.WriteString(preludeBase)
	b.WriteString(o.Decls.Text())
	b.WriteString("\n")
	for _, p := range q.Pre {
		if p.S == "true" {
			continue
		}
		b.WriteString("(assert ")
		b.WriteString(p.S)
		b.WriteString(")\n")
	}
	if o.Expect == "sat" || o.Expect == "sat-any" {
		// vacuity probe: assumptions alone must be satisfiable (goal ignored)
	} else {
		b.WriteString("(assert (not ")
		b.WriteString(q.Goal.S)
		b.WriteString("))\n")
	}
	b.WriteString("(check-sat)\n")
	if withModel {
		b.WriteString("(get-model)\n")
	}
	return b.String()
}

type solverSpec struct {
	name string
	args func(file string, tmo int) []string
}

var solvers = []solverSpec{
	{"z3-new", func(f string, t int) []string { return []string{"z3-new", fmt.Sprintf("-T:%d", t), f} }},
	{"z3", func(f string, t int) []string { return []string{"z3", fmt.Sprintf("-T:%d", t), f} }},
	{"z3-new/arith2", func(f string, t int) []string {
		return []string{"z3-new", fmt.Sprintf("-T:%d", t), "smt.mbqi=false", "smt.arith.solver=2", f}
	}},
	{"z3-new/norel", func(f string, t int) []string {
		return []string{"z3-new", fmt.Sprintf("-T:%d", t), "smt.mbqi=false", "smt.relevancy=0", f}
	}},
	{"cvc5", func(f string, t int) []string {
		return []string{"cvc5", "--produce-models", fmt.Sprintf("--tlimit=%d", t*1000), f}
	}},
}

type solveResult struct {
	solver  string
	verdict string // unsat sat unknown timeout error
	out     string
	secs    float64
}

func runSolver(ctx context.Context, sp solverSpec, file string, tmo int) solveResult {
	start := time.Now()
	args := sp.args(file, tmo)
	cctx, cancel := context.WithTimeout(ctx, time.Duration(tmo+2)*time.Second)
	defer cancel()
	cmd := exec.CommandContext(cctx, args[0], args[1:]...)
	var out bytes.Buffer
	cmd.Stdout = &out
	cmd.Stderr = &out
	_ = cmd.Run()
	secs := time.Since(start).Seconds()
	s := out.String()
	first := strings.TrimSpace(strings.SplitN(s, "\n", 2)[0])
	v := "error"
	if ctx.Err() != nil && first == "" {
		return solveResult{sp.name, "cancelled", s, secs}
	}
	switch {
	case first == "unsat":
		v = "unsat"
	case first == "sat":
		v = "sat"
	case first == "unknown":
		v = "unknown"
	case first == "timeout" || strings.Contains(first, "timeout") || cctx.Err() != nil:
		v = "timeout"
	case strings.Contains(s, "interrupted by timeout"):
		v = "timeout"
	}
	return solveResult{sp.name, v, s, secs}
}

func solverFamily(name string) string {
	switch {
	case strings.HasPrefix(name, "z3-new"):
		return "z3-5"
	case strings.HasPrefix(name, "z3"):
		return "z3-4"
	}
	return name
}

// thorough tier: like solveQuery, but after the first definite answer the other solvers get a grace period to confirm it;
// confirmed = a solver of another family gave the same definite answer; disagree = some solver gave the opposite definite answer
func solveQueryConfirm(file string, tmo int, grace time.Duration) (res solveResult, all []solveResult, confirmed bool, disagree bool) {
	ctx, cancel := context.WithCancel(context.Background())
	defer cancel()
	ch := make(chan solveResult, len(solvers))
	for _, sp := range solvers {
		go func(sp solverSpec) { ch <- runSolver(ctx, sp, file, tmo) }(sp)
	}
	var decided *solveResult
	var deadline <-chan time.Time
	pending := len(solvers)
	for pending > 0 {
		select {
		case r := <-ch:
			pending--
			all = append(all, r)
			if r.verdict != "unsat" && r.verdict != "sat" {
				continue
			}
			if decided == nil {
				rr := r
				decided = &rr
				deadline = time.After(grace)
				continue
			}
			if r.verdict != decided.verdict {
				disagree = true
			} else if solverFamily(r.solver) != solverFamily(decided.solver) {
				confirmed = true
			}
			if confirmed || disagree {
				cancel()
			}
		case <-deadline:
			cancel()
			deadline = nil
		}
	}
	if decided != nil {
		return *decided, all, confirmed, disagree
	}
	sort.Slice(all, func(i, j int) bool { return all[i].verdict < all[j].verdict })
	return all[0], all, false, false
}

// race the solvers on one query; returns the deciding result and all results
func solveQuery(file string, tmo int, want string) (solveResult, []solveResult) {
	ctx, cancel := context.WithCancel(context.Background())
	defer cancel()
	ch := make(chan solveResult, len(solvers))
	for _, sp := range solvers {
		go func(sp solverSpec) { ch <- runSolver(ctx, sp, file, tmo) }(sp)
	}
	var all []solveResult
	var decided *solveResult
	for range solvers {
		r := <-ch
		all = append(all, r)
		if decided == nil && (r.verdict == "unsat" || r.verdict == "sat") {
			rr := r
			decided = &rr
			cancel()
		}
	}
	if decided != nil {
		return *decided, all
	}
	// prefer unknown over timeout over error for reporting
	sort.Slice(all, func(i, j int) bool { return all[i].verdict < all[j].verdict })
	return all[0], all
}

type Runner struct {
	OutDir     string
	Timeout    int
	Workers    int
	mu         sync.Mutex
	SolverSecs map[string]float64
	SolverWins map[string]int
	// thorough tier: cross-confirmation of every discharged query by a second solver family
	Confirm       bool
	Confirmed     int
	Unconfirmed   int
	Disagreements int
}

func sanitizeFile(s string) string {
	s = strings.NewReplacer("/", "__", " ", "_", "*", "p", "(", "", ")", "", "[", "", "]", "", "<", "lt", ">", "gt", "=", "eq", ",", "_", ":", "_", "\"", "", "'", "").Replace(s)
	if len(s) > 180 {
		s = s[:180]
	}
	return s
}

func (r *Runner) Solve(obs []*Obligation) {
	os.MkdirAll(r.OutDir, 0o755)
	if r.SolverSecs == nil {
		r.SolverSecs = map[string]float64{}
		r.SolverWins = map[string]int{}
	}
	sem := make(chan struct{}, r.Workers)
	var wg sync.WaitGroup
	for _, o := range obs {
		wg.Add(1)
		sem <- struct{}{}
		go func(o *Obligation) {
			defer wg.Done()
			defer func() { <-sem }()
			r.solveOne(o)
		}(o)
	}
	wg.Wait()
}

func (r *Runner) solveOne(o *Obligation) {
	if len(o.Queries) == 0 {
		o.Status = "discharged"
		o.Solver = "trivial"
		return
	}
	o.Status = "discharged"
	var details []string
	if o.Expect == "sat-any" {
		// passes as soon as one path is not refuted
		o.Status = "failed"
		for qi, q := range o.Queries {
			file := filepath.Join(r.OutDir, sanitizeFile(o.Name)+fmt.Sprintf("__q%d.smt2", qi))
			os.WriteFile(file, []byte(o.smtText(q, false)), 0o644)
			o.Files = append(o.Files, file)
			res, all := solveQuery(file, min(r.Timeout, 3), "sat")
			r.mu.Lock()
			for _, a := range all {
				r.SolverSecs[a.solver] += a.secs
			}
			r.mu.Unlock()
			o.Seconds += res.secs
			if res.verdict != "unsat" {
				o.Status = "discharged"
				o.Solver = res.solver
				break
			}
			details = append(details, fmt.Sprintf("q%d: path unreachable (%s)", qi, res.solver))
		}
		if o.Status == "failed" {
			o.Detail = "no symbolic path reaches this point under the stated invariants: " + strings.Join(details, "; ")
		}
		return
	}
	for qi, q := range o.Queries {
		if o.Expect != "sat" && q.Goal.S == "true" {
			continue
		}
		file := filepath.Join(r.OutDir, sanitizeFile(o.Name)+fmt.Sprintf("__q%d.smt2", qi))
		txt := o.smtText(q, false)
		if len(txt) > 1<<20 {
			o.Status = "failed"
			details = append(details, fmt.Sprintf("q%d: VC too large (%d bytes)", qi, len(txt)))
			continue
		}
		os.WriteFile(file, []byte(txt), 0o644)
		o.Files = append(o.Files, file)
		var res solveResult
		var all []solveResult
		if r.Confirm && o.Expect != "sat" {
			var conf, dis bool
			res, all, conf, dis = solveQueryConfirm(file, r.Timeout, 10*time.Second)
			r.mu.Lock()
			if dis {
				r.Disagreements++
			} else if res.verdict == "unsat" {
				if conf {
					r.Confirmed++
				} else {
					r.Unconfirmed++
				}
			}
			r.mu.Unlock()
			if dis {
				o.Status = "failed"
				details = append(details, fmt.Sprintf("q%d: SOLVERS DISAGREE on this query (one says sat, one says unsat): the obligation is not counted as discharged", qi))
				for _, a := range all {
					details = append(details, fmt.Sprintf("q%d[%s] %s: %s (%.2fs)", qi, q.Path, a.solver, a.verdict, a.secs))
				}
				continue
			}
		} else {
			tmo := r.Timeout
			if o.Expect == "sat" {
				// vacuity probes: only a quick "unsat" is informative
				tmo = min(tmo, 6)
			}
			res, all = solveQuery(file, tmo, o.Expect)
			if o.Expect != "sat" && res.verdict != "unsat" && res.verdict != "sat" && machineBusy() {
				// no definite answer while the machine is heavily loaded (other checks running in parallel): the time limit
				// was probably eaten by contention - ask once more with three times the limit before calling it a failure
				res2, all2 := solveQuery(file, 3*tmo, o.Expect)
				all = append(all, all2...)
				if res2.verdict == "unsat" || res2.verdict == "sat" {
					res = res2
				}
			}
		}
		r.mu.Lock()
		for _, a := range all {
			r.SolverSecs[a.solver] += a.secs
		}
		r.mu.Unlock()
		o.Seconds += res.secs
		if o.Expect == "sat" {
			// vacuity probe: "unsat" is the bad answer
			if res.verdict == "unsat" {
				o.Status = "failed"
				details = append(details, fmt.Sprintf("q%d: assumptions are contradictory (%s)", qi, res.solver))
			} else {
				o.Solver = res.solver
			}
			continue
		}
		if res.verdict == "unsat" {
			o.Solver = res.solver
			r.mu.Lock()
			r.SolverWins[res.solver]++
			r.mu.Unlock()
			continue
		}
		o.Status = "failed"
		for _, a := range all {
			line := strings.TrimSpace(a.out)
			if len(line) > 300 {
				line = line[:300]
			}
			details = append(details, fmt.Sprintf("q%d[%s] %s: %s (%.2fs) %s", qi, q.Path, a.solver, a.verdict, a.secs, strings.ReplaceAll(line, "\n", " | ")))
		}
		if res.verdict == "sat" && o.Model == "" {
			// get the model with a dedicated run
			mfile := strings.TrimSuffix(file, ".smt2") + "__model.smt2"
			os.WriteFile(mfile, []byte(o.smtText(q, true)), 0o644)
			// ask the plain configuration of the solver family that answered sat (then any other) for the model
			base := strings.SplitN(res.solver, "/", 2)[0]
			var order []solverSpec
			for _, sp := range solvers {
				if sp.name == base {
					order = append(order, sp)
				}
			}
			for _, sp := range solvers {
				if sp.name != base && !strings.Contains(sp.name, "/") {
					order = append(order, sp)
				}
			}
			for _, sp := range order {
				mr := runSolver(context.Background(), sp, mfile, min(r.Timeout, 10))
				if mr.verdict == "sat" {
					o.Model = mr.out
					o.ModelFor = qi
					break
				}
			}
		}
	}
	o.Detail = strings.Join(details, "\n")
}

// parse "(define-fun name () Sort value)" entries of a model
var defFunRe = regexp.MustCompile(`\(define-fun\s+(\S+)\s+\(\)\s+`)

func modelValues(model string) map[string]string {
	out := map[string]string{}
	idxs := defFunRe.FindAllStringSubmatchIndex(model, -1)
	for _, m := range idxs {
		name := model[m[2]:m[3]]
		rest := model[m[1]:]
		// rest = "Sort value)" ; read sort (balanced) then value (balanced)
		_, n := readSexp(rest)
		val, _ := readSexp(strings.TrimLeft(rest[n:], " \n\t"))
		out[strings.Trim(name, "|")] = val
	}
	return out
}

func readSexp(s string) (string, int) {
	i := 0
	for i < len(s) && (s[i] == ' ' || s[i] == '\n' || s[i] == '\t') {
		i++
	}
	start := i
	if i >= len(s) {
		return "", i
	}
	if s[i] != '(' {
		for i < len(s) && s[i] != ' ' && s[i] != '\n' && s[i] != ')' && s[i] != '\t' {
			i++
		}
		return s[start:i], i
	}
	depth := 0
	for i < len(s) {
		if s[i] == '(' {
			depth++
		} else if s[i] == ')' {
			depth--
			if depth == 0 {
				i++
				break
			}
		}
		i++
	}
	return s[start:i], i
}

// 1-minute load average above the number of CPUs: solver time limits are not trustworthy
func machineBusy() bool {
	b, err := os.ReadFile("/proc/loadavg")
	if err != nil {
		return false
	}
	f := strings.Fields(string(b))
	if len(f) == 0 {
		return false
	}
	v, err := strconv.ParseFloat(f[0], 64)
	if err != nil {
		return false
	}
	return v > float64(runtime.NumCPU())
}
