package main

// Verification units: one function (or one function x one source kind) verified against its contract.

import (
	"fmt"
	"go/ast"
	"go/parser"
	"go/token"
	"go/types"
	"os"
	"path/filepath"
	"sort"
	"strings"

	"golang.org/x/tools/go/packages"
)

func loadProgram(repo string, contractsMode string) (*Program, error) {
	cfg := &packages.Config{
		Mode: packages.NeedName | packages.NeedFiles | packages.NeedSyntax | packages.NeedTypes | packages.NeedTypesInfo | packages.NeedImports | packages.NeedDeps,
		Dir:  repo, BuildFlags: []string{"-tags=verif"},
		Env: append(os.Environ(), "GOFLAGS=-mod=mod", "GOPROXY=off", "GOSUMDB=off", "GOTOOLCHAIN=local"),
	}
	pkgs, err := packages.Load(cfg, "./...")
	if err != nil {
		return nil, err
	}
	prog := &Program{Pkgs: pkgs, Funcs: map[string]*FuncInfo{}, strIDs: map[string]int{}, funcByObj: map[*types.Func]*FuncInfo{}}
	for _, p := range pkgs {
		if len(p.Errors) > 0 {
			return nil, fmt.Errorf("package %s does not type-check: %v", p.PkgPath, p.Errors[0])
		}
		prog.Fset = p.Fset
		for _, f := range p.Syntax {
			for _, d := range f.Decls {
				fd, ok := d.(*ast.FuncDecl)
				if !ok {
					continue
				}
				obj, _ := p.TypesInfo.Defs[fd.Name].(*types.Func)
				if obj == nil {
					continue
				}
				key := fd.Name.Name
				if fd.Recv != nil && len(fd.Recv.List) > 0 {
					key = "(" + typeNameOf(p.TypesInfo.TypeOf(fd.Recv.List[0].Type)) + ")." + fd.Name.Name
				}
				fi := &FuncInfo{Key: key, Pkg: p, Decl: fd, Obj: obj}
				prog.funcByObj[obj] = fi
				// keys are unique per package; the root package wins on clashes, others get a package prefix
				k := key
				if !strings.HasSuffix(p.PkgPath, "/v2") {
					k = p.Name + ":" + key
				}
				fi.Key = k
				prog.Funcs[k] = fi
			}
		}
	}
	if b, err := os.ReadFile(filepath.Join(repo, "go.mod")); err == nil {
		for _, ln := range strings.Split(string(b), "\n") {
			f := strings.Fields(ln)
			if len(f) == 2 && f[0] == "go" {
				var maj, min int
				fmt.Sscanf(f[1], "%d.%d", &maj, &min)
				prog.perIterationLoopVars = maj > 1 || (maj == 1 && min >= 22)
			}
		}
	}
	// contracts
	var files []string
	source := ""
	for _, p := range pkgs {
		rel := "."
		if !strings.HasSuffix(p.PkgPath, "/v2") {
			rel = p.Name
		}
		// contract files: contracts_verif.go and contracts_verif_*.go (comment-only, build tag verif)
		inRepo, _ := filepath.Glob(filepath.Join(repo, rel, "contracts_verif*.go"))
		mirror, _ := filepath.Glob(filepath.Join(verifDir(), "contracts", rel, "contracts_verif*.go"))
		var pick []string
		switch contractsMode {
		case "mirror":
			pick = mirror
		case "repo":
			pick = inRepo
		default:
			if len(inRepo) > 0 {
				pick = inRepo
			} else {
				pick = mirror
			}
		}
		sort.Strings(pick)
		for _, f := range pick {
			files = append(files, f)
			source += f + " "
			if rel != "." {
				keyPrefix[f] = p.Name + ":"
			}
		}
	}
	cs, err := ParseContracts(files)
	if err != nil {
		return nil, err
	}
	cs.Source = strings.TrimSpace(source)
	prog.Contracts = cs
	prog.rebindRenamedFuncs()
	return prog, nil
}

// the signature of a function as recorded in the name index ("//@ sig <key>: <signature>"): receiver type and the types of
// parameters and results, without names
func sigString(fi *FuncInfo) string {
	sig := fi.Obj.Type().(*types.Signature)
	q := func(*types.Package) string { return "" }
	var b strings.Builder
	if sig.Recv() != nil {
		b.WriteString("(" + strings.ReplaceAll(types.TypeString(sig.Recv().Type(), q), " ", "") + ")")
	}
	b.WriteString("(")
	for i := 0; i < sig.Params().Len(); i++ {
		if i > 0 {
			b.WriteString(",")
		}
		b.WriteString(strings.ReplaceAll(types.TypeString(sig.Params().At(i).Type(), q), " ", ""))
	}
	if sig.Variadic() {
		b.WriteString("...")
	}
	b.WriteString(")(")
	for i := 0; i < sig.Results().Len(); i++ {
		if i > 0 {
			b.WriteString(",")
		}
		b.WriteString(strings.ReplaceAll(types.TypeString(sig.Results().At(i).Type(), q), " ", ""))
	}
	b.WriteString(")")
	return b.String()
}

// A function under contract that no longer exists under its recorded name, while exactly one function that was NOT there
// when the contracts were written has the recorded signature (same receiver, parameter and result types): the function was
// renamed (only unexported ones can be, without changing the API), and its contract blocks are bound to the new name.
func (p *Program) rebindRenamedFuncs() {
	cs := p.Contracts
	if len(cs.Sigs) == 0 {
		return
	}
	seen := map[string]bool{}
	for _, b := range cs.Order {
		if seen[b.Key] || p.Funcs[b.Key] != nil {
			continue
		}
		seen[b.Key] = true
		want, ok := cs.Sigs[b.Key]
		if !ok {
			continue
		}
		prefix := ""
		if i := strings.Index(b.Key, ":"); i >= 0 {
			prefix = b.Key[:i+1]
		}
		var cands []*FuncInfo
		for k, fi := range p.Funcs {
			if _, recorded := cs.Sigs[k]; recorded || !strings.HasPrefix(k, prefix) || (prefix == "" && strings.Contains(k, ":")) {
				continue
			}
			if ast.IsExported(fi.Obj.Name()) {
				continue
			}
			if sigString(fi) == want {
				cands = append(cands, fi)
			}
		}
		if len(cands) == 1 {
			fi := cands[0]
			delete(p.Funcs, fi.Key)
			p.Renamed = append(p.Renamed, fmt.Sprintf("%s is now called %s (same signature; not present when the contracts were written)", b.Key, fi.Key))
			fi.Key = b.Key
			p.Funcs[b.Key] = fi
		}
	}
}

func verifDir() string {
	if d := os.Getenv("VERIF_DIR"); d != "" {
		return d
	}
	exe, err := os.Executable()
	if err == nil {
		d := filepath.Dir(filepath.Dir(exe))
		if _, err := os.Stat(filepath.Join(d, "contracts")); err == nil {
			return d
		}
	}
	return "/verif"
}

// every contract block must bind to a function / loop / literal of the current tree
func (p *Program) bindErrors() []string {
	var errs []string
	for _, b := range p.Contracts.Order {
		fi := p.Funcs[b.Key]
		if fi == nil {
			if strings.HasPrefix(b.Key, "(") && b.Opts["interface"] != "" {
				continue
			}
			errs = append(errs, fmt.Sprintf("%s:%d: contract block %s does not bind to any function", filepath.Base(b.File), b.Line, b.Key))
			continue
		}
		// a loop / literal block whose loop no longer exists is not an error: its invariants are simply not needed
		// (the function's postconditions still have to be proved); it is listed by `govc list`
		_ = fi
	}
	return errs
}

type UnitResult struct {
	Unit    *Unit
	Err     string // out-of-subset / engine error: nothing of this unit counts as discharged
	FuncKey string
}

func newUnit(prog *Program, fi *FuncInfo, blk *Block, prop string, suffix string) *Unit {
	u := &Unit{Prog: prog, Pkg: fi.Pkg, Info: fi.Pkg.TypesInfo, FI: fi, Block: blk, D: NewDecls(), Prop: prop,
		Name: prop + "/" + fi.Key, Suffix: suffix, obIdx: map[string]*Obligation{}, structs: map[string]*StructInfo{},
		strUsed: map[string]bool{}, errUsed: map[string]bool{}, Assumed: map[string]bool{}, inlined: map[string]bool{},
		usedContracts: map[string]string{}, addrTaken: map[types.Object]Term{}, modifiesRefs: map[string][]Term{}, poolObjs: map[string]Term{},
		knownLits: map[string]*litInfo{}, methodConsts: map[string]bool{}, calleeFacts: map[string]bool{}, namedResults: map[string]bool{}, ghosts: map[string]types.Object{}, heapSorts: map[string]Sort{}, ghostTy: map[string]types.Type{}, lamTok: map[string]string{}, boxedStatic: map[string]types.Type{}, tparamWitness: map[string][]Term{}}
	u.BV = blk != nil && blk.Arith == "bv"
	return u
}

// entry environment: parameters, receiver, named results
func (u *Unit) setupEntry() *Env {
	fi := u.FI
	env := &Env{vars: map[types.Object]Term{}, heaps: map[string]Term{}, tags: map[string]int{}, alias: map[string]Term{}, held: map[string]string{}, clock: IntLit(1), aliasTy: map[string]types.Type{}}
	u.entry = &Env{vars: map[types.Object]Term{}, heaps: map[string]Term{}, tags: map[string]int{}, alias: map[string]Term{}, held: map[string]string{}, clock: IntLit(1), aliasTy: map[string]types.Type{}}
	u.curFn = []*FuncInfo{fi}
	u.loops, u.lits = numberLoops(fi.Decl)
	if u.Block != nil && (u.Block.Opts["effects"] == "trace" || u.Block.Opts["callbacks"] == "effectful") {
		// the ghost trace exists from the start and is shared by the entry snapshot (old(tr_len) etc.)
		env.tr = u.newTrace("tr0")
		env.assume(le(IntLit(0), env.tr.n))
		cp := *env.tr
		u.entry.tr = &cp
	}
	sig := fi.Obj.Type().(*types.Signature)
	bind := func(obj types.Object) {
		if obj == nil {
			return
		}
		t := u.D.Fresh("p_"+obj.Name(), u.sortOf(obj.Type()))
		env.vars[obj] = t
		u.paramFacts(env, t, obj.Type())
	}
	if fi.Decl.Recv != nil && len(fi.Decl.Recv.List) > 0 && len(fi.Decl.Recv.List[0].Names) > 0 {
		obj := u.Info.Defs[fi.Decl.Recv.List[0].Names[0]]
		bind(obj)
		u.recvObj = obj
	}
	for _, fld := range fi.Decl.Type.Params.List {
		for _, n := range fld.Names {
			bind(u.Info.Defs[n])
		}
	}
	u.results, u.resTys = nil, nil
	for k := 0; k < sig.Results().Len(); k++ {
		u.resTys = append(u.resTys, sig.Results().At(k).Type())
	}
	if fi.Decl.Type.Results != nil {
		for _, fld := range fi.Decl.Type.Results.List {
			for _, n := range fld.Names {
				obj := u.Info.Defs[n]
				u.results = append(u.results, obj)
				env.vars[obj] = u.zero(obj.Type())
			}
		}
	}
	if u.litTarget != nil {
		// the unit is a function literal: its parameters, and every variable of the enclosing function it captures
		// (arbitrary values: the literal may run at any later time)
		lit := u.litTarget
		ls := u.Info.TypeOf(lit).(*types.Signature)
		for _, fld := range lit.Type.Params.List {
			for _, n := range fld.Names {
				bind(u.Info.Defs[n])
			}
		}
		ast.Inspect(lit.Body, func(n ast.Node) bool {
			id, ok := n.(*ast.Ident)
			if !ok {
				return true
			}
			v, ok := u.Info.Uses[id].(*types.Var)
			if !ok || v.IsField() || v.Pkg() == nil || v.Parent() == v.Pkg().Scope() {
				return true
			}
			if v.Pos() >= lit.Pos() && v.Pos() <= lit.End() {
				return true
			}
			if _, done := env.vars[v]; !done {
				t := u.D.Fresh("cap_"+v.Name(), u.sortOf(v.Type()))
				env.vars[v] = t
				u.typeInvariant(env, t, v.Type())
				u.knownRefsOf(env, t)
			}
			return true
		})
		u.results, u.resTys = nil, nil
		for k := 0; k < ls.Results().Len(); k++ {
			u.resTys = append(u.resTys, ls.Results().At(k).Type())
		}
	}
	for k, v := range env.vars {
		u.entry.vars[k] = v
	}
	u.ownCtx = &specCtx{fi: fi, clockBase: IntLit(1), old: u.entry, blk: u.Block}
	return env
}

// facts about a value that existed before the call
func (u *Unit) paramFacts(env *Env, t Term, ty types.Type) {
	switch t.Sort {
	case SSlice:
		env.assume(u.validSliceT(t))
		env.assume(le(u.birth(sBase(t)), IntLit(0)))
	case SVal:
		// a pointer held by an interface value that existed before the call points to something that existed before the call
		_, un := u.boxFn(SRef)
		env.assume(le(u.birth(App(un, SRef, t)), IntLit(0)))
	case SRef:
		env.assume(le(u.birth(t), IntLit(0)))
		if mt, ok := types.Unalias(ty).Underlying().(*types.Map); ok {
			u.mapFacts(env, t, mt)
		}
	case SInt:
		if !u.BV && isIntegerT(ty) && isUnsigned(ty) {
			env.assume(le(IntLit(0), t))
		}
	}
	// struct parameters: their slice/ref fields existed too
	if si := u.maybeStruct(ty); si != nil {
		for i, f := range si.Fields {
			u.paramFacts(env, u.getField(si, t, i), f.Ty)
		}
	}
}

func (u *Unit) run(extra func(env *Env)) (err string) {
	defer func() {
		if r := recover(); r != nil {
			if us, ok := r.(unsupported); ok {
				err = us.msg
				return
			}
			panic(r)
		}
	}()
	blk := u.Block
	env := u.setupEntry()
	// every heap this unit will ever touch exists from the start (names collected by a first pass), so that
	// calls and loops havoc all of them and no heap is created lazily in some later state
	{
		var names []string
		for n := range u.preHeaps {
			names = append(names, n)
		}
		sort.Strings(names)
		for _, n := range names {
			u.heap(env, n, u.preHeaps[n])
		}
		u.setupDone = true
	}
	if extra != nil {
		extra(env)
	}
	u.declareGhosts(env, blk)
	u.runGhostKind(env, blk, "ghostinit")
	if blk.Opts["holds-callbacks"] != "" && u.litTarget == nil {
		u.checkHoldsCallbacks(env)
	}
	if u.litTarget == nil {
		u.checkGlobalInits(env, blk)
	}
	for k, v := range env.vars {
		u.entry.vars[k] = v
	}
	for _, cl := range blk.Of("requires") {
		env.assume(u.specExpr(cl, env, nil))
	}
	for _, cl := range blk.Of("assume") {
		env.assume(u.specExpr(cl, env, nil))
		u.assumeUsed("assumed at entry of " + u.FI.Key + ": " + cl.Text)
	}
	// modifies
	ms := u.evalModifies(blk, env, u.ownCtx)
	u.modifiesAll = ms.all
	u.modifiesRefs = ms.refs
	if blk.Opts["frame"] == "off" {
		u.noFrame = true
	}
	// snapshot of the entry path condition for the vacuity probe
	u.entryPC = append([]Term(nil), env.pc...)
	for k, v := range env.heaps {
		if _, ok := u.entry.heaps[k]; !ok {
			u.entry.heaps[k] = v
		}
	}
	u.entry.pc = append([]Term(nil), env.pc...)
	if u.FI.Decl.Body == nil {
		unsup("function without body")
	}
	body := u.FI.Decl.Body.List
	if u.litTarget != nil {
		body = u.litTarget.Body.List
	}
	outs := u.execBlock(body, env)
	nret := 0
	for _, o := range outs {
		switch o.kind {
		case oNext, oReturn:
			if o.kind == oNext {
				u.runDefers(o.env, u.FI.Decl)
				var vals []Value
				for i, r := range u.results {
					vals = append(vals, Value{o.env.vars[r], u.resTys[i]})
				}
				o.vals = vals
			} else {
				u.runDefers(o.env, u.FI.Decl)
			}
			nret++
			// vacuity: some return must be reachable (a body whose every exit is infeasible under the model would satisfy any
			// postcondition); one query per returning path, the probe passes if one of them is not refuted
			{
				pos := o.pos
				if !pos.IsValid() {
					pos = u.FI.Decl.End()
				}
				u.coverProbe(o.env, "vacuity/exit-reachable", pos, "some return of the function is reachable")
			}
			u.retVals = o.vals
			if u.retVals == nil {
				u.retVals = []Value{}
			}
			u.runGhostSets(o.env, blk)
			u.checkPost(o)
		case oPanic:
			cls := blk.Of("ensures@panic")
			if len(cls) == 0 {
				u.assert(o.env, "panic/unreachable", "panic", o.pos, "explicit panic is unreachable", False)
			} else {
				for i, cl := range cls {
					label := cl.Label
					if label == "" {
						label = fmt.Sprintf("p%d", i)
					}
					u.assert(o.env, "panic/only-when/"+label, "panic", o.pos, cl.Text, u.specExpr(cl, o.env, nil))
				}
			}
		default:
			unsup("break/continue escapes the function body")
		}
	}
	// locks must be released at every return
	return ""
}

func (u *Unit) checkPost(o Outcome) {
	u.retVals = o.vals
	if u.retVals == nil {
		u.retVals = []Value{}
	}
	defer func() { u.retVals = nil }()
	// "hint": an intermediate fact about the exit state, proved first (obligation post/hint/<label>) and then available to the
	// postconditions that follow (a lemma placed at the return; never exported to callers).  A hint that cannot be stated on
	// a path (it names a call that did not happen there) is skipped on that path.
	for i, cl := range u.Block.Of("hint") {
		if cl.Label == "" {
			cl.Label = fmt.Sprintf("h%d", i)
		}
		sc := *u.ownCtx
		sc.post = true
		t, herr := u.trySpec(cl, o.env, &sc)
		if herr != "" {
			continue
		}
		pos := o.pos
		if !pos.IsValid() {
			pos = u.FI.Decl.End()
		}
		u.assert(o.env, "post/hint/"+cl.Label, "post", pos, cl.Text, t)
		o.env.assume(t)
	}
	var ens []Clause
	// "ensures@body": proved at every return like "ensures", but not part of what callers may assume (it may name things that
	// only exist inside the body, such as the results of an opaque library call)
	for i, cl := range append(u.Block.Of("ensures"), u.Block.Of("ensures@body")...) {
		if cl.Label == "" {
			cl.Label = fmt.Sprintf("ens%d", i)
		}
		ens = append(ens, u.splitClause(cl)...)
	}
	for _, cl := range ens {
		label := cl.Label
		sc := *u.ownCtx
		sc.post = true
		t, terr := u.trySpec(cl, o.env, &sc)
		if terr != "" {
			// the clause cannot even be stated on this path (e.g. it names the result of a call that did not happen): for an
			// implication whose premise can be stated, the premise must then be false on this path; otherwise the clause fails
			t = False
			if antes, ok := impPremise(cl, u.Prog.Contracts); ok {
				// the conjuncts of the premise that can be stated on this path must not all hold
				var parts []Term
				for _, a := range antes {
					if at, aerr := u.trySpec(a, o.env, &sc); aerr == "" {
						parts = append(parts, at)
					}
				}
				if len(parts) > 0 {
					t = Not(And(parts...))
				}
			}
			cl.Text += "   [not expressible on this path: " + terr + "]"
		}
		pos := o.pos
		if !pos.IsValid() {
			pos = u.FI.Decl.End()
		}
		u.assert(o.env, "post/"+label, "post", pos, cl.Text, t)
	}
	u.checkReturnsLit(o)
	if u.Block != nil && u.Block.Opts["guarded"] != "" {
		u.assert(o.env, "perm/one-delegated-call", "perm", o.pos, fmt.Sprintf("exactly one call on the guarded object on every path (this path: %d)", o.env.delegated), boolTerm(o.env.delegated == 1))
		if u.recvObj != nil {
			_, isPtr := types.Unalias(u.recvObj.Type()).Underlying().(*types.Pointer)
			u.assert(o.env, "perm/lock-not-copied", "perm", u.FI.Decl.Pos(), "the receiver holding the lock is a pointer (a value receiver would lock a private copy of the mutex)", boolTerm(isPtr))
		}
	}
	if len(o.env.held) > 0 {
		var ks []string
		for k := range o.env.held {
			ks = append(ks, k)
		}
		sort.Strings(ks)
		u.assert(o.env, "perm/released-at-return", "perm", o.pos, "locks still held at return: "+strings.Join(ks, ","), False)
	} else if u.usesLocks {
		u.assert(o.env, "perm/released-at-return", "perm", o.pos, "no lock held at return", True)
	}
}

// finalise: add distinctness facts, vacuity probe
func (u *Unit) finish() {
	dist := u.distinctAxioms()
	for _, ob := range u.Obs {
		for qi := range ob.Queries {
			if ob.Queries[qi].Goal.S == "true" && ob.Expect != "sat" {
				continue
			}
			ob.Queries[qi].Pre = append(append([]Term(nil), dist...), ob.Queries[qi].Pre...)
		}
	}
	// vacuity: the entry assumptions (requires + type invariants + axioms) must be satisfiable
	full := u.Name + "/vacuity/entry-satisfiable" + u.Suffix
	ob := &Obligation{Name: full, Kind: "cover", Func: u.FI.Key, Pos: u.pos(u.FI.Decl.Pos()), Expr: "requires and axioms are satisfiable", Decls: u.D, Expect: "sat"}
	ob.Queries = []Query{{Pre: append(append([]Term(nil), dist...), u.entryPC...), Goal: True}}
	u.Obs = append(u.Obs, ob)
}

var _ = token.NoPos

// ghost variables: declared in the function block as "ghost <name> <smt sort>"; they are ordinary symbolic
// variables of the verifier that no Go statement can touch. In a caller they are fresh (existential witnesses).
func parseGhostDecl(text string) (string, Sort) {
	n, s, _ := parseGhostDecl3(text)
	return n, s
}

// "name <smt sort> [of <spec expr giving the Go type of the elements>]"
func parseGhostDecl3(text string) (string, Sort, string) {
	text = strings.TrimSpace(text)
	i := strings.IndexAny(text, " \t")
	if i < 0 {
		panic(unsupported{"bad ghost declaration: " + text})
	}
	rest := strings.TrimSpace(text[i+1:])
	of := ""
	if j := strings.Index(rest, " of "); j >= 0 {
		of = strings.TrimSpace(rest[j+4:])
		rest = strings.TrimSpace(rest[:j])
	}
	return text[:i], Sort(rest), of
}

func (u *Unit) declareGhosts(env *Env, blk *Block) {
	for _, cl := range blk.Of("ghost") {
		name, sort, of := parseGhostDecl3(cl.Text)
		obj := types.NewVar(token.NoPos, nil, name, nil)
		u.ghosts[name] = obj
		t := u.D.Fresh("ghost_"+name, sort)
		env.vars[obj] = t
		u.entry.vars[obj] = t
		if of != "" {
			save := u.inSpec
			u.inSpec = true
			v := u.sv(u.parseSpec(Clause{Text: of, File: cl.File, Line: cl.Line}), env, u.ownCtx)
			u.inSpec = save
			u.ghostTy[name] = &ghostArr{elem: v.Ty}
		}
	}
}

// "ghostset <name> = <expr>"
func (u *Unit) runGhostSets(env *Env, blk *Block) {
	u.runGhostKind(env, blk, "ghostset")
}

func (u *Unit) runGhostKind(env *Env, blk *Block, kind string) {
	if blk == nil {
		return
	}
	for _, cl := range blk.Of(kind) {
		i := strings.Index(cl.Text, "=")
		if i < 0 {
			panic(unsupported{"bad ghostset: " + cl.Text})
		}
		name := strings.TrimSpace(cl.Text[:i])
		obj := u.ghosts[name]
		if obj == nil {
			panic(unsupported{"ghostset of undeclared ghost " + name})
		}
		sub := Clause{Kind: "ghostset", Text: strings.TrimSpace(cl.Text[i+1:]), Line: cl.Line, File: cl.File}
		t, gerr := u.trySpecTerm(sub, env, u.ownCtx)
		if gerr != "" {
			if strings.Contains(gerr, "unknown name") {
				continue // names the witness of a call that did not happen on this path: the ghost keeps its value
			}
			panic(unsupported{gerr})
		}
		if t.Sort != env.vars[obj].Sort {
			panic(unsupported{fmt.Sprintf("%s:%d: ghostset %s: sort %s, want %s", cl.File, cl.Line, name, t.Sort, env.vars[obj].Sort)})
		}
		env.vars[obj] = u.define(env, "ghost_"+name, t)
	}
}

// ghost variables assigned by a loop block (and the blocks of loops nested in it)
func (u *Unit) ghostsSetIn(stmt ast.Stmt) []types.Object {
	var out []types.Object
	seen := map[string]bool{}
	owner := u.curFn[len(u.curFn)-1]
	ast.Inspect(stmt, func(n ast.Node) bool {
		st, ok := n.(ast.Stmt)
		if !ok {
			return true
		}
		ord, isLoop := u.loops[st]
		if !isLoop {
			return true
		}
		blk := u.Prog.Contracts.Get(owner.Key, fmt.Sprintf("loop %d", ord))
		if blk == nil {
			return true
		}
		for _, cl := range blk.Of("ghostset") {
			if i := strings.Index(cl.Text, "="); i > 0 {
				name := strings.TrimSpace(cl.Text[:i])
				if obj := u.ghosts[name]; obj != nil && !seen[name] {
					seen[name] = true
					out = append(out, obj)
				}
			}
		}
		return true
	})
	return out
}

// two-pass execution: pass 1 discovers the heaps, pass 2 is the real one
func runUnit(prog *Program, fi *FuncInfo, blk *Block, prop, suffix string, extra func(u *Unit) func(env *Env)) (*Unit, string) {
	return runUnitLit(prog, fi, blk, prop, suffix, extra, nil)
}

func litByOrdinal(fi *FuncInfo, ord int) *ast.FuncLit {
	_, lits := numberLoops(fi.Decl)
	for l, n := range lits {
		if n == ord {
			return l
		}
	}
	return nil
}

func runUnitLit(prog *Program, fi *FuncInfo, blk *Block, prop, suffix string, extra func(u *Unit) func(env *Env), lit *ast.FuncLit) (*Unit, string) {
	u1 := newUnit(prog, fi, blk, prop, suffix)
	u1.litTarget = lit
	if lit != nil {
		u1.Name += "/" + strings.ReplaceAll(blk.Sub, " ", "")
	}
	u1.muteObs = true
	var ex func(env *Env)
	if extra != nil {
		ex = extra(u1)
	}
	if e := u1.run(ex); e != "" {
		u1.muteObs = false
		return u1, e
	}
	u := newUnit(prog, fi, blk, prop, suffix)
	u.litTarget = lit
	if lit != nil {
		u.Name += "/" + strings.ReplaceAll(blk.Sub, " ", "")
	}
	u.preHeaps = u1.heapSorts
	if extra != nil {
		ex = extra(u)
	}
	e := u.run(ex)
	return u, e
}

// a well-formed map value: its length is zero exactly when it has no key
func (u *Unit) mapFacts(env *Env, m Term, mt *types.Map) {
	dom, _, ks, _ := u.mapHeaps(env, mt)
	ln := u.mapLen(env, m)
	env.assume(le(IntLit(0), ln))
	k := u.D.Bound("k", ks)
	sel := Select(Select(dom, m), k)
	env.assume(Forall([]Term{k}, Imp(sel, lt(IntLit(0), ln)), []Term{sel}))
	u.assumeUsed("map parameters are well formed: len(m) >= 0 and len(m) == 0 implies no key is present")
}

func (u *Unit) trySpec(cl Clause, env *Env, sc *specCtx) (t Term, err string) {
	defer func() {
		if r := recover(); r != nil {
			if us, ok := r.(unsupported); ok {
				err = us.msg
				u.inSpec = false
				return
			}
			panic(r)
		}
	}()
	return u.specExpr(cl, env, sc), ""
}

func (u *Unit) trySpecTerm(cl Clause, env *Env, sc *specCtx) (t Term, err string) {
	defer func() {
		if r := recover(); r != nil {
			if us, ok := r.(unsupported); ok {
				err = us.msg
				u.inSpec = false
				return
			}
			panic(r)
		}
	}()
	return u.specTermCtx(cl, env, sc), ""
}

// the conjuncts of the premise of a clause of the form imp(A1 && A2 && ..., B) (after macro expansion), as clauses of their own
func impPremise(cl Clause, cs *Contracts) ([]Clause, bool) {
	if !cl.Expanded {
		cl.Text = rewriteImplies(cs.Expand(cl.Text))
		cl.Expanded = true
	}
	e, err := parser.ParseExpr(cl.Text)
	if err != nil {
		return nil, false
	}
	call, ok := e.(*ast.CallExpr)
	if !ok || len(call.Args) != 2 {
		return nil, false
	}
	if id, ok := call.Fun.(*ast.Ident); !ok || id.Name != "imp" {
		return nil, false
	}
	var out []Clause
	var walk func(x ast.Expr)
	walk = func(x ast.Expr) {
		x = unparen(x)
		if b, ok := x.(*ast.BinaryExpr); ok && b.Op == token.LAND {
			walk(b.X)
			walk(b.Y)
			return
		}
		a := cl
		a.Text = nodeString(token.NewFileSet(), x)
		out = append(out, a)
	}
	walk(call.Args[0])
	return out, true
}

// "opt holds-callbacks": the function neither calls nor passes on its function-typed parameters; it only stores them (as
// the value of a composite-literal field or the right-hand side of an assignment).  Checked syntactically on the body.
func (u *Unit) checkHoldsCallbacks(env *Env) {
	sig := u.FI.Obj.Type().(*types.Signature)
	for i := 0; i < sig.Params().Len(); i++ {
		p := sig.Params().At(i)
		if _, ok := types.Unalias(p.Type()).Underlying().(*types.Signature); !ok {
			continue
		}
		okAll := true
		var stack []ast.Node
		ast.Inspect(u.FI.Decl.Body, func(n ast.Node) bool {
			if n == nil {
				stack = stack[:len(stack)-1]
				return true
			}
			stack = append(stack, n)
			id, ok := n.(*ast.Ident)
			if !ok || u.Info.Uses[id] != p || len(stack) < 2 {
				return true
			}
			switch par := stack[len(stack)-2].(type) {
			case *ast.KeyValueExpr:
				if par.Value != id {
					okAll = false
				}
			case *ast.AssignStmt:
				isRhs := false
				for _, r := range par.Rhs {
					if r == id {
						isRhs = true
					}
				}
				if !isRhs || len(par.Lhs) != len(par.Rhs) {
					okAll = false
				}
			default:
				okAll = false
			}
			return true
		})
		u.assert(env, "holds-callbacks/"+p.Name(), "capture", u.FI.Decl.Pos(), "the function-typed parameter "+p.Name()+" is only stored, never called or passed on", boolTerm(okAll))
	}
}

// "globalinit <Var>: <spec>": the initializer expression of the package variable <Var> (var X = e) is evaluated and <spec> is
// proved of its value, with <Var> naming that value.  This is how a well-formedness fact that the functions of a block ASSUME
// of a package-level value (e.g. None's flags) is tied to the declaration that is supposed to establish it.
func (u *Unit) checkGlobalInits(env *Env, blk *Block) {
	for _, cl := range blk.Of("globalinit") {
		name := cl.Label
		if name == "" {
			unsup("%s:%d: globalinit needs '<Var>: <spec>'", cl.File, cl.Line)
		}
		var init ast.Expr
		var pos token.Pos
		for _, f := range u.Pkg.Syntax {
			for _, d := range f.Decls {
				gd, ok := d.(*ast.GenDecl)
				if !ok || gd.Tok != token.VAR {
					continue
				}
				for _, sp := range gd.Specs {
					vs := sp.(*ast.ValueSpec)
					for i, n := range vs.Names {
						if n.Name == name && i < len(vs.Values) {
							init, pos = vs.Values[i], vs.Pos()
						}
					}
				}
			}
		}
		if init == nil {
			u.assert(env, "globalinit/"+name+"/declared", "post", u.FI.Decl.Pos(), "package variable "+name+" is declared with an initializer", False)
			continue
		}
		sub := env.clone()
		v := u.eval(init, sub)
		sc := *u.ownCtx
		sc.bound = map[string]Value{name: v}
		c2 := cl
		c2.Label = ""
		for k, part := range u.splitClause(Clause{Kind: "globalinit", Label: "wf", Text: cl.Text, File: cl.File, Line: cl.Line}) {
			t := u.specExprCtx(part, sub, &sc)
			u.assert(sub, fmt.Sprintf("globalinit/%s/%s#%d", name, "holds", k), "post", pos, part.Text, t)
		}
	}
}
