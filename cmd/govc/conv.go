package main

// Built-in spec predicates for numeric conversions (property C02), bit-vector / IEEE semantics.
//
//   convSupported(v)        v's dynamic type is one of the 14 numeric/bool types or string
//   convExact(r, v)         r is the mathematically same number as v (rounding rules of the statement)
//   convFits(v, r)          v is inside the range of r's type (int/uint: portable 32-bit range)
//   convOutside(v, r)       v is outside the actual range of r's type
//   convBool(r, v)          r == (v != 0)   (numeric sources), parsed value (string)

import (
	"fmt"
	"go/ast"
	"go/types"
	"math"
	"math/big"
)

type convKind struct {
	Name string
	Ty   types.Type
}

var convKinds = []convKind{
	{"bool", types.Typ[types.Bool]},
	{"int", types.Typ[types.Int]}, {"int8", types.Typ[types.Int8]}, {"int16", types.Typ[types.Int16]},
	{"int32", types.Typ[types.Int32]}, {"int64", types.Typ[types.Int64]},
	{"uint", types.Typ[types.Uint]}, {"uint8", types.Typ[types.Uint8]}, {"uint16", types.Typ[types.Uint16]},
	{"uint32", types.Typ[types.Uint32]}, {"uint64", types.Typ[types.Uint64]}, {"uintptr", types.Typ[types.Uintptr]},
	{"float32", types.Typ[types.Float32]}, {"float64", types.Typ[types.Float64]},
	{"string", types.Typ[types.String]},
}

func (u *Unit) convSpec(fname string, x *ast.CallExpr, env *Env, sc *specCtx) Value {
	boolT := types.Typ[types.Bool]
	args := u.specArgs(x, env, sc)
	switch fname {
	case "convSupported":
		v := args[0]
		var alts []Term
		for _, k := range convKinds {
			ok, _ := u.typeAssert(env, v, k.Ty)
			alts = append(alts, ok)
		}
		return Value{Or(alts...), boolT}
	case "convSameType":
		ok, _ := u.typeAssert(env, args[0], args[1].Ty)
		return Value{ok, boolT}
	case "convIsString":
		ok, _ := u.typeAssert(env, args[0], types.Typ[types.String])
		return Value{ok, boolT}
	case "convExact", "convFits", "convOutside", "convBool":
		var v, r Value
		if fname == "convExact" || fname == "convBool" {
			r, v = args[0], args[1]
		} else {
			v, r = args[0], args[1]
		}
		var alts []Term
		for _, k := range convKinds {
			ok, src := u.typeAssert(env, v, k.Ty)
			if ok.S == "false" {
				continue
			}
			var body Term
			switch fname {
			case "convExact":
				body = u.convExact(r, src)
			case "convFits":
				body = u.convFits(src, r.Ty)
			case "convOutside":
				body = u.convOutside(src, r.Ty)
			case "convBool":
				body = u.convBool(r, src)
			}
			alts = append(alts, And(ok, body))
		}
		return Value{Or(alts...), boolT}
	}
	unsup("unknown conversion predicate %s", fname)
	return Value{}
}

const extW = 72

func ext(v Value) Term {
	n, _ := v.Sort.IsBV()
	op := "sign_extend"
	if isUnsigned(v.Ty) {
		op = "zero_extend"
	}
	return App(fmt.Sprintf("(_ %s %d)", op, extW-n), BV(extW), v.Term)
}

func bigLit(b *big.Int, w int) Term {
	m := new(big.Int).Lsh(big.NewInt(1), uint(w))
	x := new(big.Int).Mod(b, m)
	return Term{fmt.Sprintf("(_ bv%s %d)", x.String(), w), BV(w)}
}

// range of an integer type; portable => int/uint are 32-bit
func intRange(t types.Type, portable bool) (*big.Int, *big.Int) {
	b := types.Unalias(t).Underlying().(*types.Basic)
	w := intBits(b)
	if portable && (b.Kind() == types.Int || b.Kind() == types.Uint) {
		w = 32
	}
	one := big.NewInt(1)
	if b.Info()&types.IsUnsigned != 0 {
		return big.NewInt(0), new(big.Int).Sub(new(big.Int).Lsh(one, uint(w)), one)
	}
	lo := new(big.Int).Neg(new(big.Int).Lsh(one, uint(w-1)))
	hi := new(big.Int).Sub(new(big.Int).Lsh(one, uint(w-1)), one)
	return lo, hi
}

func toF64(v Value) Term {
	if v.Sort == SF64 {
		return v.Term
	}
	return App("(_ to_fp 11 53) RNE", SF64, v.Term)
}

func bigToF64Exact(b *big.Int) (float64, bool) {
	f, acc := new(big.Float).SetInt(b).Float64()
	return f, acc == big.Exact
}

func finite(t Term) Term {
	return And(Not(App("fp.isNaN", SBool, t)), Not(App("fp.isInfinite", SBool, t)))
}

// v (float) lies in [lo, hi] as real numbers
func floatInIntRange(v64 Term, lo, hi *big.Int) Term {
	lof, _ := bigToF64Exact(lo) // lower bounds are 0 or -2^k: exact
	c1 := App("fp.leq", SBool, f64Lit(lof), v64)
	var c2 Term
	if hif, exact := bigToF64Exact(hi); exact {
		c2 = App("fp.leq", SBool, v64, f64Lit(hif))
	} else {
		// hi = 2^k - 1 is not a double: v <= hi  <=>  v < 2^k
		h1 := new(big.Int).Add(hi, big.NewInt(1))
		hf, _ := bigToF64Exact(h1)
		c2 = App("fp.lt", SBool, v64, f64Lit(hf))
	}
	return And(Not(App("fp.isNaN", SBool, v64)), c1, c2)
}

// the integer-valued double d lies in [lo, hi]
func roundedInIntRange(d Term, lo, hi *big.Int) Term {
	lof, _ := bigToF64Exact(lo)
	h1 := new(big.Int).Add(hi, big.NewInt(1))
	hf, _ := bigToF64Exact(h1) // 2^k: exact
	return And(App("fp.leq", SBool, f64Lit(lof), d), App("fp.lt", SBool, d, f64Lit(hf)))
}

func (u *Unit) convExact(r, v Value) Term {
	rt, vt := r.Ty, v.Ty
	switch {
	case isBoolT(vt):
		one, zero := u.constOfType(1, rt), u.constOfType(0, rt)
		return Same(r.Term, Ite(v.Term, one, zero))
	case isIntegerT(vt) && isIntegerT(rt):
		return Same(ext(r), ext(v))
	case isIntegerT(vt) && isFloatT(rt):
		conv := u.conversion(v, rt, nil, 0)
		return Same(r.Term, conv.Term)
	case isFloatT(vt) && isIntegerT(rt):
		v64 := toF64(v)
		d := App("fp.roundToIntegral RNA", SF64, v64)
		lo, hi := intRange(rt, false)
		n, _ := r.Sort.IsBV()
		var back Term
		if isUnsigned(rt) {
			back = App(fmt.Sprintf("(_ fp.to_ubv %d) RTZ", n), r.Sort, d)
		} else {
			back = App(fmt.Sprintf("(_ fp.to_sbv %d) RTZ", n), r.Sort, d)
		}
		return And(finite(v64), roundedInIntRange(d, lo, hi), Same(r.Term, back))
	case isFloatT(vt) && isFloatT(rt):
		conv := u.conversion(v, rt, nil, 0)
		return And(Same(r.Term, conv.Term), Imp(finite(v.Term), finite(r.Term)))
	case isStringT(vt) && isIntegerT(rt):
		u.D.Fun("str_isint", SBool, SStr)
		u.D.Fun("str_int", BV(128), SStr)
		n, _ := r.Sort.IsBV()
		op := "sign_extend"
		if isUnsigned(rt) {
			op = "zero_extend"
		}
		return And(App("str_isint", SBool, v.Term), Same(App(fmt.Sprintf("(_ %s %d)", op, 128-n), BV(128), r.Term), App("str_int", BV(128), v.Term)))
	case isStringT(vt) && isFloatT(rt):
		u.D.Fun("str_isfloat", SBool, SStr)
		if r.Sort == SF32 {
			u.D.Fun("str_f32", SF32, SStr)
			return And(App("str_isfloat", SBool, v.Term), Same(r.Term, App("str_f32", SF32, v.Term)), finite(r.Term))
		}
		u.D.Fun("str_f64", SF64, SStr)
		return And(App("str_isfloat", SBool, v.Term), Same(r.Term, App("str_f64", SF64, v.Term)), finite(r.Term))
	}
	unsup("convExact %s -> %s", vt, rt)
	return Term{}
}

func inRange72(v Value, lo, hi *big.Int) Term {
	e := ext(v)
	return And(App("bvsle", SBool, bigLit(lo, extW), e), App("bvsle", SBool, e, bigLit(hi, extW)))
}

func (u *Unit) convFits(v Value, rt types.Type) Term {
	vt := v.Ty
	switch {
	case isBoolT(vt):
		return True
	case isIntegerT(vt) && isIntegerT(rt):
		lo, hi := intRange(rt, true)
		return inRange72(v, lo, hi)
	case isIntegerT(vt) && isFloatT(rt):
		return True
	case isFloatT(vt) && isIntegerT(rt):
		lo, hi := intRange(rt, true)
		return floatInIntRange(toF64(v), lo, hi)
	case isFloatT(vt) && isFloatT(rt):
		if v.Sort == SF64 && u.sortOf(rt) == SF32 {
			mx := f64Lit(math.MaxFloat32)
			return And(finite(v.Term), App("fp.leq", SBool, App("fp.abs", SF64, v.Term), mx))
		}
		return True
	case isStringT(vt) && isIntegerT(rt):
		u.D.Fun("str_isint", SBool, SStr)
		u.D.Fun("str_int", BV(128), SStr)
		u.D.Fun("str_hassign", SBool, SStr)
		lo, hi := intRange(rt, true)
		val := App("str_int", BV(128), v.Term)
		c := And(App("str_isint", SBool, v.Term), App("bvsle", SBool, bigLit(lo, 128), val), App("bvsle", SBool, val, bigLit(hi, 128)))
		if isUnsigned(rt) {
			// an explicitly signed text for an unsigned target is left undecided (neither fits nor outside)
			c = And(c, Not(App("str_hassign", SBool, v.Term)))
		}
		return c
	case isStringT(vt) && isFloatT(rt):
		u.D.Fun("str_isfloat", SBool, SStr)
		if u.sortOf(rt) == SF32 {
			u.D.Fun("str_f32", SF32, SStr)
			return And(App("str_isfloat", SBool, v.Term), finite(App("str_f32", SF32, v.Term)))
		}
		u.D.Fun("str_f64", SF64, SStr)
		return And(App("str_isfloat", SBool, v.Term), finite(App("str_f64", SF64, v.Term)))
	}
	unsup("convFits %s -> %s", vt, rt)
	return Term{}
}

func (u *Unit) convOutside(v Value, rt types.Type) Term {
	vt := v.Ty
	switch {
	case isBoolT(vt):
		return False
	case isIntegerT(vt) && isIntegerT(rt):
		lo, hi := intRange(rt, false)
		return Not(inRange72(v, lo, hi))
	case isIntegerT(vt) && isFloatT(rt):
		return False
	case isFloatT(vt) && isIntegerT(rt):
		v64 := toF64(v)
		d := App("fp.roundToIntegral RNA", SF64, v64)
		lo, hi := intRange(rt, false)
		return Or(Not(finite(v64)), Not(roundedInIntRange(d, lo, hi)))
	case isFloatT(vt) && isFloatT(rt):
		if v.Sort == SF64 && u.sortOf(rt) == SF32 {
			conv := App("(_ to_fp 8 24) RNE", SF32, v.Term)
			return And(finite(v.Term), App("fp.isInfinite", SBool, conv))
		}
		return False
	case isStringT(vt) && isIntegerT(rt):
		u.D.Fun("str_isint", SBool, SStr)
		u.D.Fun("str_int", BV(128), SStr)
		lo, hi := intRange(rt, false)
		val := App("str_int", BV(128), v.Term)
		return Or(Not(App("str_isint", SBool, v.Term)), Not(And(App("bvsle", SBool, bigLit(lo, 128), val), App("bvsle", SBool, val, bigLit(hi, 128)))))
	case isStringT(vt) && isFloatT(rt):
		u.D.Fun("str_isfloat", SBool, SStr)
		if u.sortOf(rt) == SF32 {
			u.D.Fun("str_f32", SF32, SStr)
			return Or(Not(App("str_isfloat", SBool, v.Term)), App("fp.isInfinite", SBool, App("str_f32", SF32, v.Term)))
		}
		u.D.Fun("str_f64", SF64, SStr)
		return Or(Not(App("str_isfloat", SBool, v.Term)), App("fp.isInfinite", SBool, App("str_f64", SF64, v.Term)))
	}
	unsup("convOutside %s -> %s", vt, rt)
	return Term{}
}

// r == (v != 0)
func (u *Unit) convBool(r, v Value) Term {
	vt := v.Ty
	switch {
	case isBoolT(vt):
		return Same(r.Term, v.Term)
	case isIntegerT(vt):
		return Same(r.Term, Not(Same(v.Term, u.constOfType(0, vt))))
	case isFloatT(vt):
		return Same(r.Term, Not(App("fp.isZero", SBool, v.Term)))
	case isStringT(vt):
		u.D.Fun("str_bool", SBool, SStr)
		u.D.Fun("str_isbool", SBool, SStr)
		return Imp(App("str_isbool", SBool, v.Term), Same(r.Term, App("str_bool", SBool, v.Term)))
	}
	unsup("convBool from %s", vt)
	return Term{}
}
