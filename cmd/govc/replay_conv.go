package main

// Replay of C02 counterexamples: the solver model gives the concrete wrapped value; a Go test with an exact
// (math/big) oracle for the failed clause is run against the real code through `go test -overlay`.

import (
	"fmt"
	"math/big"
	"strings"
)

func bitsOf(tok string) (string, bool) {
	if strings.HasPrefix(tok, "#b") {
		return tok[2:], true
	}
	if strings.HasPrefix(tok, "#x") {
		var b strings.Builder
		for _, c := range tok[2:] {
			var v int
			switch {
			case c >= '0' && c <= '9':
				v = int(c - '0')
			case c >= 'a' && c <= 'f':
				v = int(c-'a') + 10
			case c >= 'A' && c <= 'F':
				v = int(c-'A') + 10
			default:
				return "", false
			}
			fmt.Fprintf(&b, "%04b", v)
		}
		return b.String(), true
	}
	return "", false
}

func bitsToBig(bits string) *big.Int {
	n := new(big.Int)
	n.SetString(bits, 2)
	return n
}

// model value -> Go expression of the given kind
func goLiteral(kind, val string) (string, bool) {
	val = strings.TrimSpace(val)
	switch kind {
	case "bool":
		if val == "true" || val == "false" {
			return val, true
		}
		return "", false
	case "float32", "float64":
		eb, sb := 8, 24
		if kind == "float64" {
			eb, sb = 11, 53
		}
		var bits string
		switch {
		case strings.HasPrefix(val, "(fp "):
			parts := strings.Fields(strings.TrimSuffix(strings.TrimPrefix(val, "(fp "), ")"))
			if len(parts) != 3 {
				return "", false
			}
			for _, p := range parts {
				b, ok := bitsOf(p)
				if !ok {
					return "", false
				}
				bits += b
			}
		case strings.HasPrefix(val, "(_ +zero"):
			bits = strings.Repeat("0", eb+sb)
		case strings.HasPrefix(val, "(_ -zero"):
			bits = "1" + strings.Repeat("0", eb+sb-1)
		case strings.HasPrefix(val, "(_ +oo"):
			bits = "0" + strings.Repeat("1", eb) + strings.Repeat("0", sb-1)
		case strings.HasPrefix(val, "(_ -oo"):
			bits = "1" + strings.Repeat("1", eb) + strings.Repeat("0", sb-1)
		case strings.HasPrefix(val, "(_ NaN"):
			bits = "0" + strings.Repeat("1", eb) + "1" + strings.Repeat("0", sb-2)
		default:
			return "", false
		}
		if len(bits) != eb+sb {
			return "", false
		}
		n := bitsToBig(bits)
		if kind == "float32" {
			return fmt.Sprintf("math.Float32frombits(0x%x)", n), true
		}
		return fmt.Sprintf("math.Float64frombits(0x%x)", n), true
	}
	bits, ok := bitsOf(val)
	if !ok {
		// (_ bvN w)
		if strings.HasPrefix(val, "(_ bv") {
			var n big.Int
			f := strings.Fields(val)
			if _, ok := n.SetString(strings.TrimPrefix(f[1], "bv"), 10); ok {
				return fmt.Sprintf("%s(%s)", kind, twosComplement(&n, kind)), true
			}
		}
		return "", false
	}
	n := bitsToBig(bits)
	return fmt.Sprintf("%s(%s)", kind, twosComplement(n, kind)), true
}

func twosComplement(n *big.Int, kind string) string {
	w := map[string]int{"int": 64, "int8": 8, "int16": 16, "int32": 32, "int64": 64}[kind]
	if w == 0 {
		return n.String()
	}
	if n.Bit(w-1) == 1 {
		m := new(big.Int).Lsh(big.NewInt(1), uint(w))
		return new(big.Int).Sub(n, m).String()
	}
	return n.String()
}

const convOracleSrc = `
func gvBigOfInt(v interface{}) (*big.Int, bool) {
	switch x := v.(type) {
	case int:
		return big.NewInt(int64(x)), true
	case int8:
		return big.NewInt(int64(x)), true
	case int16:
		return big.NewInt(int64(x)), true
	case int32:
		return big.NewInt(int64(x)), true
	case int64:
		return big.NewInt(x), true
	case uint:
		return new(big.Int).SetUint64(uint64(x)), true
	case uint8:
		return new(big.Int).SetUint64(uint64(x)), true
	case uint16:
		return new(big.Int).SetUint64(uint64(x)), true
	case uint32:
		return new(big.Int).SetUint64(uint64(x)), true
	case uint64:
		return new(big.Int).SetUint64(x), true
	case uintptr:
		return new(big.Int).SetUint64(uint64(x)), true
	}
	return nil, false
}

func gvFloatOf(v interface{}) (float64, bool) {
	switch x := v.(type) {
	case float32:
		return float64(x), true
	case float64:
		return x, true
	}
	return 0, false
}

// round half away from zero, exactly
func gvRoundHalfAway(f float64) *big.Int {
	bf := new(big.Float).SetPrec(2000).SetFloat64(f)
	half := new(big.Float).SetPrec(2000).SetFloat64(0.5)
	if f < 0 {
		bf.Sub(bf, half)
	} else {
		bf.Add(bf, half)
	}
	i, _ := bf.Int(nil) // truncates toward zero
	return i
}

func gvRange(target string, portable bool) (lo, hi *big.Int) {
	one := big.NewInt(1)
	w := map[string]uint{"int": 64, "int8": 8, "int16": 16, "int32": 32, "int64": 64, "uint": 64, "uint8": 8, "uint16": 16, "uint32": 32, "uint64": 64, "uintptr": 64}[target]
	if portable && (target == "int" || target == "uint") {
		w = 32
	}
	if target[0] == 'u' {
		return big.NewInt(0), new(big.Int).Sub(new(big.Int).Lsh(one, w), one)
	}
	return new(big.Int).Neg(new(big.Int).Lsh(one, w-1)), new(big.Int).Sub(new(big.Int).Lsh(one, w-1), one)
}

func gvIn(x, lo, hi *big.Int) bool { return x.Cmp(lo) >= 0 && x.Cmp(hi) <= 0 }

func gvIsFloatTarget(t string) bool { return t == "float32" || t == "float64" }

// returns (fits, outside) for input in and target type name
func gvFitsOutside(in interface{}, target string) (bool, bool) {
	if _, ok := in.(bool); ok {
		return true, false
	}
	if bi, ok := gvBigOfInt(in); ok {
		if gvIsFloatTarget(target) {
			return true, false
		}
		lo, hi := gvRange(target, true)
		alo, ahi := gvRange(target, false)
		return gvIn(bi, lo, hi), !gvIn(bi, alo, ahi)
	}
	if f, ok := gvFloatOf(in); ok {
		if gvIsFloatTarget(target) {
			if _, is64 := in.(float64); is64 && target == "float32" {
				fin := !math.IsNaN(f) && !math.IsInf(f, 0)
				return fin && math.Abs(f) <= math.MaxFloat32, fin && math.IsInf(float64(float32(f)), 0)
			}
			return true, false
		}
		if math.IsNaN(f) || math.IsInf(f, 0) {
			return false, true
		}
		lo, hi := gvRange(target, true)
		alo, ahi := gvRange(target, false)
		bf := new(big.Float).SetPrec(2000).SetFloat64(f)
		fits := bf.Cmp(new(big.Float).SetInt(lo)) >= 0 && bf.Cmp(new(big.Float).SetInt(hi)) <= 0
		return fits, !gvIn(gvRoundHalfAway(f), alo, ahi)
	}
	return false, false
}

// is r the mathematically same number as in (rounding rules of the property statement)?
func gvExact(r interface{}, in interface{}, target string) bool {
	if b, ok := in.(bool); ok {
		want := 0.0
		if b {
			want = 1.0
		}
		if ri, ok := gvBigOfInt(r); ok {
			return ri.Cmp(big.NewInt(int64(want))) == 0
		}
		rf, _ := gvFloatOf(r)
		return rf == want
	}
	if bi, ok := gvBigOfInt(in); ok {
		if ri, ok := gvBigOfInt(r); ok {
			return ri.Cmp(bi) == 0
		}
		rf, _ := gvFloatOf(r)
		if target == "float32" {
			w, _ := new(big.Float).SetInt(bi).Float32()
			return float32(rf) == w
		}
		w, _ := new(big.Float).SetInt(bi).Float64()
		return rf == w
	}
	if f, ok := gvFloatOf(in); ok {
		if ri, ok := gvBigOfInt(r); ok {
			if math.IsNaN(f) || math.IsInf(f, 0) {
				return false
			}
			return ri.Cmp(gvRoundHalfAway(f)) == 0
		}
		rf, _ := gvFloatOf(r)
		fin := !math.IsNaN(f) && !math.IsInf(f, 0)
		if target == "float32" {
			w := float32(f)
			same := float32(rf) == w || (w != w && rf != rf)
			return same && (!fin || !math.IsInf(rf, 0))
		}
		return (rf == f || (f != f && rf != rf)) && (!fin || !math.IsInf(rf, 0))
	}
	return true
}
`

func convReplayer(u *Unit, method, target string) func(ob *Obligation, repo string) map[string]interface{} {
	inputConst, kind := u.inputConst, u.inputKind
	return func(ob *Obligation, repo string) map[string]interface{} {
		res := map[string]interface{}{}
		if ob.Model == "" || inputConst == "" || kind == "string" {
			res["replay_note"] = "no concrete input could be extracted from the solver model for this source kind"
			return res
		}
		vals := modelValues(ob.Model)
		mv, ok := vals[inputConst]
		if !ok {
			res["replay_note"] = "input constant not in model"
			return res
		}
		lit, ok := goLiteral(kind, mv)
		if !ok {
			res["replay_note"] = "cannot decode model value " + mv
			return res
		}
		clause := ""
		parts := strings.Split(ob.Name, "/")
		for i, p := range parts {
			if p == "post" && i+1 < len(parts) {
				clause = parts[i+1]
			}
		}
		var check string
		switch clause {
		case "S":
			check = fmt.Sprintf(`if err == nil && !gvExact(r, in, %q) { t.Fatalf("clause S violated: %%T(%%v).%s() = (%%v, nil): not the same number", in, in, r) }`, target, method)
		case "F":
			check = fmt.Sprintf(`if fits, _ := gvFitsOutside(in, %q); fits && err != nil { t.Fatalf("clause F violated: %%T(%%v) fits %s but %s() returned error %%v", in, in, err) }`, target, target, method)
		case "O":
			check = fmt.Sprintf(`if _, outside := gvFitsOutside(in, %q); outside && err == nil { t.Fatalf("clause O violated: %%T(%%v) is outside %s but %s() = (%%v, nil)", in, in, r) }`, target, target, method)
		case "B":
			check = `if err == nil { want := false; if bi, ok := gvBigOfInt(in); ok { want = bi.Sign() != 0 } else if f, ok := gvFloatOf(in); ok { want = f != 0 } else if b, ok := in.(bool); ok { want = b }; if r != want { t.Fatalf("ToBool(%T(%v)) = %v, want %v", in, in, r, want) } }`
		default:
			check = fmt.Sprintf(`if err != nil { t.Logf("err=%%v", err) }; t.Logf("clause %s not replayable; result (%%v, %%v)", r, err)`, clause)
		}
		src := fmt.Sprintf(`package fpgo

import (
	"math"
	"math/big"
	"testing"
)

var _ = math.Pi
var _ = big.NewInt
%s
func TestGovcReplay(t *testing.T) {
	var in interface{}
	v := %s
	in = v
	r, err := JustGenerics(v).(someDef[%s]).%s()
	_ = r
	%s
}
`, convOracleSrc, lit, kind, method, check)
		out, failed := runOverlayTest(repo, ".", src, "TestGovcReplay")
		res["input"] = fmt.Sprintf("%s via JustGenerics(...).%s()", lit, method)
		res["go_test"] = src
		res["go_test_pkgdir"] = "."
		res["go_test_name"] = "TestGovcReplay"
		res["go_test_output"] = out
		res["confirmed"] = failed && strings.Contains(out, "violated") || failed && strings.Contains(out, "want")
		return res
	}
}

// MaybeDef[interface{}] only declares a subset of the conversions
func methodForIface(m string) string {
	switch m {
	case "ToFloat64", "ToFloat32", "ToInt", "ToInt32", "ToInt64", "ToBool":
		return m
	}
	return "ToInt64"
}
