package main

// Replay: turn a failed obligation into a file that names it, carries the solvers' output and - where the
// solver produced a model that can be mapped to concrete inputs - a Go test that is run against /repo.

import (
	"encoding/json"
	"fmt"
	"os"
	"os/exec"
	"path/filepath"
	"strings"
)

func buildReplay(vdir string, prog *Program, o checkOpts, ob *Obligation) (string, bool) {
	data := map[string]interface{}{
		"obligation":    ob.Name,
		"kind":          ob.Kind,
		"function":      ob.Func,
		"position":      ob.Pos,
		"clause":        ob.Expr,
		"solver_output": ob.Detail,
		"vc_files":      ob.Files,
	}
	confirmed := false
	if ob.Model != "" {
		m := ob.Model
		if len(m) > 20000 {
			m = m[:20000]
		}
		data["model"] = m
		// the values the model gives to the function's parameters (p_<name>), for a quick look
		params := map[string]string{}
		for k, v := range modelValues(ob.Model) {
			if strings.HasPrefix(k, "p_") && len(v) < 200 {
				params[k] = v
			}
		}
		if len(params) > 0 {
			data["model_parameters"] = params
		}
	}
	if ob.replayer != nil {
		if res := ob.replayer(ob, o.repo); res != nil {
			for k, v := range res {
				data[k] = v
			}
			if c, ok := res["confirmed"].(bool); ok && c {
				confirmed = true
			}
		}
	}
	data["confirmed_on_real_code"] = confirmed
	return writeReplay(vdir, o.prop, ob.Name, data), confirmed
}

func cmdReplay(args []string) int {
	if len(args) < 1 {
		fmt.Fprintln(os.Stderr, "usage: govc replay <file>")
		return 2
	}
	b, err := os.ReadFile(args[0])
	if err != nil {
		fmt.Fprintln(os.Stderr, err)
		return 2
	}
	var data map[string]interface{}
	if err := json.Unmarshal(b, &data); err != nil {
		fmt.Fprintln(os.Stderr, err)
		return 2
	}
	fmt.Printf("obligation: %v\nfunction:   %v at %v\nclause:     %v\n", data["obligation"], data["function"], data["position"], data["clause"])
	if t, ok := data["go_test"].(string); ok && t != "" {
		repo := "/repo"
		if len(args) > 1 {
			repo = args[1]
		}
		out, failed := runOverlayTest(repo, data["go_test_pkgdir"].(string), t, data["go_test_name"].(string))
		fmt.Println(out)
		if failed {
			fmt.Println("replay: the real code still violates the clause")
			return 1
		}
		fmt.Println("replay: the real code satisfies the clause on this input now")
		return 0
	}
	fmt.Printf("no concrete input recorded (no-failing-input-found); solver output:\n%v\n", data["solver_output"])
	return 0
}

// run an in-package test injected with -overlay (nothing is written to the repository)
func runOverlayTest(repo, pkgdir, testSrc, testName string) (string, bool) {
	tmp, err := os.MkdirTemp("", "govc-replay-")
	if err != nil {
		return err.Error(), false
	}
	defer os.RemoveAll(tmp)
	tf := filepath.Join(tmp, "zz_govc_replay_test.go")
	os.WriteFile(tf, []byte(testSrc), 0o644)
	target := filepath.Join(repo, pkgdir, "zz_govc_replay_test.go")
	ov := map[string]interface{}{"Replace": map[string]string{target: tf}}
	ob, _ := json.Marshal(ov)
	ovf := filepath.Join(tmp, "ov.json")
	os.WriteFile(ovf, ob, 0o644)
	cmd := exec.Command("go", "test", "-overlay", ovf, "-vet=off", "-count=1", "-timeout", "60s", "-run", "^"+testName+"$", "./"+pkgdir)
	cmd.Dir = repo
	gc := filepath.Join(verifDir(), "out", "gocache")
	if e := os.Getenv("GOVC_GOCACHE"); e != "" {
		gc = e
	}
	os.MkdirAll(gc, 0o755)
	cmd.Env = append(os.Environ(), "GOFLAGS=-mod=mod", "GOPROXY=off", "GOSUMDB=off", "GOTOOLCHAIN=local", "GOCACHE="+gc)
	out, err := cmd.CombinedOutput()
	s := string(out)
	if len(s) > 4000 {
		s = s[:4000]
	}
	return s, err != nil
}
