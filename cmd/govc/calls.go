package main

// Calls: conversions, builtins, library models (axiomatised, trusted), function values, closures,
// call-by-contract for functions under contract, bounded inlining for small helpers without one.

import (
	"fmt"
	"go/ast"
	"go/token"
	"go/types"
	"sort"
	"strconv"
	"strings"
)

func ret(env *Env, vals ...Value) []Outcome {
	return []Outcome{{env: env, kind: oReturn, vals: vals}}
}

func (u *Unit) isConversionOrBuiltin(c *ast.CallExpr) bool {
	if tv, ok := u.Info.Types[c.Fun]; ok && tv.IsType() {
		return true
	}
	if id, ok := unparen(c.Fun).(*ast.Ident); ok {
		if _, ok := u.Info.Uses[id].(*types.Builtin); ok {
			return true
		}
	}
	return false
}

// static callee of a call, if it is a function or method declared in the loaded packages
func (u *Unit) calleeInfo(c *ast.CallExpr) *FuncInfo {
	fun := unparen(c.Fun)
	// strip explicit instantiation
	switch f := fun.(type) {
	case *ast.IndexExpr:
		fun = f.X
	case *ast.IndexListExpr:
		fun = f.X
	}
	var obj types.Object
	switch f := fun.(type) {
	case *ast.Ident:
		obj = u.Info.Uses[f]
	case *ast.SelectorExpr:
		if sel := u.Info.Selections[f]; sel != nil {
			if sel.Kind() == types.MethodVal {
				obj = sel.Obj()
			}
		} else {
			obj = u.Info.Uses[f.Sel]
		}
	}
	fn, ok := obj.(*types.Func)
	if !ok {
		return nil
	}
	fn = fn.Origin()
	return u.Prog.funcByObj[fn]
}

func (u *Unit) evalCall(c *ast.CallExpr, env *Env) []Outcome {
	// conversion
	if tv, ok := u.Info.Types[c.Fun]; ok && tv.IsType() {
		v := u.eval(c.Args[0], env)
		return ret(env, u.conversion(v, tv.Type, env, c.Pos()))
	}
	fun := unparen(c.Fun)
	switch f := fun.(type) {
	case *ast.IndexExpr:
		if _, isFunc := u.Info.Uses[identOf(f.X)].(*types.Func); isFunc {
			fun = f.X
		}
	case *ast.IndexListExpr:
		fun = f.X
	}
	if id, ok := fun.(*ast.Ident); ok {
		if b, ok := u.Info.Uses[id].(*types.Builtin); ok {
			return u.builtin(b.Name(), c, env)
		}
	}
	// library functions and methods on library types
	if outs, ok := u.libraryCall(c, fun, env); ok {
		return outs
	}
	// static callee in the repository
	if fi := u.calleeInfo(c); fi != nil {
		return u.callStatic(c, fun, fi, env)
	}
	// interface method call
	if se, ok := fun.(*ast.SelectorExpr); ok {
		if sel := u.Info.Selections[se]; sel != nil && sel.Kind() == types.MethodVal {
			return u.callInterfaceMethod(c, se, sel, env)
		}
	}
	// call of a function value
	fv := u.eval(fun, env)
	sig, ok := types.Unalias(fv.Ty).Underlying().(*types.Signature)
	if !ok {
		unsup("call of non-function %s at %s", fv.Ty, u.pos(c.Pos()))
	}
	args := u.evalArgs(c, sig, env)
	if n, isNamed := types.Unalias(fv.Ty).(*types.Named); isNamed && n.Obj().Pkg() != nil && isOpaquePkg(n.Obj().Pkg().Path()) {
		// a function value of a library function type (e.g. context.CancelFunc): a library call, not a user callback
		u.D.Trust("calls of library function values (" + n.Obj().Pkg().Name() + "." + n.Obj().Name() + ") are opaque: arbitrary result, no effect on modelled state")
		if n.Obj().Name() == "CancelFunc" && u.effectfulCallbacks() {
			// specifications may say when the context was cancelled: _cancel_at = length of the event trace at the latest call
			// of a context.CancelFunc (e.g. "the context outlives the decoding": _cancel_at == tr_len at exit)
			env.alias["_cancel_at"] = u.trace(env).n
			env.aliasTy["_cancel_at"] = types.Typ[types.Int]
		}
		var vals []Value
		for i := 0; i < sig.Results().Len(); i++ {
			rt := sig.Results().At(i).Type()
			v := u.D.Fresh("libfnres", u.sortOf(rt))
			u.typeInvariant(env, v, rt)
			vals = append(vals, Value{v, rt})
		}
		return ret(env, vals...)
	}
	return u.applyFn(env, fv.Term, sig, args, c)
}

func identOf(e ast.Expr) *ast.Ident {
	switch x := unparen(e).(type) {
	case *ast.Ident:
		return x
	case *ast.SelectorExpr:
		return x.Sel
	}
	return nil
}

// evaluate call arguments against a signature (packs variadic arguments into a fresh slice)
func (u *Unit) evalArgs(c *ast.CallExpr, sig *types.Signature, env *Env) []Value {
	np := sig.Params().Len()
	var args []Value
	if sig.Variadic() {
		for i := 0; i < np-1; i++ {
			args = append(args, u.convert(u.eval(c.Args[i], env), sig.Params().At(i).Type(), env))
		}
		vt := sig.Params().At(np - 1).Type()
		st := types.Unalias(vt).Underlying().(*types.Slice)
		if c.Ellipsis.IsValid() {
			args = append(args, u.convert(u.eval(c.Args[np-1], env), vt, env))
		} else {
			extra := c.Args[np-1:]
			if len(extra) == 0 {
				args = append(args, Value{nilSlice, vt})
			} else {
				es := u.sortOf(st.Elem())
				r := u.alloc(env, "varargs")
				n := int64(len(extra))
				name := sliceHeapName(es)
				h := u.heap(env, name, ArrS(SRef, ArrS(SInt, es)))
				arr := Select(h, r)
				for i, a := range extra {
					arr = Store(arr, IntLit(int64(i)), u.convert(u.eval(a, env), st.Elem(), env).Term)
				}
				h = u.heap(env, name, ArrS(SRef, ArrS(SInt, es)))
				u.setHeap(env, name, u.define(env, "h_"+name, Store(h, r, arr)))
				args = append(args, Value{mkSlice(r, IntLit(0), IntLit(n), IntLit(n)), vt})
			}
		}
		return args
	}
	if len(c.Args) == 1 && np > 1 {
		unsup("call with tuple argument")
	}
	for i, a := range c.Args {
		args = append(args, u.convert(u.eval(a, env), sig.Params().At(i).Type(), env))
	}
	return args
}

// ---------------------------------------------------------------------------------------------
// builtins

func (u *Unit) builtin(name string, c *ast.CallExpr, env *Env) []Outcome {
	intT := types.Typ[types.Int]
	switch name {
	case "len", "cap":
		v := u.eval(c.Args[0], env)
		switch t := types.Unalias(v.Ty).Underlying().(type) {
		case *types.Slice:
			if name == "len" {
				return ret(env, Value{sLen(v.Term), intT})
			}
			return ret(env, Value{sCap(v.Term), intT})
		case *types.Map:
			l := Ite(Same(v.Term, Term{"nil_Ref", SRef}), IntLit(0), u.mapLen(env, v.Term))
			return ret(env, Value{l, intT})
		case *types.Basic:
			if t.Info()&types.IsString != 0 {
				u.D.Fun("str_len", SInt, SStr)
				// lengths are non-negative, and only the empty string has length 0 (so "len(s) > 0" and "s != \"\"" agree)
				empty := u.strLit("")
				ln := App("str_len", SInt, v.Term)
				if !u.BV {
					env.assume(le(IntLit(0), ln))
					env.assume(Same(Same(ln, IntLit(0)), Same(v.Term, empty)))
				}
				return ret(env, Value{ln, intT})
			}
		case *types.Chan:
			u.D.Fun("chan_"+name, SInt, SRef)
			return ret(env, Value{App("chan_"+name, SInt, v.Term), intT})
		}
		unsup("%s of %s", name, v.Ty)
	case "make":
		ty := u.Info.TypeOf(c.Args[0])
		switch t := types.Unalias(ty).Underlying().(type) {
		case *types.Slice:
			n := u.eval(c.Args[1], env).Term
			cp := n
			if len(c.Args) > 2 {
				cp = u.eval(c.Args[2], env).Term
			}
			u.safety(env, "bounds", c.Pos(), u.exprText(c), And(le(IntLit(0), n), le(n, cp)))
			es := u.sortOf(t.Elem())
			r := u.alloc(env, "mk")
			hn := sliceHeapName(es)
			h := u.heap(env, hn, ArrS(SRef, ArrS(SInt, es)))
			zeroArr := u.D.Fresh("zeros", ArrS(SInt, es))
			{
				j := u.D.Bound("j", SInt)
				env.assume(Forall([]Term{j}, Same(Select(zeroArr, j), u.zero(t.Elem())), []Term{Select(zeroArr, j)}))
			}
			u.setHeap(env, hn, u.define(env, "h_"+hn, Store(h, r, zeroArr)))
			return ret(env, Value{mkSlice(r, IntLit(0), n, cp), ty})
		case *types.Map:
			if len(c.Args) > 1 {
				u.eval(c.Args[1], env)
			}
			return ret(env, Value{u.mapNew(env, t), ty})
		case *types.Chan:
			r := u.alloc(env, "chan")
			if len(c.Args) > 1 {
				cp := u.eval(c.Args[1], env).Term
				u.D.Fun("chan_cap", SInt, SRef)
				env.assume(Same(App("chan_cap", SInt, r), cp))
			} else {
				u.D.Fun("chan_cap", SInt, SRef)
				env.assume(Same(App("chan_cap", SInt, r), IntLit(0)))
			}
			u.chanNew(env, r)
			return ret(env, Value{r, ty})
		}
		unsup("make of %s", ty)
	case "new":
		ty := u.Info.TypeOf(c.Args[0])
		r := u.alloc(env, "new")
		u.ptrStore(env, r, ty, u.zero(ty))
		return ret(env, Value{r, types.NewPointer(ty)})
	case "append":
		return ret(env, u.builtinAppend(c, env))
	case "delete":
		m := u.eval(c.Args[0], env)
		mt := types.Unalias(m.Ty).Underlying().(*types.Map)
		k := u.convert(u.eval(c.Args[1], env), mt.Key(), env)
		// delete on a nil map is a no-op; on a non-nil map it is a write
		sub := env.clone()
		sub.assume(Not(Same(m.Term, Term{"nil_Ref", SRef})))
		u.frameCheckRef(sub, m.Term, "map", c)
		u.adoptDecls(env, sub)
		u.mapDelete(env, m.Term, mt, k.Term)
		return ret(env)
	case "panic":
		return []Outcome{{env: env, kind: oPanic, pos: c.Pos()}}
	case "close":
		ch := u.eval(c.Args[0], env)
		u.chanClose(env, ch.Term, c)
		return ret(env)
	case "copy":
		// copy(dst, src): the first n = min(len(dst), len(src)) cells of dst become those of src (read from the old heap,
		// as memmove does); a write to dst's storage when n > 0
		d := u.eval(c.Args[0], env)
		sv := u.eval(c.Args[1], env)
		dt, ok := types.Unalias(d.Ty).Underlying().(*types.Slice)
		if !ok || sv.Sort != SSlice {
			unsup("copy on %s", d.Ty)
		}
		es := u.sortOf(dt.Elem())
		hn := sliceHeapName(es)
		hs := ArrS(SRef, ArrS(SInt, es))
		hOld := u.heap(env, hn, hs)
		n := u.define(env, "copyn", Ite(le(sLen(d.Term), sLen(sv.Term)), sLen(d.Term), sLen(sv.Term)))
		{
			sub := env.clone()
			sub.assume(lt(IntLit(0), n))
			u.frameCheckRef(sub, sBase(d.Term), "cells", c)
			u.adoptDecls(env, sub)
		}
		arr := u.D.Fresh("cparr", ArrS(SInt, es))
		j := u.D.Bound("j", SInt)
		rel := sub(j, sOff(d.Term))
		body := Same(Select(arr, j),
			Ite(And(le(sOff(d.Term), j), lt(rel, n)), Select(Select(hOld, sBase(sv.Term)), u.idx(sv.Term, rel)),
				Select(Select(hOld, sBase(d.Term)), j)))
		env.assume(Forall([]Term{j}, body, []Term{Select(arr, j)}))
		u.setHeap(env, hn, u.define(env, "h_"+hn, Ite(lt(IntLit(0), n), Store(hOld, sBase(d.Term), arr), hOld)))
		return ret(env, Value{n, types.Typ[types.Int]})
	}
	unsup("builtin %s", name)
	return nil
}

// append(s, xs...) / append(s, a, b, c)
func (u *Unit) builtinAppend(c *ast.CallExpr, env *Env) Value {
	s := u.eval(c.Args[0], env)
	ty := u.Info.TypeOf(c)
	st, ok := types.Unalias(ty).Underlying().(*types.Slice)
	if !ok {
		unsup("append on %s", ty)
	}
	es := u.sortOf(st.Elem())
	hn := sliceHeapName(es)
	hs := ArrS(SRef, ArrS(SInt, es))
	n := sLen(s.Term)
	var m Term
	var elemAt func(j Term) Term // j in [0,m)
	hOld := u.heap(env, hn, hs)
	if c.Ellipsis.IsValid() {
		b := u.eval(c.Args[1], env)
		if b.Sort != SSlice {
			unsup("append(..., x...) with non-slice x")
		}
		m = sLen(b.Term)
		bs := b.Term
		elemAt = func(j Term) Term { return Select(Select(hOld, sBase(bs)), u.idx(bs, j)) }
	} else {
		var elems []Term
		for _, a := range c.Args[1:] {
			elems = append(elems, u.convert(u.eval(a, env), st.Elem(), env).Term)
		}
		hOld = u.heap(env, hn, hs)
		m = IntLit(int64(len(elems)))
		elemAt = func(j Term) Term {
			t := elems[len(elems)-1]
			for i := len(elems) - 2; i >= 0; i-- {
				t = Ite(Same(j, IntLit(int64(i))), elems[i], t)
			}
			return t
		}
	}
	total := u.define(env, "applen", add(n, m))
	fits := u.D.Fresh("fits", SBool)
	env.assume(Same(fits, le(total, sCap(s.Term))))
	nb := u.D.Fresh("appbase", SRef) // fresh base used when it does not fit
	env.assume(Same(u.birth(nb), env.clock))
	env.assume(Not(Same(nb, Term{"nil_Ref", SRef})))
	nc := u.D.Fresh("clk", SInt)
	env.assume(Same(nc, add(env.clock, IntLit(1))))
	env.clock = nc
	ncap := u.D.Fresh("appcap", SInt)
	env.assume(le(total, ncap))
	tb := u.define(env, "tb", Ite(fits, sBase(s.Term), nb))
	toff := u.define(env, "toff", Ite(fits, sOff(s.Term), IntLit(0)))
	// frame: writing into spare capacity of existing storage (only when something is appended)
	{
		sub := env.clone()
		sub.assume(fits)
		sub.assume(lt(IntLit(0), m))
		u.frameCheckRef(sub, sBase(s.Term), "cells", c)
		u.adoptDecls(env, sub)
	}
	arr := u.D.Fresh("apparr", ArrS(SInt, es))
	j := u.D.Bound("j", SInt)
	rel := sub(j, toff)
	body := Same(Select(arr, j),
		Ite(And(le(toff, j), lt(rel, n)), Select(Select(hOld, sBase(s.Term)), u.idx(s.Term, rel)),
			Ite(And(le(add(toff, n), j), lt(rel, total)), elemAt(sub(rel, n)),
				Select(Select(hOld, tb), j))))
	env.assume(Forall([]Term{j}, body, []Term{Select(arr, j)}))
	u.setHeap(env, hn, u.define(env, "h_"+hn, Store(hOld, tb, arr)))
	res := mkSlice(tb, toff, total, Ite(fits, sCap(s.Term), ncap))
	return Value{u.define(env, "app", res), ty}
}

// ---------------------------------------------------------------------------------------------
// function values

func sigMangle(u *Unit, sig *types.Signature) string {
	var parts []string
	for i := 0; i < sig.Params().Len(); i++ {
		parts = append(parts, u.sortOf(sig.Params().At(i).Type()).Mangle())
	}
	return strings.Join(parts, "_")
}

// apply an opaque function value: deterministic, no effect on the library's heap (modelling assumption)
func (u *Unit) applyFn(env *Env, fn Term, sig *types.Signature, args []Value, at ast.Node) []Outcome {
	var argSorts []Sort
	argTerms := []Term{fn}
	argSorts = append(argSorts, SFn)
	for _, a := range args {
		argSorts = append(argSorts, a.Sort)
		argTerms = append(argTerms, a.Term)
	}
	if u.effectfulCallbacks() {
		return u.applyEffectful(env, fn, sig, args, at)
	}
	if li := u.knownLits[fn.S]; li != nil && li.blk == nil && sig.Results().Len() == 0 {
		// a result-less literal created in this activation (e.g. handed to a helper that runs it under a lock): inline it
		return u.applyKnownLit(env, li, fn, sig, args, at)
	}
	u.assumeUsed("user callbacks are deterministic functions of their arguments and do not touch the library's heap")
	var vals []Value
	for i := 0; i < sig.Results().Len(); i++ {
		rt := sig.Results().At(i).Type()
		rs := u.sortOf(rt)
		name := fmt.Sprintf("apply%d_%s__%s", i, sigMangle(u, sig), rs.Mangle())
		u.D.Fun(name, rs, argSorts...)
		v := u.define(env, "ap", App(name, rs, argTerms...))
		if rs == SSlice {
			u.assumeGround(env, u.validSliceT(v))
		}
		u.knownRefsOf(env, v)
		vals = append(vals, Value{v, rt})
	}
	return ret(env, vals...)
}

// name of the apply function for result i of a signature (used by closure axioms and specs)
func (u *Unit) applyName(sig *types.Signature, i int) (string, Sort, []Sort) {
	rt := sig.Results().At(i).Type()
	rs := u.sortOf(rt)
	argSorts := []Sort{SFn}
	for k := 0; k < sig.Params().Len(); k++ {
		argSorts = append(argSorts, u.sortOf(sig.Params().At(k).Type()))
	}
	name := fmt.Sprintf("apply%d_%s__%s", i, sigMangle(u, sig), rs.Mangle())
	u.D.Fun(name, rs, argSorts...)
	return name, rs, argSorts
}

// closure creation: a fresh function value; if the body is a pure expression of its parameters and the
// captured values, an axiom defines apply(clo, args)
func (u *Unit) closure(lit *ast.FuncLit, env *Env) Value {
	ty := u.Info.TypeOf(lit)
	sig := ty.(*types.Signature)
	clo := u.D.Fresh("clo", SFn)
	env.assume(Not(Same(clo, Term{"nil_Fn", SFn})))
	if u.inClosure > 2 {
		return Value{clo, ty}
	}
	// a contract block for this literal takes precedence
	owner := u.curFn[len(u.curFn)-1]
	ord, hasOrd := u.lits[lit]
	li := &litInfo{lit: lit, owner: owner, ord: ord, info: u.Info}
	u.knownLits[clo.S] = li
	if hasOrd {
		// specifications may name the function value created for literal N in this activation: _litN
		env.alias[fmt.Sprintf("_lit%d", ord)] = clo
		env.aliasTy[fmt.Sprintf("_lit%d", ord)] = ty
		if n, ok := litNames(owner.Decl)[lit]; ok {
			env.alias["_lit_"+n] = clo
			env.aliasTy["_lit_"+n] = ty
		}
	}
	if hasOrd {
		if blk := u.Prog.litBlock(owner, lit, ord); blk != nil {
			blk.Bound = true
			li.blk = blk
			if blk.Opts["effects"] == "" && sig.Results().Len() > 0 && !u.effectfulCallbacks() {
				u.pureLitAxiom(lit, sig, clo, blk, env)
			}
			return Value{clo, ty}
		}
	}
	if u.effectfulCallbacks() {
		return Value{clo, ty} // applied later: inlined (shares the captured variables) or by contract
	}
	if sig.Results().Len() == 0 {
		u.note(fmt.Sprintf("closure lit %d of %s has no result and no contract: opaque", ord, owner.Key))
		return Value{clo, ty}
	}
	// try to summarise the body symbolically
	ok := func() (ok bool) {
		defer func() {
			if r := recover(); r != nil {
				if us, isU := r.(unsupported); isU {
					u.note(fmt.Sprintf("closure lit %d of %s is opaque: %s", ord, owner.Key, us.msg))
					ok = false
					return
				}
				panic(r)
			}
		}()
		sub := env.clone()
		base := len(sub.pc)
		var params []Term
		for i := 0; i < sig.Params().Len(); i++ {
			p := sig.Params().At(i)
			pt := u.D.Fresh("cp_"+p.Name(), u.sortOf(p.Type()))
			sub.vars[p] = pt
			params = append(params, pt)
			if pt.Sort == SSlice {
				sub.assume(u.validSliceT(pt))
			}
		}
		base2 := len(sub.pc)
		_ = base
		declMark := len(u.D.order)
		saveRes, saveTys := u.results, u.resTys
		u.results = nil
		u.resTys = nil
		for i := 0; i < sig.Results().Len(); i++ {
			u.resTys = append(u.resTys, sig.Results().At(i).Type())
		}
		saveObs := u.muteObs
		u.muteObs = true // obligations inside closure bodies are checked when the literal is verified as its own unit
		u.inClosure++
		heapsBefore := map[string]string{}
		for n, h := range sub.heaps {
			heapsBefore[n] = h.S
		}
		outs := u.execBlock(lit.Body.List, sub)
		u.inClosure--
		u.muteObs = saveObs
		u.results, u.resTys = saveRes, saveTys
		var rets []Outcome
		for _, o := range outs {
			if o.kind == oReturn {
				rets = append(rets, o)
			} else if o.kind == oPanic {
				continue
			} else {
				unsup("closure body falls through")
			}
		}
		if len(rets) == 0 {
			unsup("closure never returns")
		}
		for _, o := range rets {
			for n, h := range o.env.heaps {
				if before, ok := heapsBefore[n]; ok && before != h.S {
					unsup("closure writes heap " + n)
				}
			}
		}
		// apply(clo, params) = result, under each path's extra conditions (which may mention params)
		for i := 0; i < sig.Results().Len(); i++ {
			name, rs, _ := u.applyName(sig, i)
			lhs := App(name, rs, append([]Term{clo}, params...)...)
			var conj []Term
			for _, o := range rets {
				conds := append([]Term(nil), o.env.pc[base2:]...)
				val := o.vals[i].Term
				factIdx := map[int]bool{}
				for ci, cd := range conds {
					if u.calleeFacts[cd.S] {
						factIdx[ci] = true
					}
				}
				// constants introduced while executing the body that are *defined* by an equation among the conditions (results
				// of calls by contract: r == <term over the parameters>) are eliminated by substitution, so that the axiom
				// speaks about all arguments and not about one fixed result
				for _, d := range u.D.order[declMark:] {
					if !strings.HasPrefix(d, "(declare-const ") {
						continue
					}
					rest := strings.TrimSuffix(strings.TrimPrefix(d, "(declare-const "), ")")
					k := strings.Index(rest, " ")
					if k < 0 {
						continue
					}
					cname := rest[:k]
					if cname == clo.S {
						continue
					}
					for ci, cd := range conds {
						pre := "(= " + cname + " "
						if strings.HasPrefix(cd.S, pre) && strings.HasSuffix(cd.S, ")") {
							def := cd.S[len(pre) : len(cd.S)-1]
							if containsToken(def, cname) || !balanced(def) {
								continue
							}
							conds = append(conds[:ci:ci], conds[ci+1:]...)
							nf := map[int]bool{}
							for k2, isF := range factIdx {
								if k2 < ci {
									nf[k2] = isF
								} else if k2 > ci {
									nf[k2-1] = isF
								}
							}
							factIdx = nf
							for cj := range conds {
								conds[cj] = Term{replaceToken(conds[cj].S, cname, def), conds[cj].Sort}
							}
							val = Term{replaceToken(val.S, cname, def), val.Sort}
							break
						}
					}
				}
				// a fresh clock constrained only from below (left by a call that allocates at most) can always be chosen: such
				// conditions do not restrict the arguments
				for _, d := range u.D.order[declMark:] {
					if !strings.HasPrefix(d, "(declare-const clk!") {
						continue
					}
					cname := strings.SplitN(strings.TrimPrefix(d, "(declare-const "), " ", 2)[0]
					if containsToken(val.S, cname) {
						continue
					}
					var keep []Term
					droppable := true
					for _, cd := range conds {
						if !containsToken(cd.S, cname) {
							keep = append(keep, cd)
							continue
						}
						if !(strings.HasPrefix(cd.S, "(<= ") && strings.HasSuffix(cd.S, " "+cname+")") && !containsToken(cd.S[:len(cd.S)-len(cname)-1], cname)) {
							droppable = false
						}
					}
					if droppable {
						nf := map[int]bool{}
						k3 := 0
						for ci, cd := range conds {
							if !containsToken(cd.S, cname) {
								nf[k3] = factIdx[ci]
								k3++
							}
						}
						factIdx = nf
						conds = keep
					}
				}
				// postconditions of callees used by contract are consequences of reaching the call, not conditions on the arguments
				// each fact holds under the conditions that precede it on the path; the result under all conditions
				var ante []Term
				for ci, cd := range conds {
					if factIdx[ci] {
						conj = append(conj, Imp(And(ante...), cd))
					} else {
						ante = append(ante, cd)
					}
				}
				conj = append(conj, Imp(And(ante...), Same(lhs, val)))
			}
			body := And(conj...)
			// generalise the parameter constants into bound variables
			var bvs []Term
			txt := body.S
			lhsTxt := lhs.S
			for _, p := range params {
				bv := u.D.Bound("q", p.Sort)
				txt = replaceToken(txt, p.S, bv.S)
				lhsTxt = replaceToken(lhsTxt, p.S, bv.S)
				bvs = append(bvs, bv)
			}
			// values merged from mutually exclusive paths inside the body (dispatch over dynamic types, inlined callees with
			// several returns) are determined by the path conditions that define them: generalise them with the parameters
			for _, d := range u.D.order[declMark:] {
				if !strings.HasPrefix(d, "(declare-const mres!") {
					continue
				}
				rest := strings.TrimSuffix(strings.TrimPrefix(d, "(declare-const "), ")")
				k := strings.Index(rest, " ")
				if k < 0 {
					continue
				}
				cname, csort := rest[:k], Sort(rest[k+1:])
				if !containsToken(txt, cname) {
					continue
				}
				bv := u.D.Bound("m", csort)
				txt = replaceToken(txt, cname, bv.S)
				bvs = append(bvs, bv)
			}
			// every other constant introduced while executing the body (results of callees used by contract, allocations)
			// stands for "some value, for these arguments": it becomes a Skolem function of the parameters.  (Left as one
			// global constant it would have to satisfy the callee postconditions for all arguments at once.)
			if len(params) > 0 {
				var psorts []Sort
				var pargs []string
				for k, p := range params {
					psorts = append(psorts, p.Sort)
					pargs = append(pargs, bvs[k].S)
				}
				for _, d := range u.D.order[declMark:] {
					if !strings.HasPrefix(d, "(declare-const ") {
						continue
					}
					rest := strings.TrimSuffix(strings.TrimPrefix(d, "(declare-const "), ")")
					k := strings.Index(rest, " ")
					if k < 0 {
						continue
					}
					cname, csort := rest[:k], Sort(rest[k+1:])
					if cname == clo.S || strings.HasPrefix(cname, "mres!") || !containsToken(txt, cname) {
						continue
					}
					sk := "sk_" + strings.ReplaceAll(cname, "!", "_")
					u.D.Fun(sk, csort, psorts...)
					txt = replaceToken(txt, cname, "("+sk+" "+strings.Join(pargs, " ")+")")
				}
			}
			if len(bvs) == 0 {
				env.assume(Term{txt, SBool})
			} else {
				env.assume(Forall(bvs, Term{txt, SBool}, []Term{{lhsTxt, rs}}))
			}
		}
		// declarations introduced while executing the body that depend on params: they were generalised only
		// if they appear in the result terms via definitions in the path condition (conds); that is handled above.
		return true
	}()
	_ = ok
	return Value{clo, ty}
}

// replace whole-token occurrences of a name in SMT text
func replaceToken(s, old, new string) string {
	var b strings.Builder
	i := 0
	for i < len(s) {
		j := strings.Index(s[i:], old)
		if j < 0 {
			b.WriteString(s[i:])
			break
		}
		j += i
		end := j + len(old)
		okL := j == 0 || isDelim(s[j-1])
		okR := end >= len(s) || isDelim(s[end])
		b.WriteString(s[i:j])
		if okL && okR {
			b.WriteString(new)
		} else {
			b.WriteString(old)
		}
		i = end
	}
	return b.String()
}

// one complete s-expression (or atom)?
func balanced(s string) bool {
	depth := 0
	for i := 0; i < len(s); i++ {
		switch s[i] {
		case '(':
			depth++
		case ')':
			depth--
			if depth < 0 {
				return false
			}
			if depth == 0 && i != len(s)-1 {
				return false
			}
		case ' ':
			if depth == 0 {
				return false
			}
		}
	}
	return depth == 0
}

func containsToken(s, tok string) bool {
	i := 0
	for {
		j := strings.Index(s[i:], tok)
		if j < 0 {
			return false
		}
		j += i
		end := j + len(tok)
		if (j == 0 || isDelim(s[j-1])) && (end >= len(s) || isDelim(s[end])) {
			return true
		}
		i = end
	}
}

func isDelim(c byte) bool { return c == ' ' || c == '(' || c == ')' || c == '\n' }

// ---------------------------------------------------------------------------------------------
// static calls: by contract, or inlined

func (u *Unit) callStatic(c *ast.CallExpr, fun ast.Expr, fi *FuncInfo, env *Env) []Outcome {
	sig := fi.Obj.Type().(*types.Signature)
	// receiver
	var recv *Value
	if se, ok := fun.(*ast.SelectorExpr); ok {
		if sel := u.Info.Selections[se]; sel != nil && sel.Kind() == types.MethodVal {
			rv := u.eval(se.X, env)
			// follow embedded path and adjust pointer-ness
			path := sel.Index()
			if len(path) > 1 {
				rv = u.fieldPath(rv, path[:len(path)-1], env, se)
			}
			rv = u.adjustRecv(rv, sig.Recv().Type(), env, se)
			recv = &rv
		}
	}
	args := u.evalArgs(c, sig, env)
	blk := u.Prog.Contracts.Get(fi.Key, "")
	if blk != nil && blk.Opts["inline"] == "" {
		if recv != nil && u.recvActualTy != nil && u.sortOf(u.recvActualTy) == recv.Sort {
			// the callee's clauses read the receiver at the type of this call's receiver expression (same representation)
			actual := Value{recv.Term, u.recvActualTy}
			u.recvActualTy = nil
			return u.callByContract(c, fi, blk, &actual, args, env)
		}
		return u.callByContract(c, fi, blk, recv, args, env)
	}
	return u.inline(c, fi, recv, args, env)
}

func (u *Unit) adjustRecv(rv Value, want types.Type, env *Env, at ast.Node) Value {
	_, wantPtr := types.Unalias(want).Underlying().(*types.Pointer)
	_, havePtr := types.Unalias(rv.Ty).Underlying().(*types.Pointer)
	if _, isNamedPtr := types.Unalias(rv.Ty).(*types.Pointer); !isNamedPtr {
		havePtr = false
	}
	u.recvActualTy = nil
	switch {
	case wantPtr == havePtr:
		u.recvActualTy = rv.Ty
		return Value{rv.Term, want}
	case wantPtr && !havePtr:
		// implicit &x on an addressable receiver: a cell holding the current value
		r := u.alloc(env, "recvaddr")
		u.ptrStore(env, r, rv.Ty, rv.Term)
		u.note("implicit address-of receiver " + u.exprText(at) + " modelled as a fresh cell holding the current value")
		u.recvActualTy = types.NewPointer(rv.Ty)
		return Value{r, want}
	case !wantPtr && havePtr:
		pt := types.Unalias(rv.Ty).(*types.Pointer)
		u.safety(env, "nil", at.Pos(), u.exprText(at), Not(Same(rv.Term, Term{"nil_Ref", SRef})))
		u.recvActualTy = pt.Elem()
		return Value{u.ptrLoad(env, rv.Term, pt.Elem()), want}
	}
	return rv
}

func (u *Unit) inline(c *ast.CallExpr, fi *FuncInfo, recv *Value, args []Value, env *Env) []Outcome {
	if fi.Decl.Body == nil {
		unsup("call of function without body %s", fi.Key)
	}
	// re-entrance through a closure (a helper that runs a function value which calls the helper again) is not recursion of
	// unbounded depth: allow the same function twice on the inline stack; real recursion still runs into a limit
	seenSelf := 0
	for _, f := range u.curFn {
		if f == fi {
			seenSelf++
		}
	}
	if seenSelf >= 2 {
		unsup("recursive call of %s without contract", fi.Key)
	}
	if len(u.curFn) > 5 {
		unsup("inline depth exceeded at %s", fi.Key)
	}
	u.inlined[fi.Key] = true
	sig := fi.Obj.Type().(*types.Signature)
	// bind parameters
	saveInfo, saveRes, saveTys, saveLoops, saveLits := u.Info, u.results, u.resTys, u.loops, u.lits
	u.Info = fi.Pkg.TypesInfo
	u.loops, u.lits = numberLoops(fi.Decl)
	u.curFn = append(u.curFn, fi)
	defer func() {
		u.Info, u.results, u.resTys, u.loops, u.lits = saveInfo, saveRes, saveTys, saveLoops, saveLits
		u.curFn = u.curFn[:len(u.curFn)-1]
	}()
	saveDefers := env.defers
	env.defers = nil
	if recv != nil && fi.Decl.Recv != nil && len(fi.Decl.Recv.List) > 0 && len(fi.Decl.Recv.List[0].Names) > 0 {
		obj := u.Info.Defs[fi.Decl.Recv.List[0].Names[0]]
		if obj != nil {
			env.vars[obj] = recv.Term
		}
	}
	i := 0
	for _, fld := range fi.Decl.Type.Params.List {
		for _, n := range fld.Names {
			obj := u.Info.Defs[n]
			if obj != nil {
				env.vars[obj] = args[i].Term
			}
			i++
		}
		if len(fld.Names) == 0 {
			i++
		}
	}
	u.results = nil
	u.resTys = nil
	for k := 0; k < sig.Results().Len(); k++ {
		u.resTys = append(u.resTys, sig.Results().At(k).Type())
	}
	if fi.Decl.Type.Results != nil {
		for _, fld := range fi.Decl.Type.Results.List {
			for _, n := range fld.Names {
				obj := u.Info.Defs[n]
				u.results = append(u.results, obj)
				env.vars[obj] = u.zero(obj.Type())
			}
		}
	}
	if iblk := u.Prog.Contracts.Get(fi.Key, ""); iblk != nil {
		// an "opt inline" block: its ghostinit clauses run when the body is entered
		iblk.Bound = true
		u.runGhostKind(env, iblk, "ghostinit")
	}
	outs := u.execBlock(fi.Decl.Body.List, env)
	var res []Outcome
	callTys := u.callResultTypes(saveInfo, c)
	for _, o := range outs {
		switch o.kind {
		case oNext:
			u.runDefers(o.env, c)
			o.env.defers = saveDefers
			res = append(res, Outcome{env: o.env, kind: oReturn})
		case oReturn:
			u.runDefers(o.env, c)
			o.env.defers = saveDefers
			// convert generic result types to the instantiated ones at the call site
			vals := make([]Value, len(o.vals))
			for k, v := range o.vals {
				vals[k] = v
				if k < len(callTys) {
					vals[k] = u.convert(v, callTys[k], o.env)
				}
			}
			res = append(res, Outcome{env: o.env, kind: oReturn, vals: vals})
		case oPanic:
			res = append(res, o)
		default:
			unsup("break/continue escapes function %s", fi.Key)
		}
	}
	return res
}

func (u *Unit) callResultTypes(info *types.Info, c *ast.CallExpr) []types.Type {
	t := info.TypeOf(c)
	if t == nil {
		return nil
	}
	if tup, ok := t.(*types.Tuple); ok {
		var out []types.Type
		for i := 0; i < tup.Len(); i++ {
			out = append(out, tup.At(i).Type())
		}
		return out
	}
	return []types.Type{t}
}

// deferred calls at function exit (LIFO); only calls whose effect is modelled matter
func (u *Unit) runDefers(env *Env, at ast.Node) {
	for i := len(env.defers) - 1; i >= 0; i-- {
		d := env.defers[i]
		outs := u.evalCall(d.call, env)
		if len(outs) != 1 {
			unsup("forking deferred call")
		}
		if outs[0].env != env {
			*env = *outs[0].env
		}
	}
	env.defers = nil
}

// number loops and function literals of a declaration in source order
func numberLoops(fd *ast.FuncDecl) (map[ast.Stmt]int, map[*ast.FuncLit]int) {
	loops := map[ast.Stmt]int{}
	lits := map[*ast.FuncLit]int{}
	if fd.Body == nil {
		return loops, lits
	}
	ast.Inspect(fd.Body, func(n ast.Node) bool {
		switch x := n.(type) {
		case *ast.ForStmt:
			loops[x] = len(loops)
		case *ast.RangeStmt:
			loops[x] = len(loops)
		case *ast.FuncLit:
			lits[x] = len(lits)
		}
		return true
	})
	return loops, lits
}

// a literal that is the right-hand side of "name := func..." / "name = func..." / "var name = func..." can be addressed by
// that name in the contract file ("lit name"), which survives the insertion or removal of other literals
func litNames(fd *ast.FuncDecl) map[*ast.FuncLit]string {
	names := map[*ast.FuncLit]string{}
	if fd.Body == nil {
		return names
	}
	count := map[string]int{}
	ast.Inspect(fd.Body, func(n ast.Node) bool {
		switch x := n.(type) {
		case *ast.AssignStmt:
			if len(x.Lhs) == len(x.Rhs) {
				for i, r := range x.Rhs {
					if fl, ok := unparen(r).(*ast.FuncLit); ok {
						if id, ok := x.Lhs[i].(*ast.Ident); ok && id.Name != "_" {
							names[fl] = id.Name
							count[id.Name]++
						}
					}
				}
			}
		case *ast.ValueSpec:
			if len(x.Names) == len(x.Values) {
				for i, r := range x.Values {
					if fl, ok := unparen(r).(*ast.FuncLit); ok {
						names[fl] = x.Names[i].Name
						count[x.Names[i].Name]++
					}
				}
			}
		}
		return true
	})
	for fl, n := range names {
		if count[n] > 1 {
			delete(names, fl) // ambiguous
		}
	}
	return names
}

// "lit X" headers: X is an ordinal ("lit 1"), a variable name ("lit doSub") or both ("lit doSub@1").  A block is bound to the
// literal with that name if there is one (robust against inserting or removing other literals); a block whose name matches
// no literal of the function any more falls back to its ordinal (robust against renaming the variable).
func parseLitSub(sub string) (name string, ord int) {
	x := strings.TrimSpace(strings.TrimPrefix(sub, "lit "))
	ord = -1
	if k := strings.Index(x, "@"); k >= 0 {
		name = x[:k]
		if n, err := strconv.Atoi(x[k+1:]); err == nil {
			ord = n
		}
		return
	}
	if n, err := strconv.Atoi(x); err == nil {
		return "", n
	}
	return x, -1
}

func (p *Program) litBlocksOf(owner *FuncInfo) []*Block {
	var out []*Block
	for _, b := range p.Contracts.Order {
		if b.Key == owner.Key && strings.HasPrefix(b.Sub, "lit ") {
			out = append(out, b)
		}
	}
	return out
}

// the contract block of a literal
func (p *Program) litBlock(owner *FuncInfo, lit *ast.FuncLit, ord int) *Block {
	names := litNames(owner.Decl)
	myName := names[lit]
	present := map[string]bool{}
	for _, n := range names {
		present[n] = true
	}
	blocks := p.litBlocksOf(owner)
	if myName != "" {
		for _, b := range blocks {
			if n, _ := parseLitSub(b.Sub); n == myName {
				return b
			}
		}
	}
	for _, b := range blocks {
		n, o := parseLitSub(b.Sub)
		if o == ord && (n == "" || !present[n]) {
			return b
		}
	}
	return nil
}

// the literal a block header "lit X" refers to
func litBySub(fi *FuncInfo, sub string) *ast.FuncLit {
	name, ord := parseLitSub(sub)
	if name != "" {
		for fl, n := range litNames(fi.Decl) {
			if n == name {
				return fl
			}
		}
	}
	if ord >= 0 {
		return litByOrdinal(fi, ord)
	}
	return nil
}

// ---------------------------------------------------------------------------------------------
// call by contract

type calleeScope struct {
	names map[string]Value
	fi    *FuncInfo
}

func (u *Unit) paramScope(fi *FuncInfo, recv *Value, args []Value) map[string]Value {
	names := map[string]Value{}
	if recv != nil && fi.Decl.Recv != nil && len(fi.Decl.Recv.List) > 0 && len(fi.Decl.Recv.List[0].Names) > 0 {
		names[fi.Decl.Recv.List[0].Names[0].Name] = *recv
		names["self"] = *recv
	}
	i := 0
	for _, fld := range fi.Decl.Type.Params.List {
		for _, n := range fld.Names {
			if i < len(args) {
				names[n.Name] = args[i]
			}
			i++
		}
		if len(fld.Names) == 0 {
			i++
		}
	}
	return names
}

func (u *Unit) callByContract(c *ast.CallExpr, fi *FuncInfo, blk *Block, recv *Value, args []Value, env *Env) []Outcome {
	if blk.Opts["holds-callbacks"] != "" {
		// the callee only stores the functions it is given (proved of the callee: "holds-callbacks" obligations); the point
		// after which their captured variables must not change is the next call that may run them
		for _, a := range args {
			if a.Sort == SFn && u.knownLits[a.S] != nil {
				u.heldLits = append(u.heldLits, u.knownLits[a.S])
			}
		}
	} else {
		for _, li := range u.heldLits {
			u.checkStableCaptures(env, li, c)
		}
		u.heldLits = nil
		for _, a := range args {
			if a.Sort == SFn {
				u.checkStableCaptures(env, u.knownLits[a.S], c)
			}
		}
	}
	u.usedContracts[fi.Key] = blk.Prop
	sig := fi.Obj.Type().(*types.Signature)
	scope := u.paramScope(fi, recv, args)
	// the callee's clauses read parameters at the types of this call's arguments when the representation is the same
	// (a map[T]R parameter instantiated with pointer values reads the pointer-valued map heap)
	if c != nil && !c.Ellipsis.IsValid() {
		i := 0
		for _, fld := range fi.Decl.Type.Params.List {
			for _, n := range fld.Names {
				if i < len(c.Args) && i < sig.Params().Len() {
					at := u.Info.TypeOf(c.Args[i])
					if sig.Variadic() && i == sig.Params().Len()-1 && at != nil {
						// the packed variadic slice has the element type of the arguments - when the elements are represented the
						// same way as the callee's generic element type (the slice itself was packed at the callee's type)
						if gs, ok := sig.Params().At(i).Type().(*types.Slice); ok && u.sortOf(gs.Elem()) == u.sortOf(at) {
							at = types.NewSlice(at)
						} else {
							at = nil
						}
					}
					if at != nil {
						if v, ok := scope[n.Name]; ok {
							if b, isB := at.(*types.Basic); !(isB && b.Info()&types.IsUntyped != 0) && u.sortOf(at) == v.Sort {
								scope[n.Name] = Value{v.Term, at}
							}
						}
					}
				}
				i++
			}
			if len(fld.Names) == 0 {
				i++
			}
		}
	}
	sc := &specCtx{names: scope, fi: fi, clockBase: env.clock, old: env.clone(), blk: blk}
	// ghost variables of the callee: passed by name from the caller's ghost of the same name (else arbitrary)
	type gbind struct {
		name string
		sort Sort
		ty   types.Type
		obj  types.Object
	}
	var ghosts []gbind
	for _, cl := range blk.Of("ghost") {
		name, sort, of := parseGhostDecl3(cl.Text)
		g := gbind{name: name, sort: sort}
		if of != "" {
			save := u.inSpec
			u.inSpec = true
			v := u.sv(u.parseSpec(Clause{Text: of, File: cl.File, Line: cl.Line}), env, sc)
			u.inSpec = save
			g.ty = &ghostArr{elem: v.Ty}
		}
		var entry Term
		// a ghost that caller and callee both declare is threaded through the call - except in a self-recursive call, where the
		// callee's ghost can be declared a different activation's variable (named <Func>_<ghost> afterwards like any witness)
		// ("opt recursive-ghosts=local"; by default the ghost is threaded there too, e.g. a counter carried down the recursion)
		if obj := u.ghosts[name]; obj != nil && env.vars[obj].Sort == sort && !(fi == u.FI && blk.Opts["recursive-ghosts"] == "local") {
			g.obj = obj
			entry = env.vars[obj]
		} else {
			entry = u.D.Fresh("gin_"+fi.Obj.Name()+"_"+name, sort)
		}
		scope[name] = Value{entry, g.ty}
		ghosts = append(ghosts, g)
	}
	sc.oldNames = map[string]Value{}
	for k, v := range scope {
		sc.oldNames[k] = v
	}
	// preconditions
	for i, cl := range blk.Of("requires") {
		label := cl.Label
		if label == "" {
			label = fmt.Sprintf("req%d", i)
		}
		t := u.specExprCtx(cl, env, sc)
		u.assert(env, fmt.Sprintf("pre/%s/%s@%s", fi.Key, label, u.siteTag(c)), "pre", c.Pos(), cl.Text, t)
		env.assume(t)
	}
	pre := sc.old
	// recursion: the callee's measure at this call is non-negative and smaller than the caller's at entry
	if fi == u.FI && u.litTarget == nil {
		u.checkDecreases(env, blk, sc, c, "")
	}
	// effects
	if !blk.Pure {
		mods := u.evalModifies(blk, env, sc)
		// what the callee may write must be writable by the caller: fresh since the caller's entry, or in its own modifies
		{
			var prefixes []string
			for pfx := range mods.refs {
				prefixes = append(prefixes, pfx)
			}
			sort.Strings(prefixes)
			for _, pfx := range prefixes {
				for _, r := range mods.refs[pfx] {
					sub := env.clone()
					sub.assume(Not(Same(r, Term{"nil_Ref", SRef})))
					if g, ok := mods.nonEmpty[r.S]; ok {
						sub.assume(g)
					}
					u.frameCheckRef(sub, r, "callee-modifies", c)
					u.adoptDecls(env, sub)
				}
			}
			if mods.all && !u.modifiesAll && !u.noFrame && !u.inSpec {
				u.safety(env, "frame", c.Pos(), u.exprText(c)+" (callee modifies all)", False)
			}
		}
		if blk.Opts["effects"] == "trace" {
			u.havocTrace(env)
		}
		if !mods.all && len(mods.refs) == 0 {
			// the callee writes nothing that exists: it can only allocate. Its postcondition then constrains the current
			// heaps at references allocated during the call (unconstrained so far); no heap needs to be replaced.
			clk0 := env.clock
			nc := u.D.Fresh("clk", SInt)
			u.assumeFact(env, le(clk0, nc))
			env.clock = nc
		} else {
			u.havocForCall(env, pre, mods)
		}
	}
	// results
	callTys := u.callResultTypes(u.Info, c)
	var vals []Value
	var gvals []Value
	for i := 0; i < sig.Results().Len(); i++ {
		rt := sig.Results().At(i).Type() // generic type
		rv := u.D.Fresh("r_"+fi.Obj.Name(), u.sortOf(rt))
		u.typeInvariant(env, rv, rt)
		gvals = append(gvals, Value{rv, rt})
		name := fmt.Sprintf("r%d", i)
		// in the callee's clauses the result has the type of this call's instantiation when that has the same representation
		// (e.g. map[T]R instantiated with a pointer-valued R reads the pointer-valued map heap)
		st := rt
		if i < len(callTys) && callTys[i] != nil && u.sortOf(callTys[i]) == rv.Sort {
			st = callTys[i]
		}
		scope[name] = Value{rv, st}
		sc.oldNames[name] = Value{rv, st}
		if n := sig.Results().At(i).Name(); n != "" {
			scope[n] = Value{rv, st}
			sc.oldNames[n] = Value{rv, st}
		}
	}
	for _, g := range ghosts {
		w := u.D.Fresh("w_"+fi.Obj.Name()+"_"+g.name, g.sort)
		scope[g.name] = Value{w, g.ty}
		env.alias[fi.Obj.Name()+"_"+g.name] = w // the caller may name the callee's witnesses (latest call wins)
		if g.obj != nil {
			env.vars[g.obj] = w
		}
	}
	// the caller may name the arguments and results of its latest call of this callee: <Callee>_arg_<param>, <Callee>_r<i>
	for name, v := range scope {
		if strings.HasPrefix(name, "r") && len(name) == 2 && name[1] >= '0' && name[1] <= '9' {
			env.alias[fi.Obj.Name()+"_"+name] = v.Term
			env.aliasTy[fi.Obj.Name()+"_"+name] = v.Ty
		}
	}
	// a callee that was handed function literals of this activation may have run them: the locals they assign are unknown now
	// (unless the callee only stores them: those run, at the earliest, at a later call)
	{
		given := map[string]bool{}
		for _, a := range args {
			if a.Sort == SFn && u.knownLits[a.S] != nil {
				given[a.S] = true
			}
		}
		if len(given) > 0 && blk.Opts["holds-callbacks"] == "" {
			u.havocLitAssigned(env, given)
		}
	}
	for name, v := range u.paramScope(fi, recv, args) {
		env.alias[fi.Obj.Name()+"_arg_"+name] = v.Term
		env.aliasTy[fi.Obj.Name()+"_arg_"+name] = v.Ty
		// also under the name the parameter had when the contracts were written
		for oldName, newName := range u.Prog.renames(fi) {
			if newName == name {
				env.alias[fi.Obj.Name()+"_arg_"+oldName] = v.Term
				env.aliasTy[fi.Obj.Name()+"_arg_"+oldName] = v.Ty
			}
		}
	}
	sc.post = true
	for _, cl := range blk.Of("ensures") {
		t := u.specExprCtx(cl, env, sc)
		if u.inClosure > 0 {
			u.calleeFacts[t.S] = true
		}
		env.assume(t)
	}
	for i, gv := range gvals {
		u.knownRefsOf(env, gv.Term)
		v := gv
		if i < len(callTys) {
			v = u.convert(gv, callTys[i], env)
		}
		vals = append(vals, v)
	}
	if blk.Trusted != "" {
		u.D.Trust("contract of " + fi.Key + " is trusted: " + blk.Trusted)
	}
	if len(vals) > 0 {
		u.registerReturnedLit(env, fi, blk, vals[0].Term, scope)
	}
	// "opt result-name=<f>": the (single) result of this heap-independent, deterministic function is named uf_<f>(arguments) in
	// specifications (a definition by naming; the function's own contract proves the unfolding equation of <f>)
	if rn := blk.Opts["result-name"]; rn != "" && len(gvals) == 1 {
		var ts []Term
		var ss []Sort
		if recv != nil {
			ts, ss = append(ts, recv.Term), append(ss, recv.Sort)
		}
		for _, a := range args {
			ts, ss = append(ts, a.Term), append(ss, a.Sort)
		}
		u.D.Fun("uf_"+rn, gvals[0].Sort, ss...)
		nameEq := Same(gvals[0].Term, App("uf_"+rn, gvals[0].Sort, ts...))
		if u.inClosure > 0 {
			u.calleeFacts[nameEq.S] = true
		}
		env.assume(nameEq)
		u.assumeUsed(fi.Key + " is a deterministic function of its arguments (its result is named " + rn + " in specifications)")
	}
	return ret(env, vals...)
}

func (u *Unit) siteTag(c *ast.CallExpr) string {
	// ordinal of this call among calls in the current function (stable under line shifts)
	owner := u.curFn[len(u.curFn)-1]
	n := 0
	found := -1
	ast.Inspect(owner.Decl, func(x ast.Node) bool {
		if ce, ok := x.(*ast.CallExpr); ok {
			if ce == c {
				found = n
			}
			n++
		}
		return true
	})
	return fmt.Sprintf("call%d", found)
}

// references of the modifies set that can index the heap called name
func modsFor(refs map[string][]Term, name string) []Term {
	var out []Term
	for prefix, ts := range refs {
		if prefix == "" || strings.HasPrefix(name, prefix) || (strings.HasPrefix(name, "AB_") && strings.HasPrefix(prefix, "FH_")) {
			out = append(out, ts...)
		}
	}
	return out
}

type modSet struct {
	all  bool
	refs map[string][]Term // heap name ("" = any heap) -> refs
	// for a slice target: the reference can only be written when the slice has cells (guard for the caller-side frame check)
	nonEmpty map[string]Term
}

func (u *Unit) evalModifies(blk *Block, env *Env, sc *specCtx) modSet {
	ms := modSet{refs: map[string][]Term{}, nonEmpty: map[string]Term{}}
	for _, cl := range blk.Of("modifies") {
		for _, part := range splitTopLevel(cl.Text, ',') {
			part = strings.TrimSpace(part)
			if part == "" {
				continue
			}
			if part == "all" {
				ms.all = true
				continue
			}
			sub := Clause{Kind: "modifies", Text: part, Line: cl.Line, File: cl.File}
			save := u.inSpec
			u.inSpec = true
			v := u.sv(u.parseSpec(sub), env, sc)
			u.inSpec = save
			t := v.Term
			// the static type tells which heaps the reference indexes (references of different Go types never alias)
			prefix := ""
			if v.Ty != nil {
				switch tt := types.Unalias(v.Ty).Underlying().(type) {
				case *types.Pointer:
					if si := u.maybeStruct(tt.Elem()); si != nil {
						prefix = "FH_" + si.GoName + "_"
					} else {
						prefix = "PH_"
					}
				case *types.Slice:
					prefix = "SH_"
				case *types.Map:
					prefix = "M"
				}
			}
			switch t.Sort {
			case SRef:
				ms.refs[prefix] = append(ms.refs[prefix], t)
			case SSlice:
				ms.refs["SH_"] = append(ms.refs["SH_"], sBase(t))
				ms.nonEmpty[sBase(t).S] = lt(IntLit(0), sCap(t))
			default:
				unsup("modifies target of sort %s: %s", t.Sort, part)
			}
		}
	}
	return ms
}

// after a call: every heap is replaced; objects that existed before the call and are not in the callee's
// modifies set keep their contents
func (u *Unit) havocForCall(env *Env, pre *Env, mods modSet) {
	clk0 := env.clock
	nc := u.D.Fresh("clk", SInt)
	env.assume(le(clk0, nc))
	env.clock = nc
	env.postFrame = &postFrame{pre: pre, clk0: clk0, mods: mods, done: map[string]bool{}}
	var names []string
	for n := range env.heaps {
		names = append(names, n)
	}
	sort.Strings(names)
	for _, n := range names {
		u.havocOneForCall(env, n, env.heaps[n])
	}
	u.assumeClosedHeaps(env)
}

type postFrame struct {
	pre  *Env
	clk0 Term
	mods modSet
	done map[string]bool
}

func (u *Unit) havocOneForCall(env *Env, name string, old Term) {
	pf := env.postFrame
	if pf.done[name] {
		return
	}
	pf.done[name] = true
	nh := u.D.Fresh("hc_"+name, old.Sort)
	env.heaps[name] = nh
	if name == mapLenName {
		r := u.D.Bound("r", SRef)
		env.assume(Forall([]Term{r}, le(IntLit(0), Select(nh, r)), []Term{Select(nh, r)}))
	}
	if pf.mods.all {
		return
	}
	r := u.D.Bound("r", SRef)
	guard := lt(u.birth(r), pf.clk0)
	for _, m := range modsFor(pf.mods.refs, name) {
		guard = And(guard, Not(Same(r, m)))
	}
	env.assume(Forall([]Term{r}, Imp(guard, Same(Select(nh, r), Select(old, r))), []Term{Select(nh, r)}))
}

// ---------------------------------------------------------------------------------------------
// interface method calls: by the interface's contract block if present, else an uninterpreted pure function

// "opt guarded=<field>:<lock>": every method call on self.<field> must happen while self.<lock> is held exclusively
func (u *Unit) guardedCall(c *ast.CallExpr, se *ast.SelectorExpr, env *Env) bool {
	if u.Block == nil || u.Block.Opts["guarded"] == "" {
		return false
	}
	parts := strings.SplitN(u.Block.Opts["guarded"], ":", 2)
	if len(parts) != 2 {
		return false
	}
	fse, ok := unparen(se.X).(*ast.SelectorExpr)
	if !ok || fse.Sel.Name != parts[0] {
		return false
	}
	lockKey := u.baseKey(fse.X, env) + "." + parts[1]
	u.assert(env, "perm/exclusive/"+u.exprText(se), "perm", c.Pos(), "call on the guarded field "+u.exprText(fse)+" requires "+u.exprText(fse.X)+"."+parts[1]+" held exclusively (Lock, not RLock)", boolTerm(env.held[lockKey] == "W"))
	env.delegated++
	return true
}

func (u *Unit) callInterfaceMethod(c *ast.CallExpr, se *ast.SelectorExpr, sel *types.Selection, env *Env) []Outcome {
	guarded := u.guardedCall(c, se, env)
	outs := u.callInterfaceMethod1(c, se, sel, env)
	if guarded && len(outs) == 1 && outs[0].kind == oReturn {
		for i, v := range outs[0].vals {
			outs[0].env.alias[fmt.Sprintf("_delegated%d", i)] = v.Term
			outs[0].env.aliasTy[fmt.Sprintf("_delegated%d", i)] = v.Ty
		}
		for i, a := range c.Args {
			if tv, ok := u.Info.Types[a]; ok && !tv.IsType() {
				av := u.eval(a, outs[0].env)
				outs[0].env.alias[fmt.Sprintf("_delegarg%d", i)] = av.Term
				outs[0].env.aliasTy[fmt.Sprintf("_delegarg%d", i)] = av.Ty
			}
		}
	}
	return outs
}

func (u *Unit) callInterfaceMethod1(c *ast.CallExpr, se *ast.SelectorExpr, sel *types.Selection, env *Env) []Outcome {
	recv := u.eval(se.X, env)
	m := sel.Obj().(*types.Func)
	sig := m.Type().(*types.Signature)
	iname := typeNameOf(sel.Recv())
	if iname == "" {
		iname = "iface"
	}
	args := u.evalArgs(c, sig, env)
	key := "(" + iname + ")." + m.Name()
	mode := u.dispatchMode(iname)
	if mode == "force" {
		if outs, ok := u.dispatchIface(c, se, sel, m, recv, args, env); ok {
			return outs
		}
	}
	if mode == "off" && u.effectfulCallbacks() {
		return u.opaqueIfaceEvent(c, se, iname, m, recv, args, env)
	}
	if fi := u.Prog.Funcs[key]; fi != nil {
		if blk := u.Prog.Contracts.Get(key, ""); blk != nil {
			return u.callByContract(c, fi, blk, &recv, args, env)
		}
	}
	if blk := u.Prog.Contracts.Get(key, ""); blk != nil {
		blk.Bound = true
		return u.callIfaceByContract(c, key, blk, m, recv, args, env)
	}
	if outs, ok := u.dispatchIface(c, se, sel, m, recv, args, env); ok {
		return outs
	}
	if isErrorType(sel.Recv()) && m.Name() == "Error" {
		u.D.Fun("err_msg", SStr, SErr)
		return ret(env, Value{App("err_msg", SStr, recv.Term), types.Typ[types.String]})
	}
	u.safety(env, "nil", c.Pos(), u.exprText(se.X)+" (interface method call)", Not(u.untyped(recv.Term)))
	u.note(fmt.Sprintf("interface method %s has no contract: modelled as a pure uninterpreted function", key))
	u.assumeUsed("interface method " + key + " is a deterministic function of receiver and arguments with no heap effect")
	argSorts := []Sort{recv.Sort}
	argTerms := []Term{recv.Term}
	for _, a := range args {
		argSorts = append(argSorts, a.Sort)
		argTerms = append(argTerms, a.Term)
	}
	var vals []Value
	for i := 0; i < sig.Results().Len(); i++ {
		rt := sig.Results().At(i).Type()
		rs := u.sortOf(rt)
		name := fmt.Sprintf("dyn_%s_%s_%d", iname, m.Name(), i)
		u.D.Fun(name, rs, argSorts...)
		v := u.define(env, "dyn", App(name, rs, argTerms...))
		if rs == SSlice {
			u.assumeGround(env, u.validSliceT(v))
		}
		u.knownRefsOf(env, v)
		vals = append(vals, Value{v, rt})
	}
	return ret(env, vals...)
}

func (u *Unit) callIfaceByContract(c *ast.CallExpr, key string, blk *Block, m *types.Func, recv Value, args []Value, env *Env) []Outcome {
	sig := m.Type().(*types.Signature)
	scope := map[string]Value{"self": recv}
	for i := 0; i < sig.Params().Len(); i++ {
		n := sig.Params().At(i).Name()
		if n == "" {
			n = fmt.Sprintf("p%d", i)
		}
		scope[n] = args[i]
		scope[fmt.Sprintf("p%d", i)] = args[i]
	}
	u.usedContracts[key] = blk.Prop
	sc := &specCtx{names: scope, clockBase: env.clock, old: env.clone(), blk: blk}
	for i, cl := range blk.Of("requires") {
		label := cl.Label
		if label == "" {
			label = fmt.Sprintf("req%d", i)
		}
		t := u.specExprCtx(cl, env, sc)
		u.assert(env, fmt.Sprintf("pre/%s/%s@%s", key, label, u.siteTag(c)), "pre", c.Pos(), cl.Text, t)
		env.assume(t)
	}
	if !blk.Pure {
		mods := u.evalModifies(blk, env, sc)
		u.havocForCall(env, sc.old, mods)
	}
	var vals []Value
	for i := 0; i < sig.Results().Len(); i++ {
		rt := sig.Results().At(i).Type()
		rv := u.D.Fresh("r_"+m.Name(), u.sortOf(rt))
		u.typeInvariant(env, rv, rt)
		vals = append(vals, Value{rv, rt})
		scope[fmt.Sprintf("r%d", i)] = Value{rv, rt}
	}
	sc.post = true
	for _, cl := range blk.Of("ensures") {
		env.assume(u.specExprCtx(cl, env, sc))
	}
	if blk.Trusted != "" {
		u.D.Trust("contract of " + key + " is trusted: " + blk.Trusted)
	}
	return ret(env, vals...)
}

var _ = token.NoPos

// a pure literal with a contract: forall params. requires => ensures[r0 := apply(clo, params)]
func (u *Unit) pureLitAxiom(lit *ast.FuncLit, sig *types.Signature, clo Term, blk *Block, env *Env) {
	sc := *u.ownCtx
	sc.bound = map[string]Value{}
	var bvs []Term
	for i := 0; i < sig.Params().Len(); i++ {
		p := sig.Params().At(i)
		bv := u.D.Bound(p.Name(), u.sortOf(p.Type()))
		sc.bound[p.Name()] = Value{bv, p.Type()}
		bvs = append(bvs, bv)
	}
	var lhs []Term
	for i := 0; i < sig.Results().Len(); i++ {
		name, rs, _ := u.applyName(sig, i)
		app := App(name, rs, append([]Term{clo}, bvs...)...)
		sc.bound[fmt.Sprintf("r%d", i)] = Value{app, sig.Results().At(i).Type()}
		lhs = append(lhs, app)
	}
	sc.old = env.clone()
	var pre, post []Term
	for _, cl := range blk.Of("requires") {
		pre = append(pre, u.specExprCtx(cl, env, &sc))
	}
	for _, cl := range blk.Of("ensures") {
		post = append(post, u.specExprCtx(cl, env, &sc))
	}
	body := Imp(And(pre...), And(post...))
	if len(bvs) == 0 {
		env.assume(body)
		return
	}
	env.assume(Forall(bvs, body, lhs))
}

// dynamic dispatch on an interface declared in the repository: one branch per implementing struct type (value receiver) whose
// method has a contract - the call is then by that contract on the unboxed receiver - plus a catch-all branch for every other
// dynamic type (the method as an uninterpreted deterministic function)
func (u *Unit) dispatchIface(c *ast.CallExpr, se *ast.SelectorExpr, sel *types.Selection, m *types.Func, recv Value, args []Value, env *Env) ([]Outcome, bool) {
	it, ok := types.Unalias(sel.Recv()).Underlying().(*types.Interface)
	if !ok || m.Pkg() == nil || !strings.Contains(m.Pkg().Path(), "TeaEntityLab") || recv.Sort != SVal {
		return nil, false
	}
	if u.dispatchMode(typeNameOf(sel.Recv())) == "off" {
		return nil, false
	}
	if u.Block != nil && u.Block.Opts["guarded"] != "" && u.dispatchMode(typeNameOf(sel.Recv())) != "force" {
		// a wrapper verified for the lock discipline treats the wrapped object as opaque: one delegated call
		return nil, false
	}
	type impl struct {
		fi  *FuncInfo
		blk *Block
		ty  types.Type
	}
	var impls []impl
	var keys []string
	for k := range u.Prog.Funcs {
		keys = append(keys, k)
	}
	sort.Strings(keys)
	for _, k := range keys {
		fi := u.Prog.Funcs[k]
		if fi.Obj.Name() != m.Name() || fi.Pkg.Types != m.Pkg() {
			continue
		}
		rv := fi.Obj.Type().(*types.Signature).Recv()
		if rv == nil {
			continue
		}
		var implTy types.Type
		named, ok := types.Unalias(rv.Type()).(*types.Named)
		if ok {
			if _, isStruct := named.Underlying().(*types.Struct); !isStruct {
				continue
			}
			implTy = named
		} else if pt, isPtr := types.Unalias(rv.Type()).(*types.Pointer); isPtr {
			// pointer receiver: the dynamic type is *Named
			pn, ok2 := types.Unalias(pt.Elem()).(*types.Named)
			if !ok2 {
				continue
			}
			named = pn
			implTy = pt
		} else {
			continue
		}
		ms := types.NewMethodSet(implTy)
		all := true
		for i := 0; i < it.NumMethods(); i++ {
			if ms.Lookup(it.Method(i).Pkg(), it.Method(i).Name()) == nil {
				all = false
			}
		}
		if !all {
			continue
		}
		blk := u.Prog.Contracts.Get(fi.Key, "")
		if blk == nil {
			continue
		}
		impls = append(impls, impl{fi, blk, implTy})
	}
	if len(impls) == 0 {
		return nil, false
	}
	u.safety(env, "nil", c.Pos(), u.exprText(se.X)+" (interface method call)", Not(u.untyped(recv.Term)))
	var outs []Outcome
	rest := env.clone()
	for _, im := range impls {
		e := rest.clone()
		okT, rv := u.typeAssert(e, recv, im.ty)
		if okT.S == "false" {
			continue
		}
		e.assume(okT)
		outs = append(outs, u.callByContract(c, im.fi, im.blk, &rv, args, e)...)
		u.adoptDecls(rest, e)
		rest.assume(Not(okT))
	}
	// every other dynamic type
	iname := typeNameOf(sel.Recv())
	sig := m.Type().(*types.Signature)
	u.assumeUsed("interface method (" + iname + ")." + m.Name() + " of a type without a contract is a deterministic function of receiver and arguments with no heap effect")
	argSorts := []Sort{recv.Sort}
	argTerms := []Term{recv.Term}
	for _, a := range args {
		argSorts = append(argSorts, a.Sort)
		argTerms = append(argTerms, a.Term)
	}
	var vals []Value
	for i := 0; i < sig.Results().Len(); i++ {
		rt := sig.Results().At(i).Type()
		rs := u.sortOf(rt)
		name := fmt.Sprintf("dyn_%s_%s_%d", iname, m.Name(), i)
		u.D.Fun(name, rs, argSorts...)
		v := u.define(rest, "dyn", App(name, rs, argTerms...))
		if rs == SSlice {
			u.assumeGround(rest, u.validSliceT(v))
		}
		u.knownRefsOf(rest, v)
		vals = append(vals, Value{v, rt})
	}
	outs = append(outs, ret(rest, vals...)...)
	return outs, true
}

// termination of self-recursion: "decreases <int expr>" over the parameters (evaluated for the call's arguments and for the
// unit's own entry values); a recursive unit without a decreases clause gets a failing obligation
func (u *Unit) checkDecreases(env *Env, blk *Block, callee *specCtx, at ast.Node, tag string) {
	cls := blk.Of("decreases")
	if len(cls) == 0 {
		u.assert(env, "decreases/missing"+tag+"@"+u.posTag(at), "decreases", at.Pos(), "a recursive call needs a decreases clause", False)
		return
	}
	cl := cls[0]
	save := u.inSpec
	u.inSpec = true
	mCallee := u.sv(u.parseSpec(cl), env, callee)
	own := *u.ownCtx
	mOwn := u.sv(u.parseSpec(cl), u.entry, &own)
	u.inSpec = save
	u.assert(env, "decreases"+tag+"@"+u.posTag(at), "decreases", at.Pos(), "0 <= measure at the recursive call < measure at entry: "+cl.Text, And(le(IntLit(0), mCallee.Term), lt(mCallee.Term, mOwn.Term)))
}

func (u *Unit) posTag(at ast.Node) string {
	if c, ok := at.(*ast.CallExpr); ok {
		return u.siteTag(c)
	}
	return "site"
}
