package main

// Evaluation of contract expressions (Go expression syntax + spec forms) into SMT terms.

import (
	"fmt"
	"go/ast"
	"go/parser"
	"go/token"
	"go/types"
	"strconv"
	"strings"
)

// type of a ghost array whose elements have a Go type (so that fields of its elements can be named in specs)
type ghostArr struct{ elem types.Type }

func (g *ghostArr) Underlying() types.Type { return g }
func (g *ghostArr) String() string         { return "ghost[]" + g.elem.String() }

type specCtx struct {
	names     map[string]Value // explicit scope (call by contract); nil = resolve in the unit's own function
	fi        *FuncInfo
	clockBase Term
	old       *Env
	post      bool
	blk       *Block
	bound     map[string]Value
	site      token.Pos
	oldNames  map[string]Value
}

func (u *Unit) parseSpec(c Clause) ast.Expr {
	txt := c.Text
	if !c.Expanded {
		txt = rewriteImplies(u.Prog.Contracts.Expand(c.Text))
	}
	e, err := parser.ParseExpr(txt)
	if err != nil {
		panic(unsupported{fmt.Sprintf("%s:%d: cannot parse spec expression %q: %v", c.File, c.Line, c.Text, err)})
	}
	return e
}

// own-function clause (invariants, own pre/post)
func (u *Unit) specExpr(c Clause, env *Env, sc *specCtx) Term {
	if sc == nil {
		sc = u.ownCtx
	}
	return u.specExprCtx(c, env, sc)
}

func (u *Unit) specExprCtx(c Clause, env *Env, sc *specCtx) Term {
	t := u.specTermCtx(c, env, sc)
	if t.Sort != SBool {
		panic(unsupported{fmt.Sprintf("%s:%d: spec clause is not boolean: %s", c.File, c.Line, c.Text)})
	}
	return t
}

func (u *Unit) specTermCtx(c Clause, env *Env, sc *specCtx) Term {
	e := u.parseSpec(c)
	save := u.inSpec
	u.inSpec = true
	defer func() { u.inSpec = save }()
	defer func() {
		if r := recover(); r != nil {
			if us, ok := r.(unsupported); ok {
				panic(unsupported{fmt.Sprintf("%s:%d: in %q: %s", c.File, c.Line, c.Text, us.msg)})
			}
			panic(r)
		}
	}()
	return u.sv(e, env, sc).Term
}

func (u *Unit) lookupName(name string, env *Env, sc *specCtx) (Value, bool) {
	// signature names are positional (see sigRenames); not for names bound by the clause itself (quantified variables etc.)
	isBound := false
	if sc != nil {
		_, isBound = sc.bound[name]
	}
	if sc != nil && !isBound {
		ctxFn := sc.fi
		if ctxFn == nil && len(u.curFn) > 0 {
			ctxFn = u.curFn[len(u.curFn)-1]
		}
		if alt, ok := u.Prog.sigRenames(ctxFn)[name]; ok {
			if v, ok := u.lookupName1(alt, env, sc); ok {
				u.note(fmt.Sprintf("contract name %q of %s read as %q (the signature variable at that position)", name, ctxFn.Key, alt))
				return v, true
			}
		}
	}
	if v, ok := u.lookupName1(name, env, sc); ok {
		return v, true
	}
	// the name may be the recorded (older) name of a variable that was renamed since the contract was written
	var fis []*FuncInfo
	if sc.fi != nil {
		fis = append(fis, sc.fi)
	}
	for i := len(u.curFn) - 1; i >= 0; i-- {
		fis = append(fis, u.curFn[i])
	}
	fis = append(fis, u.FI)
	for _, fi := range fis {
		if alt, ok := u.Prog.renames(fi)[name]; ok && alt != name {
			if v, ok := u.lookupName1(alt, env, sc); ok {
				u.note(fmt.Sprintf("contract name %q read as %q (a renamed local of the same type)", name, alt))
				return v, true
			}
		}
		if ord, ok := u.Prog.counterRenames(fi)[name]; ok {
			alt := fmt.Sprintf("_i%d", ord)
			if u.specLoopOrd == ord+1 {
				alt = "_i"
			}
			if v, ok := u.lookupName1(alt, env, sc); ok {
				u.note(fmt.Sprintf("contract name %q read as the iteration counter of loop %d (the index variable is gone; the loop ranges without a key)", name, ord))
				return v, true
			}
		}
	}
	return Value{}, false
}

func (u *Unit) lookupName1(name string, env *Env, sc *specCtx) (Value, bool) {
	if sc.bound != nil {
		if v, ok := sc.bound[name]; ok {
			return v, true
		}
	}
	if v, ok := u.traceName(env, name); ok {
		return v, true
	}
	if sc.names != nil {
		if v, ok := sc.names[name]; ok {
			return v, true
		}
	} else {
		if t, ok := env.alias[name]; ok {
			if ty, ok := env.aliasTy[name]; ok {
				return Value{t, ty}, true
			}
			return Value{t, types.Typ[types.Int]}, true
		}
		// result names
		if u.retVals != nil {
			if strings.HasPrefix(name, "r") {
				if i, err := strconv.Atoi(name[1:]); err == nil && i < len(u.retVals) {
					return u.retVals[i], true
				}
			}
			for i, r := range u.results {
				if r != nil && r.Name() == name && i < len(u.retVals) {
					return u.retVals[i], true
				}
			}
		}
		// live variables: those of the function being executed now (inlined callee or the unit's own function) win over
		// same-named variables of other inlined functions; among them the latest declaration wins
		var best types.Object
		bestRank := -1
		rank := func(obj types.Object) int {
			if len(u.curFn) > 0 {
				d := u.curFn[len(u.curFn)-1].Decl
				if obj.Pos() >= d.Pos() && obj.Pos() <= d.End() {
					return 2
				}
			}
			if u.FI != nil && obj.Pos() >= u.FI.Decl.Pos() && obj.Pos() <= u.FI.Decl.End() {
				return 1
			}
			return 0
		}
		for obj := range env.vars {
			if obj.Name() != name {
				continue
			}
			r := rank(obj)
			if best == nil || r > bestRank || (r == bestRank && obj.Pos() > best.Pos()) {
				best, bestRank = obj, r
			}
		}
		if best != nil {
			if gt, ok := u.ghostTy[best.Name()]; ok && u.ghosts[best.Name()] == best {
				return Value{env.vars[best], gt}, true
			}
			return Value{env.vars[best], best.Type()}, true
		}
		if name == "self" && u.recvObj != nil {
			if t, ok := env.vars[u.recvObj]; ok {
				return Value{t, u.recvObj.Type()}, true
			}
		}
	}
	switch name {
	case "true":
		return Value{True, types.Typ[types.Bool]}, true
	case "false":
		return Value{False, types.Typ[types.Bool]}, true
	case "nil":
		return Value{Term{"nil_Val", SVal}, types.Typ[types.UntypedNil]}, true
	}
	// package scope of the function the contract belongs to
	pkg := u.Pkg.Types
	if sc.fi != nil {
		pkg = sc.fi.Pkg.Types
	}
	if obj := pkg.Scope().Lookup(name); obj != nil {
		switch o := obj.(type) {
		case *types.Var:
			return u.global(o, env), true
		case *types.Const:
			return u.constVal(o.Val(), o.Type()), true
		}
	}
	return Value{}, false
}

func (u *Unit) sv(e ast.Expr, env *Env, sc *specCtx) Value {
	intT := types.Typ[types.Int]
	boolT := types.Typ[types.Bool]
	switch x := e.(type) {
	case *ast.ParenExpr:
		return u.sv(x.X, env, sc)
	case *ast.BasicLit:
		switch x.Kind {
		case token.INT:
			n, _ := strconv.ParseInt(x.Value, 0, 64)
			return Value{IntLit(n), intT}
		case token.STRING:
			s, _ := strconv.Unquote(x.Value)
			return Value{u.strLit(s), types.Typ[types.String]}
		}
		unsup("literal %s in spec", x.Value)
	case *ast.Ident:
		v, ok := u.lookupName(x.Name, env, sc)
		if !ok {
			unsup("unknown name %q in spec", x.Name)
		}
		return v
	case *ast.UnaryExpr:
		v := u.sv(x.X, env, sc)
		switch x.Op {
		case token.NOT:
			return Value{Not(v.Term), boolT}
		case token.SUB:
			if v.Sort == SInt {
				return Value{App("-", SInt, v.Term), intT}
			}
		}
		unsup("unary %s in spec", x.Op)
	case *ast.BinaryExpr:
		l := u.sv(x.X, env, sc)
		r := u.sv(x.Y, env, sc)
		switch x.Op {
		case token.LAND:
			return Value{And(l.Term, r.Term), boolT}
		case token.LOR:
			return Value{Or(l.Term, r.Term), boolT}
		case token.EQL, token.NEQ:
			// a struct value is never nil
			if (isNilV(l) && strings.HasPrefix(string(r.Sort), "St_")) || (isNilV(r) && strings.HasPrefix(string(l.Sort), "St_")) {
				return Value{boolTerm(x.Op == token.NEQ), boolT}
			}
			l, r = u.specUnify(l, r, env)
			var eq Term
			if l.Sort == SSlice && (isNilV(r) || isNilV(l)) {
				o := l
				if isNilV(l) {
					o = r
				}
				eq = Same(sBase(o.Term), Term{"nil_Ref", SRef})
			} else if l.Sort.IsFP() {
				eq = Same(l.Term, r.Term) // spec equality on floats is bit identity (== in Go is available as fpeq)
			} else {
				eq = Same(l.Term, r.Term)
			}
			if x.Op == token.NEQ {
				eq = Not(eq)
			}
			return Value{eq, boolT}
		case token.LSS, token.LEQ, token.GTR, token.GEQ:
			l, r = u.specUnify(l, r, env)
			return Value{u.compare(x.Op, l, r), boolT}
		case token.ADD, token.SUB, token.MUL, token.QUO, token.REM:
			l, r = u.specUnify(l, r, env)
			if l.Sort == SInt {
				switch x.Op {
				case token.ADD:
					return Value{add(l.Term, r.Term), intT}
				case token.SUB:
					return Value{sub(l.Term, r.Term), intT}
				case token.MUL:
					return Value{App("*", SInt, l.Term, r.Term), intT}
				case token.QUO:
					return Value{App("div", SInt, l.Term, r.Term), intT}
				case token.REM:
					return Value{App("mod", SInt, l.Term, r.Term), intT}
				}
			}
			return u.arith(x.Op, l, r, env, token.NoPos)
		}
		unsup("binary %s in spec", x.Op)
	case *ast.SelectorExpr:
		base := u.sv(x.X, env, sc)
		return u.specField(base, x.Sel.Name, env)
	case *ast.StarExpr:
		p := u.sv(x.X, env, sc)
		pt, ok := types.Unalias(p.Ty).Underlying().(*types.Pointer)
		if !ok {
			unsup("deref of non-pointer in spec")
		}
		return Value{u.ptrLoad(env, p.Term, pt.Elem()), pt.Elem()}
	case *ast.IndexExpr:
		b := u.sv(x.X, env, sc)
		i := u.sv(x.Index, env, sc)
		if ga, ok := b.Ty.(*ghostArr); ok {
			return Value{Select(b.Term, i.Term), ga.elem}
		}
		if b.Ty != nil {
			switch t := types.Unalias(b.Ty).Underlying().(type) {
			case *types.Slice:
				return Value{u.sliceGet(env, b.Term, u.sortOf(t.Elem()), i.Term), t.Elem()}
			case *types.Map:
				k := u.convert(i, t.Key(), env)
				val, ok := u.mapGet(env, b.Term, t, k.Term)
				return Value{Ite(ok, val, u.zero(t.Elem())), t.Elem()}
			}
		}
		if strings.HasPrefix(string(b.Sort), "(Array ") {
			return Value{Select(b.Term, i.Term), nil}
		}
		unsup("index in spec on value of sort %s", b.Sort)
	case *ast.SliceExpr:
		b := u.sv(x.X, env, sc)
		lo := IntLit(0)
		if x.Low != nil {
			lo = u.sv(x.Low, env, sc).Term
		}
		hi := sLen(b.Term)
		if x.High != nil {
			hi = u.sv(x.High, env, sc).Term
		}
		return Value{mkSlice(sBase(b.Term), add(sOff(b.Term), lo), sub(hi, lo), sub(sCap(b.Term), lo)), b.Ty}
	case *ast.CallExpr:
		return u.specCall(x, env, sc)
	}
	unsup("spec expression %T", e)
	return Value{}
}

func safeSort(u *Unit, t types.Type) Sort {
	if _, ok := t.(*ghostArr); ok {
		return ""
	}
	return u.sortOf(t)
}

func litInt(t Term) (int64, bool) {
	if t.Sort != SInt {
		return 0, false
	}
	n, err := strconv.ParseInt(t.S, 10, 64)
	if err != nil {
		return 0, false
	}
	return n, true
}

func isNilV(v Value) bool {
	return v.S == "nil_Val" && v.Ty == types.Typ[types.UntypedNil]
}

// make two operands comparable: nil literal adapts, concrete vs Val boxes
func (u *Unit) specUnify(l, r Value, env *Env) (Value, Value) {
	if isNilV(l) && !isNilV(r) {
		if r.Sort == SSlice {
			return l, r
		}
		return Value{nilOfSort(r.Sort), r.Ty}, r
	}
	if isNilV(r) && !isNilV(l) {
		if l.Sort == SSlice {
			return l, r
		}
		return l, Value{nilOfSort(l.Sort), l.Ty}
	}
	if l.Sort == r.Sort {
		return l, r
	}
	if l.Sort == SVal && r.Sort != SVal {
		return l, u.specBox(r, env)
	}
	if r.Sort == SVal && l.Sort != SVal {
		return u.specBox(l, env), r
	}
	// integer literal against a float
	if l.Sort.IsFP() && r.Sort == SInt {
		return l, Value{intToFP(r.Term, l.Sort), l.Ty}
	}
	if r.Sort.IsFP() && l.Sort == SInt {
		return Value{intToFP(l.Term, r.Sort), r.Ty}, r
	}
	// integer literal against a bit-vector
	if n, ok := l.Sort.IsBV(); ok && r.Sort == SInt {
		return l, Value{intToBV(r.Term, n), l.Ty}
	}
	if n, ok := r.Sort.IsBV(); ok && l.Sort == SInt {
		return Value{intToBV(l.Term, n), r.Ty}, r
	}
	unsup("spec: operands of sorts %s and %s", l.Sort, r.Sort)
	return l, r
}

func (u *Unit) specBox(v Value, env *Env) Value {
	b := u.box(v)
	return Value{b.Term, types.NewInterfaceType(nil, nil)}
}

func intToBV(t Term, n int) Term {
	// only literals
	s := t.S
	neg := false
	if strings.HasPrefix(s, "(- ") {
		neg = true
		s = strings.TrimSuffix(s[3:], ")")
	}
	if _, err := strconv.ParseUint(s, 10, 64); err != nil {
		unsup("spec: non-literal integer used as bit-vector")
	}
	lit := Term{fmt.Sprintf("(_ bv%s %d)", s, n), BV(n)}
	if neg {
		return App("bvneg", BV(n), lit)
	}
	return lit
}

func intToFP(t Term, s Sort) Term {
	str := t.S
	neg := false
	if strings.HasPrefix(str, "(- ") {
		neg = true
		str = strings.TrimSuffix(str[3:], ")")
	}
	n, err := strconv.ParseInt(str, 10, 64)
	if err != nil {
		unsup("spec: non-literal integer used as float")
	}
	if neg {
		n = -n
	}
	if s == SF32 {
		return f32Lit(float32(n))
	}
	return f64Lit(float64(n))
}

func nilOfSort(s Sort) Term {
	switch s {
	case SRef:
		return Term{"nil_Ref", SRef}
	case SErr:
		return Term{"nil_Err", SErr}
	case SFn:
		return Term{"nil_Fn", SFn}
	case SVal:
		return Term{"nil_Val", SVal}
	case SInt:
		return IntLit(0) // reflect.Type nil
	}
	unsup("nil of sort %s", s)
	return Term{}
}

func (u *Unit) specField(base Value, name string, env *Env) Value {
	if base.Ty == nil {
		unsup("field %s of untyped spec value", name)
	}
	t := types.Unalias(base.Ty)
	// find field (possibly through embedding)
	obj, path, _ := types.LookupFieldOrMethod(t, true, u.Pkg.Types, name)
	if obj == nil {
		// unexported field of another package
		for _, p := range u.Prog.Pkgs {
			if o, pa, _ := types.LookupFieldOrMethod(t, true, p.Types, name); o != nil {
				obj, path = o, pa
				break
			}
		}
	}
	if _, ok := obj.(*types.Var); !ok {
		unsup("spec: no field %s in %s", name, base.Ty)
	}
	save := u.inSpec
	u.inSpec = true
	v := u.fieldPath(base, path, env, &ast.Ident{Name: name})
	u.inSpec = save
	return v
}

func (u *Unit) specArgs(x *ast.CallExpr, env *Env, sc *specCtx) []Value {
	var out []Value
	for _, a := range x.Args {
		out = append(out, u.sv(a, env, sc))
	}
	return out
}

func (u *Unit) withBound(sc *specCtx, name string, v Value) *specCtx {
	n := *sc
	n.bound = map[string]Value{}
	for k, vv := range sc.bound {
		n.bound[k] = vv
	}
	n.bound[name] = v
	return &n
}

func (u *Unit) specCall(x *ast.CallExpr, env *Env, sc *specCtx) Value {
	intT := types.Typ[types.Int]
	boolT := types.Typ[types.Bool]
	fname := ""
	if id, ok := unparen(x.Fun).(*ast.Ident); ok {
		fname = id.Name
	}
	switch fname {
	case "imp":
		a := u.sv(x.Args[0], env, sc)
		b := u.sv(x.Args[1], env, sc)
		return Value{Imp(a.Term, b.Term), boolT}
	case "iff":
		a := u.sv(x.Args[0], env, sc)
		b := u.sv(x.Args[1], env, sc)
		return Value{Same(a.Term, b.Term), boolT}
	case "ite":
		c := u.sv(x.Args[0], env, sc)
		a := u.sv(x.Args[1], env, sc)
		b := u.sv(x.Args[2], env, sc)
		a, b = u.specUnify(a, b, env)
		return Value{Ite(c.Term, a.Term, b.Term), a.Ty}
	case "forall", "exists":
		// forall(i, lo, hi, body)
		name := x.Args[0].(*ast.Ident).Name
		lo := u.sv(x.Args[1], env, sc)
		hi := u.sv(x.Args[2], env, sc)
		if a, ok1 := litInt(lo.Term); ok1 {
			if b, ok2 := litInt(hi.Term); ok2 && b-a <= 4 {
				// small constant range: expand
				var parts []Term
				for v := a; v < b; v++ {
					parts = append(parts, u.sv(x.Args[3], env, u.withBound(sc, name, Value{IntLit(v), intT})).Term)
				}
				if fname == "forall" {
					return Value{And(parts...), boolT}
				}
				return Value{Or(parts...), boolT}
			}
		}
		bv := u.D.Bound(name, SInt)
		body := u.sv(x.Args[3], env, u.withBound(sc, name, Value{bv, intT}))
		rng := And(le(lo.Term, bv), lt(bv, hi.Term))
		if fname == "forall" {
			return Value{Forall([]Term{bv}, Imp(rng, body.Term)), boolT}
		}
		return Value{Exists([]Term{bv}, And(rng, body.Term)), boolT}
	case "reveal":
		// reveal(A, x): true; mentions the token that lets the solver unfold the opaque definition of A at x
		a := u.sv(x.Args[0], env, sc)
		v := u.sv(x.Args[1], env, sc)
		tok, ok := u.lamTok[a.S]
		if !ok {
			return Value{True, boolT} // not an opaque definition in this context (e.g. a callee's witness): nothing to reveal
		}
		if v.Sort != SVal {
			v = u.specBox(v, env)
		}
		return Value{App(tok, SBool, v.Term), boolT}
	case "lamr", "lami", "lamv", "lamvo":
		// lamr(r, body): the array A with A[r] == body for every r (Ref-indexed); lami: Int-indexed
		name := x.Args[0].(*ast.Ident).Name
		ks := SRef
		var kty types.Type
		if fname == "lami" {
			ks, kty = SInt, intT
		}
		if fname == "lamv" || fname == "lamvo" {
			ks, kty = SVal, types.NewInterfaceType(nil, nil)
		}
		bv := u.D.Bound(name, ks)
		body := u.sv(x.Args[1], env, u.withBound(sc, name, Value{bv, kty}))
		arr := u.D.Fresh("lam", ArrS(ks, body.Sort))
		ax := Forall([]Term{bv}, Same(Select(arr, bv), body.Term), []Term{Select(arr, bv)})
		if fname == "lamvo" {
			// opaque: the definition is only instantiated where reveal(arr, x) is mentioned
			u.D.n++
			tok := fmt.Sprintf("reveal!%d", u.D.n)
			u.D.Fun(tok, SBool, ks)
			u.lamTok[arr.S] = tok
			ax = Forall([]Term{bv}, And(App(tok, SBool, bv), Same(Select(arr, bv), body.Term)), []Term{App(tok, SBool, bv)})
		}
		for _, ov := range sc.bound {
			if strings.Contains(ov.S, "?") && strings.Contains(ax.S, ov.S) {
				unsup("lamr/lami/lamv under a quantifier")
			}
		}
		env.assume(ax)
		return Value{arr, nil}
	case "forall2":
		// forall2(k, lo, hi, l, lo2, hi2, body): one quantifier over two integer variables
		n1 := x.Args[0].(*ast.Ident).Name
		n2 := x.Args[3].(*ast.Ident).Name
		lo1 := u.sv(x.Args[1], env, sc)
		hi1 := u.sv(x.Args[2], env, sc)
		if a, ok1 := litInt(lo1.Term); ok1 {
			if b, ok2 := litInt(hi1.Term); ok2 && b-a <= 4 {
				var parts []Term
				for v := a; v < b; v++ {
					scv := u.withBound(sc, n1, Value{IntLit(v), intT})
					bj := u.D.Bound(n2, SInt)
					l2 := u.sv(x.Args[4], env, scv)
					h2 := u.sv(x.Args[5], env, scv)
					bd := u.sv(x.Args[6], env, u.withBound(scv, n2, Value{bj, intT}))
					parts = append(parts, Forall([]Term{bj}, Imp(And(le(l2.Term, bj), lt(bj, h2.Term)), bd.Term)))
				}
				return Value{And(parts...), boolT}
			}
		}
		b1 := u.D.Bound(n1, SInt)
		b2 := u.D.Bound(n2, SInt)
		sc1 := u.withBound(sc, n1, Value{b1, intT})
		lo2 := u.sv(x.Args[4], env, sc1)
		hi2 := u.sv(x.Args[5], env, sc1)
		sc2 := u.withBound(sc1, n2, Value{b2, intT})
		body := u.sv(x.Args[6], env, sc2)
		rng := And(le(lo1.Term, b1), lt(b1, hi1.Term), le(lo2.Term, b2), lt(b2, hi2.Term))
		return Value{Forall([]Term{b1, b2}, Imp(rng, body.Term)), boolT}
	case "forallv", "existsv", "forallr", "existsr", "foralls":
		name := x.Args[0].(*ast.Ident).Name
		var s Sort = SVal
		var ty types.Type = types.NewInterfaceType(nil, nil)
		if strings.HasSuffix(fname, "r") {
			s, ty = SRef, nil
		}
		if fname == "foralls" {
			s, ty = SStr, types.Typ[types.String]
		}
		bv := u.D.Bound(name, s)
		body := u.sv(x.Args[1], env, u.withBound(sc, name, Value{bv, ty}))
		if strings.HasPrefix(fname, "forall") {
			return Value{Forall([]Term{bv}, body.Term), boolT}
		}
		return Value{Exists([]Term{bv}, body.Term), boolT}
	case "old":
		if sc.old == nil {
			unsup("old() without entry state")
		}
		n := *sc
		n.post = false
		if sc.oldNames != nil {
			n.names = sc.oldNames
		}
		return u.sv(x.Args[0], sc.old, &n)
	case "oldheap":
		// the expression with the CURRENT values of variables but read in the heaps as they were at entry
		// (for inputs that are never written this is the same thing, without going through frame axioms)
		base := u.entry
		if sc.names != nil && sc.old != nil {
			base = sc.old
		}
		e2 := env.clone()
		for n, h := range base.heaps {
			e2.heaps[n] = h
		}
		for n := range e2.heaps {
			if _, ok := base.heaps[n]; !ok {
				delete(e2.heaps, n)
			}
		}
		v := u.sv(x.Args[0], e2, sc)
		// heaps first touched during this evaluation are entry heaps too; make them known to env
		for n, h := range e2.heaps {
			if _, ok := env.heaps[n]; !ok {
				env.heaps[n] = h
			}
		}
		return v
	case "len":
		v := u.sv(x.Args[0], env, sc)
		if v.Sort == SSlice {
			return Value{sLen(v.Term), intT}
		}
		if v.Sort == SRef && v.Ty != nil {
			if _, ok := types.Unalias(v.Ty).Underlying().(*types.Map); ok {
				return Value{Ite(Same(v.Term, Term{"nil_Ref", SRef}), IntLit(0), u.mapLen(env, v.Term)), intT}
			}
		}
		unsup("len() of sort %s in spec", v.Sort)
	case "cap":
		v := u.sv(x.Args[0], env, sc)
		return Value{sCap(v.Term), intT}
	case "base":
		v := u.sv(x.Args[0], env, sc)
		return Value{sBase(v.Term), nil}
	case "birth":
		v := u.sv(x.Args[0], env, sc)
		r := v.Term
		if v.Sort == SSlice {
			r = sBase(v.Term)
		}
		return Value{u.birth(r), intT}
	case "off":
		v := u.sv(x.Args[0], env, sc)
		return Value{sOff(v.Term), intT}
	case "fresh":
		v := u.sv(x.Args[0], env, sc)
		r := v.Term
		if v.Sort == SSlice {
			r = sBase(v.Term)
		}
		if r.Sort != SRef {
			unsup("fresh() of sort %s", r.Sort)
		}
		// allocated during this activation (not before its entry, and by now)
		return Value{And(le(sc.clockBase, u.birth(r)), lt(u.birth(r), env.clock)), boolT}
	case "freshOrNil":
		v := u.sv(x.Args[0], env, sc)
		r := v.Term
		if v.Sort == SSlice {
			r = sBase(v.Term)
		}
		return Value{Or(Same(r, Term{"nil_Ref", SRef}), And(le(sc.clockBase, u.birth(r)), lt(u.birth(r), env.clock))), boolT}
	case "has":
		m := u.sv(x.Args[0], env, sc)
		k := u.sv(x.Args[1], env, sc)
		mt, ok := types.Unalias(m.Ty).Underlying().(*types.Map)
		if !ok {
			unsup("has() on non-map")
		}
		kk := u.convert(k, mt.Key(), env)
		_, okT := u.mapGet(env, m.Term, mt, kk.Term)
		return Value{okT, boolT}
	case "seqeq":
		// seqeq(a, b): same length and same elements
		a := u.sv(x.Args[0], env, sc)
		b := u.sv(x.Args[1], env, sc)
		return Value{u.seqEq(env, a, env, b), boolT}
	case "unchanged":
		// unchanged(s): the sequence s denotes now equals the one it denoted at entry
		a := u.sv(x.Args[0], env, sc)
		n := *sc
		n.post = false
		b := u.sv(x.Args[0], sc.old, &n)
		return Value{u.seqEq(env, a, sc.old, b), boolT}
	case "absent":
		v := u.sv(x.Args[0], env, sc)
		v = u.convert(v, types.NewInterfaceType(nil, nil), env)
		u.useReflect = true
		return Value{Or(u.untyped(v.Term), And(Same(u.rkind(v.Term), IntLit(kPtr)), u.nilref(v.Term))), boolT}
	case "untyped":
		v := u.sv(x.Args[0], env, sc)
		return Value{u.untyped(v.Term), boolT}
	case "rkind":
		v := u.sv(x.Args[0], env, sc)
		return Value{u.rkind(v.Term), intT}
	case "rfield":
		v := u.sv(x.Args[0], env, sc)
		n := u.sv(x.Args[1], env, sc)
		return Value{u.rfield(u.specBox(v, env).Term, n.Term), types.NewInterfaceType(nil, nil)}
	case "rindirect":
		v := u.specBox(u.sv(x.Args[0], env, sc), env)
		return Value{Ite(Same(u.rkind(v.Term), IntLit(kPtr)), u.relem(env, v.Term), v.Term), types.NewInterfaceType(nil, nil)}
	case "rtype":
		v := u.sv(x.Args[0], env, sc)
		return Value{u.rtype(v.Term), intT}
	case "asptr":
		// asptr(v, TypeName): the boxed pointer v as a *TypeName
		v := u.sv(x.Args[0], env, sc)
		tn := x.Args[1].(*ast.Ident).Name
		var named types.Type
		for _, p := range u.Prog.Pkgs {
			if o := p.Types.Scope().Lookup(tn); o != nil {
				if _, ok := o.(*types.TypeName); ok {
					named = o.Type()
					break
				}
			}
		}
		if named == nil || v.Sort != SVal {
			unsup("asptr: unknown type or non-interface value")
		}
		_, un := u.boxFn(SRef)
		return Value{App(un, SRef, v.Term), types.NewPointer(named)}
	case "isptr":
		// isptr(v, TypeName): the dynamic type of the interface value v is *TypeName
		v := u.sv(x.Args[0], env, sc)
		tn := x.Args[1].(*ast.Ident).Name
		var named types.Type
		for _, p := range u.Prog.Pkgs {
			if o := p.Types.Scope().Lookup(tn); o != nil {
				if _, ok := o.(*types.TypeName); ok {
					named = o.Type()
					break
				}
			}
		}
		if named == nil || v.Sort != SVal {
			unsup("isptr: unknown type or non-interface value")
		}
		if !hasTypeParam(named) {
			if nn, ok := named.(*types.Named); ok && nn.TypeParams().Len() == 0 {
				// a concrete pointer type has a type id (what the code's type assertions test)
				return Value{Same(u.rtype(v.Term), IntLit(int64(u.typeID(types.NewPointer(named))))), boolT}
			}
		}
		fn := dynIsName(types.NewPointer(named))
		u.D.Fun(fn, SBool, SVal)
		u.isaTyped(fn, v.Term)
		return Value{App(fn, SBool, v.Term), boolT}
	case "as", "isa", "impl":
		// as(x, TypeName): x unboxed as the named struct type; isa(x, TypeName): dynamic type test; impl(x, IfaceName)
		v := u.sv(x.Args[0], env, sc)
		tn := x.Args[1].(*ast.Ident).Name
		var named types.Type
		for _, p := range u.Prog.Pkgs {
			if o := p.Types.Scope().Lookup(tn); o != nil {
				if _, ok := o.(*types.TypeName); ok {
					named = o.Type()
					break
				}
			}
		}
		if named == nil {
			unsup("unknown type %s in %s()", tn, fname)
		}
		if v.Sort != SVal {
			unsup("%s() on a non-interface value", fname)
		}
		switch fname {
		case "as":
			s2 := u.sortOf(named)
			_, un := u.boxFn(s2)
			return Value{App(un, s2, v.Term), named}
		case "isa":
			if !hasTypeParam(named) {
				if _, isGeneric := named.(*types.Named); isGeneric && named.(*types.Named).TypeParams().Len() == 0 {
					return Value{Same(u.rtype(v.Term), IntLit(int64(u.typeID(named)))), boolT}
				}
			}
			fn := dynIsName(named)
			u.D.Fun(fn, SBool, SVal)
			u.isaTyped(fn, v.Term)
			u.isaOrigin(fn, named, v.Term)
			return Value{App(fn, SBool, v.Term), boolT}
		default:
			fn := dynImplName(named)
			u.D.Fun(fn, SBool, SVal)
			return Value{App(fn, SBool, v.Term), boolT}
		}
	case "ufv", "ufb", "ufi":
		// uninterpreted observer: ufv("name", args...) : Val, ufb: Bool, ufi: Int
		lit, ok := x.Args[0].(*ast.BasicLit)
		if !ok {
			unsup("%s needs a string name", fname)
		}
		name, _ := strconv.Unquote(lit.Value)
		var ts []Term
		var ss []Sort
		for _, a := range x.Args[1:] {
			v := u.sv(a, env, sc)
			ts = append(ts, v.Term)
			ss = append(ss, v.Sort)
		}
		rs, rt := SVal, types.Type(types.NewInterfaceType(nil, nil))
		if fname == "ufb" {
			rs, rt = SBool, boolT
		} else if fname == "ufi" {
			rs, rt = SInt, intT
		}
		u.D.Fun("uf_"+name, rs, ss...)
		return Value{App("uf_"+name, rs, ts...), rt}
	case "asslice":
		// asslice(v): the boxed slice value v as a []interface{} (elements are interface values)
		v := u.sv(x.Args[0], env, sc)
		if v.Sort != SVal {
			unsup("asslice on a non-interface value")
		}
		_, un := u.boxFn(SSlice)
		return Value{App(un, SSlice, v.Term), types.NewSlice(types.NewInterfaceType(nil, nil))}
	case "dyn":
		// dyn("Iface.Method", recv, args...): the result of an interface method of a type without contract, as the deterministic
		// uninterpreted function the engine uses for such calls
		lit, ok := x.Args[0].(*ast.BasicLit)
		if !ok {
			unsup("dyn() needs a string")
		}
		name, _ := strconv.Unquote(lit.Value)
		parts := strings.SplitN(name, ".", 2)
		if len(parts) != 2 {
			unsup("dyn(): want Iface.Method")
		}
		var m *types.Func
		for _, p := range u.Prog.Pkgs {
			if o := p.Types.Scope().Lookup(parts[0]); o != nil {
				if it, ok := o.Type().Underlying().(*types.Interface); ok {
					for i := 0; i < it.NumMethods(); i++ {
						if it.Method(i).Name() == parts[1] {
							m = it.Method(i)
						}
					}
				}
			}
		}
		if m == nil {
			unsup("dyn(): unknown interface method %s", name)
		}
		sig := m.Type().(*types.Signature)
		var ts []Term
		var ss []Sort
		for i, a := range x.Args[1:] {
			v := u.sv(a, env, sc)
			if i > 0 && i-1 < sig.Params().Len() {
				v = u.convert(v, sig.Params().At(i-1).Type(), env)
			}
			ts = append(ts, v.Term)
			ss = append(ss, v.Sort)
		}
		rt := sig.Results().At(0).Type()
		rs := u.sortOf(rt)
		fn := fmt.Sprintf("dyn_%s_%s_0", parts[0], parts[1])
		u.D.Fun(fn, rs, ss...)
		return Value{App(fn, rs, ts...), rt}
	case "replaceAll":
		u.D.Fun("str_replaceall", SStr, SStr, SStr, SStr)
		a, b, c3 := u.sv(x.Args[0], env, sc), u.sv(x.Args[1], env, sc), u.sv(x.Args[2], env, sc)
		return Value{App("str_replaceall", SStr, a.Term, b.Term, c3.Term), types.Typ[types.String]}
	case "sprintf":
		// fmt.Sprintf(format, args...) as the engine models it: an uninterpreted function of the format and the boxed arguments
		// (a literal format of text and %s verbs over string arguments: the concatenation it denotes, as in lib.go)
		if bl, ok := x.Args[0].(*ast.BasicLit); ok && bl.Kind == token.STRING {
			if f, err := strconv.Unquote(bl.Value); err == nil {
				var as []Term
				allStr := true
				for _, a := range x.Args[1:] {
					v := u.sv(a, env, sc)
					if v.Sort != SStr {
						allStr = false
					}
					as = append(as, v.Term)
				}
				if allStr {
					if t, ok := u.sprintfChain(f, as); ok {
						return Value{t, types.Typ[types.String]}
					}
				}
			}
		}
		var ts []Term
		var ss []Sort
		for i, a := range x.Args {
			v := u.sv(a, env, sc)
			if i > 0 || v.Sort != SStr {
				v = u.specBox(v, env)
			}
			ts = append(ts, v.Term)
			ss = append(ss, v.Sort)
		}
		fnm := fmt.Sprintf("sprintf_%d", len(ts))
		u.D.Fun(fnm, SStr, ss...)
		return Value{App(fnm, SStr, ts...), types.Typ[types.String]}
	case "urlString":
		u.D.Fun("url_string", SStr, SRef)
		a := u.sv(x.Args[0], env, sc)
		return Value{App("url_string", SStr, a.Term), types.Typ[types.String]}
	case "reqBodyOf":
		u.D.Fun("req_body_of", SVal, SVal)
		a := u.specBox(u.sv(x.Args[0], env, sc), env)
		return Value{App("req_body_of", SVal, a.Term), types.NewInterfaceType(nil, nil)}
	case "hdrAdded":
		u.D.Fun("hdr_added", SSlice, SSlice, SStr)
		a, b := u.sv(x.Args[0], env, sc), u.sv(x.Args[1], env, sc)
		return Value{App("hdr_added", SSlice, a.Term, b.Term), types.NewSlice(types.Typ[types.String])}
	case "chancap":
		// capacity of a channel
		u.D.Fun("chan_cap", SInt, SRef)
		a := u.sv(x.Args[0], env, sc)
		return Value{App("chan_cap", SInt, a.Term), intT}
	case "regexMatch":
		// the library's regexp.MatchString as an uninterpreted pair (matches, error)
		u.D.Fun("regex_match", SBool, SStr, SStr)
		a, b := u.sv(x.Args[0], env, sc), u.sv(x.Args[1], env, sc)
		return Value{App("regex_match", SBool, a.Term, b.Term), boolT}
	case "regexErr":
		u.D.Fun("regex_err", SErr, SStr)
		a := u.sv(x.Args[0], env, sc)
		return Value{App("regex_err", SErr, a.Term), errType()}
	case "method":
		// method("Iface.Name"): the identity of an interface method in call events of kind 2
		lit, ok := x.Args[0].(*ast.BasicLit)
		if !ok {
			unsup("method() needs a string")
		}
		name, _ := strconv.Unquote(lit.Value)
		return Value{methodConst(u, name), nil}
	case "strof":
		v := u.sv(x.Args[0], env, sc)
		_, un := u.boxFn(SStr)
		return Value{App(un, SStr, v.Term), types.Typ[types.String]}
	case "zeroof":
		v := u.sv(x.Args[0], env, sc)
		if v.Ty == nil {
			unsup("zeroof untyped value")
		}
		return Value{u.zero(v.Ty), v.Ty}
	case "nilref":
		v := u.sv(x.Args[0], env, sc)
		return Value{u.nilref(v.Term), boolT}
	case "boxed":
		v := u.sv(x.Args[0], env, sc)
		return u.specBox(v, env)
	case "held":
		key := strings.Join(strings.Fields(nodeString(token.NewFileSet(), x.Args[0])), " ")
		if se, ok := x.Args[0].(*ast.SelectorExpr); ok {
			if id, ok := se.X.(*ast.Ident); ok {
				if v, ok := u.lookupName(id.Name, env, sc); ok && v.Term.Sort == SRef {
					key = "@" + v.Term.S + "." + se.Sel.Name
				}
			}
		}
		mode := strings.Trim(nodeString(token.NewFileSet(), x.Args[1]), "\"")
		return Value{boolTerm(env.held[key] == mode), boolT}
	case "_ki", "_visited", "_keyat":
		if len(u.mapIter) == 0 {
			unsup("%s outside a range-over-map loop", fname)
		}
		mi := u.mapIter[len(u.mapIter)-1]
		a := u.sv(x.Args[0], env, sc)
		if fname == "_keyat" {
			return Value{Select(mi.enum, a.Term), mi.keyTy}
		}
		a = u.convert(a, mi.keyTy, env)
		kiT := App(mi.ki, SInt, a.Term)
		if fname == "_ki" {
			return Value{kiT, intT}
		}
		cur, ok := env.alias["_i"]
		if !ok {
			unsup("_visited without loop counter")
		}
		return Value{And(Select(mi.dom0, a.Term), lt(kiT, cur)), boolT}
	case "unchangedmap":
		m := u.sv(x.Args[0], env, sc)
		n := *sc
		n.post = false
		mo := u.sv(x.Args[0], sc.old, &n)
		mt, ok := types.Unalias(m.Ty).Underlying().(*types.Map)
		if !ok {
			unsup("unchangedmap on non-map")
		}
		kx := u.D.Bound("kx", u.sortOf(mt.Key()))
		v1, ok1 := u.mapGet(env, m.Term, mt, kx)
		v0, ok0 := u.mapGet(sc.old, mo.Term, mt, kx)
		ln1 := Ite(Same(m.Term, Term{"nil_Ref", SRef}), IntLit(0), u.mapLen(env, m.Term))
		ln0 := Ite(Same(mo.Term, Term{"nil_Ref", SRef}), IntLit(0), u.mapLen(sc.old, mo.Term))
		return Value{And(Same(ln1, ln0), Forall([]Term{kx}, And(Same(ok1, ok0), Imp(ok1, Same(v1, v0))))), boolT}
	case "store":
		a := u.sv(x.Args[0], env, sc)
		i := u.sv(x.Args[1], env, sc)
		v := u.sv(x.Args[2], env, sc)
		if !strings.HasPrefix(string(a.Sort), "(Array ") {
			unsup("store() on non-array")
		}
		if v.Sort != arrElemSort(a.Sort) && arrElemSort(a.Sort) == SVal {
			v = u.specBox(v, env)
		}
		return Value{Store(a.Term, i.Term, v.Term), a.Ty}
	case "fpeq":
		a := u.sv(x.Args[0], env, sc)
		b := u.sv(x.Args[1], env, sc)
		return Value{App("fp.eq", SBool, a.Term, b.Term), boolT}
	}
	if strings.HasPrefix(fname, "conv") {
		return u.convSpec(fname, x, env, sc)
	}
	if v, ok := u.userSpecFn(fname, x, env, sc); ok {
		return v
	}
	// application of a function value named in scope
	if fname != "" {
		if fv, ok := u.lookupName(fname, env, sc); ok && fv.Sort == SFn {
			sig, ok := types.Unalias(fv.Ty).Underlying().(*types.Signature)
			if !ok {
				unsup("spec: %s is not a function", fname)
			}
			args := u.specArgs(x, env, sc)
			var ts []Term
			ts = append(ts, fv.Term)
			for i, a := range args {
				if i < sig.Params().Len() {
					a = u.convert(a, sig.Params().At(i).Type(), env)
				}
				ts = append(ts, a.Term)
			}
			name, rs, _ := u.applyName(sig, 0)
			return Value{App(name, rs, ts...), sig.Results().At(0).Type()}
		}
	}
	if fname == "" {
		// application of a function-valued expression (a field, an element)
		if fv := u.sv(x.Fun, env, sc); fv.Sort == SFn && fv.Ty != nil {
			if sig, ok := types.Unalias(fv.Ty).Underlying().(*types.Signature); ok && sig.Results().Len() > 0 {
				args := u.specArgs(x, env, sc)
				ts := []Term{fv.Term}
				for i, a := range args {
					if i < sig.Params().Len() {
						a = u.convert(a, sig.Params().At(i).Type(), env)
					}
					ts = append(ts, a.Term)
				}
				name, rs, _ := u.applyName(sig, 0)
				return Value{App(name, rs, ts...), sig.Results().At(0).Type()}
			}
		}
	}
	unsup("unknown spec function %q", nodeString(token.NewFileSet(), x.Fun))
	return Value{}
}

// sequence equality of two slices, each read in its own state
func (u *Unit) seqEq(envA *Env, a Value, envB *Env, b Value) Term {
	st, ok := types.Unalias(a.Ty).Underlying().(*types.Slice)
	if !ok {
		unsup("seqeq on non-slice")
	}
	es := u.sortOf(st.Elem())
	i := u.D.Bound("i", SInt)
	ea := u.sliceGet(envA, a.Term, es, i)
	eb := u.sliceGet(envB, b.Term, es, i)
	return And(Same(sLen(a.Term), sLen(b.Term)),
		Forall([]Term{i}, Imp(And(le(IntLit(0), i), lt(i, sLen(a.Term))), Same(ea, eb)), []Term{ea}, []Term{eb}))
}

// split a clause into independently provable conjuncts: top-level && and && directly under forall(i, lo, hi, ...)
func (u *Unit) splitClause(c Clause) []Clause {
	txt := rewriteImplies(u.Prog.Contracts.Expand(c.Text))
	e, err := parser.ParseExpr(txt)
	if err != nil {
		return []Clause{c}
	}
	parts := splitConj(e)
	if len(parts) <= 1 {
		return []Clause{c}
	}
	var out []Clause
	for i, p := range parts {
		nc := c
		nc.Text = strings.Join(strings.Fields(nodeString(token.NewFileSet(), p)), " ")
		nc.Label = fmt.Sprintf("%s#%d", c.Label, i)
		nc.Expanded = true
		out = append(out, nc)
	}
	return out
}

func splitConj(e ast.Expr) []ast.Expr {
	switch x := e.(type) {
	case *ast.ParenExpr:
		return splitConj(x.X)
	case *ast.BinaryExpr:
		if x.Op == token.LAND {
			return append(splitConj(x.X), splitConj(x.Y)...)
		}
	case *ast.CallExpr:
		id, ok := x.Fun.(*ast.Ident)
		if !ok {
			break
		}
		switch {
		case (id.Name == "forall" && len(x.Args) == 4) || (id.Name == "forall2" && len(x.Args) == 7) || ((id.Name == "forallv" || id.Name == "forallr") && len(x.Args) == 2):
			last := len(x.Args) - 1
			inner := splitConj(x.Args[last])
			if len(inner) <= 1 {
				break
			}
			var out []ast.Expr
			for _, in := range inner {
				cp := *x
				cp.Args = append(append([]ast.Expr(nil), x.Args[:last]...), in)
				out = append(out, &cp)
			}
			return out
		case id.Name == "imp" && len(x.Args) == 2:
			inner := splitConj(x.Args[1])
			if len(inner) <= 1 {
				break
			}
			var out []ast.Expr
			for _, in := range inner {
				cp := *x
				cp.Args = []ast.Expr{x.Args[0], in}
				out = append(out, &cp)
			}
			return out
		}
	}
	return []ast.Expr{e}
}
