package main

// Concurrency-related constructs and effectful callbacks (ghost trace). Filled in per property.

import (
	"go/ast"
	"go/token"
	"go/types"
)

type litInfo struct {
	lit   *ast.FuncLit
	owner *FuncInfo
}

func (u *Unit) execGo(st *ast.GoStmt, env *Env) []Outcome {
	unsup("go statement at %s", u.pos(st.Pos()))
	return nil
}

func (u *Unit) execSend(st *ast.SendStmt, env *Env) []Outcome {
	unsup("send statement at %s", u.pos(st.Pos()))
	return nil
}

func (u *Unit) execSelect(st *ast.SelectStmt, env *Env) []Outcome {
	unsup("select statement at %s", u.pos(st.Pos()))
	return nil
}

func (u *Unit) execRangeChan(st *ast.RangeStmt, env *Env, label string, x Value, xt *types.Chan, blk *Block, lname string) []Outcome {
	unsup("range over channel at %s", u.pos(st.Pos()))
	return nil
}

func (u *Unit) chanRecv(env *Env, ch ast.Expr, pos token.Pos) (Value, Term) {
	unsup("channel receive at %s", u.pos(pos))
	return Value{}, Term{}
}

func (u *Unit) chanNew(env *Env, r Term) {}

func (u *Unit) chanClose(env *Env, ch Term, at ast.Node) {
	unsup("close of channel at %s", u.pos(at.Pos()))
}

func (u *Unit) applyEffectful(env *Env, fn Term, sig *types.Signature, args []Value, at ast.Node) []Outcome {
	unsup("effectful callback at %s", u.pos(at.Pos()))
	return nil
}

func (u *Unit) closureByContract(lit *ast.FuncLit, sig *types.Signature, clo Term, blk *Block, env *Env, ord int) {
	unsup("closure contracts not supported yet")
}

func (u *Unit) sortSliceStable(c *ast.CallExpr, env *Env) []Outcome {
	unsup("sort.SliceStable at %s", u.pos(c.Pos()))
	return nil
}

func (u *Unit) userSpecFn(name string, x *ast.CallExpr, env *Env, sc *specCtx) (Value, bool) {
	return Value{}, false
}
