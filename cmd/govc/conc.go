package main

// Effects: ghost event trace, effectful callbacks, closures known to the verifier, goroutine/channel events.
//
// The trace is a ghost sequence of events; event i has
//   tr_kind[i]: 1 = synchronous call of a function value, 2 = call of an opaque interface method (e.g. the wrapped transport),
//               3 = Post of a function value to a Handler, 4 = go statement, 5 = channel send, 6 = channel close
//   tr_fn[i]  : the function value called / posted / spawned
//   tr_arg[i] : its first argument boxed (nil_Val if none);  tr_obj[i]: the receiver object (handler, transport, channel)
//   tr_err[i] : the error result of the call, if it has one
// Contracts speak about tr_len and these arrays (old(tr_len) is the length at entry).

import (
	"fmt"
	"go/ast"
	"go/token"
	"go/types"
	"sort"
	"strconv"
	"strings"
)

type litInfo struct {
	checked bool
	lit     *ast.FuncLit
	owner   *FuncInfo
	ord     int
	blk     *Block
	info    *types.Info
	// for a literal returned by a contracted callee ("opt returns-lit"): the values of its captured variables
	captured map[string]Value
}

type traceState struct {
	n                                  Term
	kind, fn, arg, obj, err, recv, res Term
	args, ress                         Term // all arguments / results of a synchronous call event, by position
}

func (u *Unit) newTrace(hint string) *traceState {
	t := &traceState{
		n:    u.D.Fresh(hint+"_len", SInt),
		kind: u.D.Fresh(hint+"_kind", ArrS(SInt, SInt)),
		fn:   u.D.Fresh(hint+"_fn", ArrS(SInt, SFn)),
		arg:  u.D.Fresh(hint+"_arg", ArrS(SInt, SVal)),
		obj:  u.D.Fresh(hint+"_obj", ArrS(SInt, SRef)),
		err:  u.D.Fresh(hint+"_err", ArrS(SInt, SErr)),
		recv: u.D.Fresh(hint+"_recv", ArrS(SInt, SVal)),
		res:  u.D.Fresh(hint+"_res", ArrS(SInt, SVal)),
		args: u.D.Fresh(hint+"_args", ArrS(SInt, ArrS(SInt, SVal))),
		ress: u.D.Fresh(hint+"_ress", ArrS(SInt, ArrS(SInt, SVal))),
	}
	return t
}

func (u *Unit) trace(env *Env) *traceState {
	if env.tr == nil {
		env.tr = u.newTrace("tr0")
		env.assume(le(IntLit(0), env.tr.n))
		if u.entry != nil && u.entry.tr == nil {
			cp := *env.tr
			u.entry.tr = &cp
		}
	}
	return env.tr
}

func (u *Unit) emit(env *Env, kind int, fn Term, arg Term, obj Term, errv Term) {
	u.emitRes(env, kind, fn, arg, obj, errv, Term{})
}

func (u *Unit) emitRes(env *Env, kind int, fn Term, arg Term, obj Term, errv Term, res Term) {
	t := u.trace(env)
	nt := &traceState{n: add(t.n, IntLit(1)), kind: Store(t.kind, t.n, IntLit(int64(kind))), fn: t.fn, arg: t.arg, obj: t.obj, err: t.err, recv: t.recv, res: t.res, args: t.args, ress: t.ress}
	if res.S != "" {
		nt.res = u.define(env, "trs", Store(t.res, t.n, res))
	}
	if obj.S != "" && obj.Sort == SVal {
		nt.recv = u.define(env, "trr", Store(t.recv, t.n, obj))
		obj = Term{}
	}
	if fn.S != "" {
		nt.fn = Store(t.fn, t.n, fn)
	}
	if arg.S != "" {
		nt.arg = Store(t.arg, t.n, arg)
	}
	if obj.S != "" {
		nt.obj = Store(t.obj, t.n, obj)
	}
	if errv.S != "" {
		nt.err = Store(t.err, t.n, errv)
	}
	nt.n = u.define(env, "trn", nt.n)
	nt.kind = u.define(env, "trk", nt.kind)
	nt.fn = u.define(env, "trf", nt.fn)
	nt.arg = u.define(env, "tra", nt.arg)
	nt.obj = u.define(env, "tro", nt.obj)
	nt.err = u.define(env, "tre", nt.err)
	env.tr = nt
}

func (u *Unit) traceName(env *Env, name string) (Value, bool) {
	switch name {
	case "tr_len", "tr_kind", "tr_fn", "tr_arg", "tr_obj", "tr_err", "tr_recv", "tr_res", "tr_args", "tr_ress":
	default:
		return Value{}, false
	}
	t := u.trace(env)
	switch name {
	case "tr_len":
		return Value{t.n, types.Typ[types.Int]}, true
	case "tr_kind":
		return Value{t.kind, nil}, true
	case "tr_fn":
		return Value{t.fn, nil}, true
	case "tr_arg":
		return Value{t.arg, nil}, true
	case "tr_obj":
		return Value{t.obj, nil}, true
	case "tr_recv":
		return Value{t.recv, nil}, true
	case "tr_res":
		return Value{t.res, nil}, true
	case "tr_args":
		return Value{t.args, nil}, true
	case "tr_ress":
		return Value{t.ress, nil}, true
	}
	return Value{t.err, nil}, true
}

// after a call whose contract has effects on the trace: a fresh trace constrained by the callee's ensures
func (u *Unit) havocTrace(env *Env) {
	old := u.trace(env)
	nt := u.newTrace("trc")
	env.assume(le(old.n, nt.n))
	// events before the call are history: they do not change
	i := u.D.Bound("i", SInt)
	rng := And(le(IntLit(0), i), lt(i, old.n))
	env.assume(Forall([]Term{i}, Imp(rng, And(Same(Select(nt.kind, i), Select(old.kind, i)), Same(Select(nt.fn, i), Select(old.fn, i)), Same(Select(nt.arg, i), Select(old.arg, i)), Same(Select(nt.obj, i), Select(old.obj, i)), Same(Select(nt.err, i), Select(old.err, i)), Same(Select(nt.recv, i), Select(old.recv, i)), Same(Select(nt.res, i), Select(old.res, i)), Same(Select(nt.args, i), Select(old.args, i)), Same(Select(nt.ress, i), Select(old.ress, i))))))
	env.tr = nt
}

// application of an opaque function value in effectful mode: one synchronous call event; results arbitrary
func (u *Unit) applyEffectful(env *Env, fn Term, sig *types.Signature, args []Value, at ast.Node) []Outcome {
	if li := u.knownLits[fn.S]; li != nil {
		return u.applyKnownLit(env, li, fn, sig, args, at)
	}
	u.safety(env, "nil", at.Pos(), "call of nil function value "+u.exprText(at), Not(Same(fn, Term{"nil_Fn", SFn})))
	arg := Term{"nil_Val", SVal}
	if len(args) > 0 {
		if args[0].Sort == SVal {
			arg = args[0].Term
		} else {
			arg = u.box(args[0]).Term
		}
	}
	var vals []Value
	errv := Term{}
	for i := 0; i < sig.Results().Len(); i++ {
		rt := sig.Results().At(i).Type()
		v := u.D.Fresh("cbres", u.sortOf(rt))
		u.typeInvariant(env, v, rt)
		if v.Sort == SErr {
			errv = v
		}
		vals = append(vals, Value{v, rt})
	}
	res0 := Term{}
	if len(vals) > 0 {
		res0 = vals[0].Term
		if vals[0].Sort != SVal {
			res0 = u.box(vals[0]).Term
		}
	}
	at0 := u.trace(env).n
	u.emitRes(env, 1, fn, arg, Term{}, errv, res0)
	// all arguments and results by position (a variadic tail passed as s... is one slice value)
	{
		boxAll := func(vs []Value, base Term) Term {
			row := u.D.Fresh("trrow", ArrS(SInt, SVal))
			_ = base
			for k, v := range vs {
				t := v.Term
				if v.Sort != SVal {
					t = u.box(v).Term
				}
				env.assume(Same(Select(row, IntLit(int64(k))), t))
			}
			return row
		}
		env.tr.args = u.define(env, "trargs", Store(env.tr.args, at0, boxAll(args, Term{})))
		env.tr.ress = u.define(env, "trress", Store(env.tr.ress, at0, boxAll(vals, Term{})))
	}
	u.callbackHavoc(env)
	// "opt callback-result-inv=<Macro>": what the unit assumes about pointer results of user callbacks (part of its contract
	// with the user: e.g. the function given to FlatMap returns a usable MonadIO)
	if u.Block != nil && u.Block.Opts["callback-result-inv"] != "" && len(vals) > 0 && vals[0].Sort == SRef {
		sc := *u.ownCtx
		sc.bound = map[string]Value{"cbresult": vals[0]}
		save := u.inSpec
		u.inSpec = true
		t := u.sv(u.parseSpec(Clause{Text: u.Block.Opts["callback-result-inv"] + "(cbresult)"}), env, &sc)
		u.inSpec = save
		env.assume(t.Term)
		u.assumeUsed("user callbacks return values satisfying " + u.Block.Opts["callback-result-inv"])
	}
	u.assumeUsed("user callbacks act on library objects only through exported methods; what they may change is the rely condition stated per property")
	return ret(env, vals...)
}

// what an opaque callback may have changed ("rely"): by default nothing of the modelled heap; a unit may declare
// "opt callback-havoc=<expr>,..." naming slices whose header and cells beyond the length observed before the call may change
func (u *Unit) callbackHavoc(env *Env) {
	if u.Block == nil || u.Block.Opts["callback-havoc"] == "" {
		return
	}
	// rely: during a callback the listed objects may change arbitrarily (the callback may call their exported methods);
	// every other object that exists keeps its contents
	refs := map[string][]Term{}
	sc := *u.ownCtx
	for _, part := range splitTopLevel(u.Block.Opts["callback-havoc"], ';') {
		part = strings.TrimSpace(part)
		if part == "" {
			continue
		}
		save := u.inSpec
		u.inSpec = true
		v := u.sv(u.parseSpec(Clause{Text: part}), env, &sc)
		u.inSpec = save
		if v.Sort != SRef {
			unsup("callback-havoc target of sort %s", v.Sort)
		}
		prefix := ""
		if v.Ty != nil {
			if pt, ok := types.Unalias(v.Ty).Underlying().(*types.Pointer); ok {
				if si := u.maybeStruct(pt.Elem()); si != nil {
					prefix = "FH_" + si.GoName + "_"
				}
			}
		}
		refs[prefix] = append(refs[prefix], v.Term)
	}
	var names []string
	for n := range env.heaps {
		names = append(names, n)
	}
	sort.Strings(names)
	for _, n := range names {
		old := env.heaps[n]
		if !strings.HasPrefix(string(old.Sort), "(Array Ref ") {
			continue
		}
		nh := u.D.Fresh("cb_"+n, old.Sort)
		r := u.D.Bound("r", SRef)
		guard := lt(u.birth(r), env.clock)
		for _, x := range modsFor(refs, n) {
			guard = And(guard, Not(Same(r, x)))
		}
		env.assume(Forall([]Term{r}, Imp(guard, Same(Select(nh, r), Select(old, r))), []Term{Select(nh, r)}))
		env.heaps[n] = nh
	}
	nc := u.D.Fresh("clk", SInt)
	env.assume(le(env.clock, nc))
	env.clock = nc
	u.assumeClosedHeaps(env)
	u.heapsHavocked = true
}

// a closure that escapes (is handed to a callee that may run it later) must not capture variables that change after
// its creation: loop variables (one variable per loop before Go 1.22, per go.mod) and variables assigned later
func (u *Unit) checkStableCaptures(env *Env, li *litInfo, at ast.Node) {
	if li == nil || li.lit == nil || li.checked {
		return
	}
	li.checked = true
	lit := li.lit
	seen := map[*types.Var]bool{}
	ast.Inspect(lit.Body, func(n ast.Node) bool {
		id, ok := n.(*ast.Ident)
		if !ok {
			return true
		}
		v, ok := li.info.Uses[id].(*types.Var)
		if !ok || v.IsField() || v.Pkg() == nil || v.Parent() == v.Pkg().Scope() || seen[v] {
			return true
		}
		if v.Pos() >= lit.Pos() && v.Pos() <= lit.End() {
			return true
		}
		seen[v] = true
		why := u.unstableReason(li, v, at)
		u.assert(env, fmt.Sprintf("capture/stable/lit%d/%s", li.ord, v.Name()), "capture", at.Pos(),
			"closure handed away captures "+v.Name()+" by reference; it must not change afterwards"+why, boolTerm(why == ""))
		return true
	})
}

func (u *Unit) unstableReason(li *litInfo, v *types.Var, at ast.Node) string {
	decl := li.owner.Decl
	reason := ""
	// loops that contain the hand-off but not the variable's declaration: an assignment anywhere in such a loop can run after
	// the hand-off of an earlier iteration
	var loops []ast.Node
	ast.Inspect(decl.Body, func(n ast.Node) bool {
		switch n.(type) {
		case *ast.ForStmt, *ast.RangeStmt:
			if n.Pos() <= at.Pos() && at.End() <= n.End() && !(v.Pos() >= n.Pos() && v.Pos() <= n.End()) {
				loops = append(loops, n)
			}
		}
		return true
	})
	ast.Inspect(decl.Body, func(n ast.Node) bool {
		if reason != "" {
			return false
		}
		switch st := n.(type) {
		case *ast.RangeStmt:
			if !(li.lit.Pos() >= st.Body.Pos() && li.lit.End() <= st.Body.End()) {
				return true
			}
			for _, e := range []ast.Expr{st.Key, st.Value} {
				if id, ok := e.(*ast.Ident); ok && (li.info.Defs[id] == v || li.info.Uses[id] == v) && !u.Prog.perIterationLoopVars {
					reason = ": it is the loop variable of an enclosing range loop (shared by all iterations under the module's Go version)"
				}
			}
		case *ast.ForStmt:
			if !(li.lit.Pos() >= st.Body.Pos() && li.lit.End() <= st.Body.End()) {
				return true
			}
			if as, ok := st.Init.(*ast.AssignStmt); ok {
				for _, l := range as.Lhs {
					if id, ok := l.(*ast.Ident); ok && li.info.Defs[id] == v && !u.Prog.perIterationLoopVars {
						reason = ": it is the loop variable of an enclosing for loop"
					}
				}
			}
		case *ast.AssignStmt:
			if st.Pos() >= li.lit.Pos() && st.End() <= li.lit.End() {
				return true
			}
			inLoop := false
			for _, l := range loops {
				if st.Pos() >= l.Pos() && st.End() <= l.End() {
					inLoop = true
				}
			}
			if st.Pos() < at.End() && !inLoop {
				return true
			}
			for _, l := range st.Lhs {
				if id, ok := l.(*ast.Ident); ok && li.info.Uses[id] == v {
					reason = ": it is assigned again after the closure was handed away"
				}
			}
		}
		return true
	})
	return reason
}

// a literal whose creation the verifier has seen: by contract if it has one, else inlined in the current state
// (captured variables are shared with the enclosing activation, as in Go)
func (u *Unit) applyKnownLit(env *Env, li *litInfo, fn Term, sig *types.Signature, args []Value, at ast.Node) []Outcome {
	if li.blk != nil && !(u.Block != nil && u.Block.Opts["lit-calls"] == "inline") {
		return u.applyLitByContract(env, li, fn, sig, args, at)
	}
	if u.litDepth > 4 {
		unsup("literal inlining too deep")
	}
	u.litDepth++
	defer func() { u.litDepth-- }()
	saveInfo, saveRes, saveTys, saveLoops, saveLits := u.Info, u.results, u.resTys, u.loops, u.lits
	u.Info = li.info
	defer func() { u.Info, u.results, u.resTys, u.loops, u.lits = saveInfo, saveRes, saveTys, saveLoops, saveLits }()
	u.loops, u.lits = numberLoops(li.owner.Decl)
	u.curFn = append(u.curFn, li.owner)
	defer func() { u.curFn = u.curFn[:len(u.curFn)-1] }()
	i := 0
	for _, fld := range li.lit.Type.Params.List {
		for _, n := range fld.Names {
			if obj := u.Info.Defs[n]; obj != nil && i < len(args) {
				env.vars[obj] = args[i].Term
			}
			i++
		}
		if len(fld.Names) == 0 {
			i++
		}
	}
	u.results, u.resTys = nil, nil
	for k := 0; k < sig.Results().Len(); k++ {
		u.resTys = append(u.resTys, sig.Results().At(k).Type())
	}
	saveDefers := env.defers
	env.defers = nil
	outs := u.execBlock(li.lit.Body.List, env)
	var res []Outcome
	for _, o := range outs {
		switch o.kind {
		case oNext, oReturn:
			u.runDefers(o.env, at)
			o.env.defers = saveDefers
			res = append(res, Outcome{env: o.env, kind: oReturn, vals: o.vals})
		default:
			res = append(res, o)
		}
	}
	return res
}

func (u *Unit) applyLitByContract(env *Env, li *litInfo, fn Term, sig *types.Signature, args []Value, at ast.Node) []Outcome {
	blk := li.blk
	sc := *u.ownCtx
	if li.captured != nil {
		// a literal of another function: its contract speaks about its captured variables, whose values the callee's
		// "returns-lit" promise fixed
		sc = specCtx{names: map[string]Value{}, fi: li.owner, blk: blk, oldNames: map[string]Value{}}
		for k, v := range li.captured {
			sc.names[k] = v
			sc.oldNames[k] = v
		}
	}
	sc.bound = map[string]Value{}
	i := 0
	for _, fld := range li.lit.Type.Params.List {
		for _, n := range fld.Names {
			if i < len(args) {
				sc.bound[n.Name] = args[i]
			}
			i++
		}
	}
	pre := env.clone()
	sc.old = pre
	sc.clockBase = env.clock
	for k, cl := range blk.Of("requires") {
		label := cl.Label
		if label == "" {
			label = fmt.Sprintf("req%d", k)
		}
		t := u.specExprCtx(cl, env, &sc)
		u.assert(env, fmt.Sprintf("pre/lit%d/%s", li.ord, label), "pre", at.Pos(), cl.Text, t)
		env.assume(t)
	}
	if u.litTarget != nil && u.litTarget == li.lit {
		u.checkDecreases(env, blk, &sc, at, "/lit")
	}
	if blk.Opts["effects"] == "trace" {
		u.havocTrace(env)
	}
	var vals []Value
	for k := 0; k < sig.Results().Len(); k++ {
		rt := sig.Results().At(k).Type()
		rv := u.D.Fresh("litres", u.sortOf(rt))
		u.typeInvariant(env, rv, rt)
		vals = append(vals, Value{rv, rt})
		sc.bound[fmt.Sprintf("r%d", k)] = Value{rv, rt}
	}
	for _, cl := range blk.Of("ensures") {
		env.assume(u.specExprCtx(cl, env, &sc))
	}
	return ret(env, vals...)
}

// closure creation when the literal has a contract block: remember it; pure literals also get their contract as an axiom
func (u *Unit) closureByContract(lit *ast.FuncLit, sig *types.Signature, clo Term, blk *Block, env *Env, ord int) {
	// registration happens in closure(); nothing else to do at creation time
}

func (u *Unit) execGo(st *ast.GoStmt, env *Env) []Outcome {
	// go f(args): a spawn event; the body runs elsewhere (it is verified as its own unit when it has a contract)
	fun := unparen(st.Call.Fun)
	fnT := Term{"nil_Fn", SFn}
	if lit, ok := fun.(*ast.FuncLit); ok {
		fnT = u.closure(lit, env).Term
	} else if fi := u.calleeInfo(st.Call); fi != nil {
		name := "fn_" + identSan.ReplaceAllString(fi.Key, "_")
		u.D.Once("const:"+name, fmt.Sprintf("(declare-const %s Fn)", name))
		fnT = Term{name, SFn}
		if se, ok := fun.(*ast.SelectorExpr); ok {
			u.eval(se.X, env)
		}
	} else {
		fnT = u.eval(fun, env).Term
	}
	for _, a := range st.Call.Args {
		u.eval(a, env)
	}
	u.emit(env, 4, fnT, Term{}, Term{}, Term{})
	return next(env)
}

func (u *Unit) execSend(st *ast.SendStmt, env *Env) []Outcome {
	ch := u.eval(st.Chan, env)
	v := u.eval(st.Value, env)
	// (a send on a nil channel blocks forever; it does not panic, so it is not a safety obligation)
	u.sendCheck(env, ch.Term, st)
	arg := v.Term
	if v.Sort != SVal {
		arg = u.box(v).Term
	}
	fnT := Term{}
	if v.Sort == SFn {
		fnT = v.Term
	}
	u.emit(env, 5, fnT, arg, ch.Term, Term{})
	return next(env)
}

// hook for the closed-channel discipline (C15): overridden by opts of the unit
func (u *Unit) sendCheck(env *Env, ch Term, at ast.Node) {}

// select: any clause may be the one that proceeds (which ones are ready is a matter of schedules, not explored): one path per
// clause - its communication (an event, as outside a select) followed by its body.  A break leaves the select.
func (u *Unit) execSelect(st *ast.SelectStmt, env *Env) []Outcome {
	var res []Outcome
	// Go evaluates every channel operand on entering the select, whichever clause then proceeds.  For operands that are calls
	// of opaque library functions (time.After(d)) this is done here for all paths, so that specifications can speak of the
	// call (<Func>_arg<i>) also on the paths that take another clause; the clause's own evaluation repeats it harmlessly.
	for _, cc := range st.Body.List {
		var rx ast.Expr
		switch c := cc.(*ast.CommClause).Comm.(type) {
		case *ast.ExprStmt:
			rx = c.X
		case *ast.AssignStmt:
			if len(c.Rhs) == 1 {
				rx = c.Rhs[0]
			}
		}
		if ue, ok := unparen0(rx).(*ast.UnaryExpr); ok && ue.Op == token.ARROW {
			if call, ok := unparen0(ue.X).(*ast.CallExpr); ok {
				if fn := calleeObj(u, call.Fun); fn != nil && fn.Pkg() != nil && isOpaquePkg(fn.Pkg().Path()) {
					u.eval(call, env)
				}
			}
		}
	}
	for _, cc := range st.Body.List {
		clause := cc.(*ast.CommClause)
		e := env.clone()
		outs := []Outcome{{env: e, kind: oNext}}
		if clause.Comm != nil {
			outs = u.exec(clause.Comm, e)
		}
		for _, o := range outs {
			if o.kind != oNext {
				res = append(res, o)
				continue
			}
			for _, bo := range u.execBlock(clause.Body, o.env) {
				if bo.kind == oBreak && bo.label == "" {
					bo.kind = oNext
				}
				res = append(res, bo)
			}
		}
	}
	if len(st.Body.List) == 0 {
		unsup("empty select (blocks forever)")
	}
	u.assumeUsed("select: every clause is considered possible; which communications are ready is not modelled")
	return res
}

// for v := range ch: iteration k receives the k-th value rx[k] (a ghost sequence, arbitrary); the loop may end after any
// number of iterations (the channel was closed). In invariants: _i = number of values received so far, _rx = that sequence.
func (u *Unit) execRangeChan(st *ast.RangeStmt, env *Env, label string, x Value, xt *types.Chan, blk *Block, lname string) []Outcome {
	es := u.sortOf(xt.Elem())
	rx := u.D.Fresh("rx", ArrS(SInt, es))
	kobj := u.keyObj(st.Key) // the value variable of a channel range is the "key"
	env.alias["_i"] = IntLit(0)
	env.alias["_rx"] = rx
	u.runGhostKind(env, blk, "ghostbefore")
	u.checkInvariants(env, blk, "inv-init", st.Pos(), lname)
	li := u.scanLoop(st.Body)
	li.modVars = append(li.modVars, u.ghostsSetIn(st)...)
	u.inRangeChan = true
	u.havocLoop(env, li)
	u.inRangeChan = false
	if u.effectfulCallbacks() {
		u.havocTraceLoop(env)
	}
	k := u.D.Fresh("k", SInt)
	env.assume(le(IntLit(0), k))
	env.alias["_i"] = k
	cut := len(env.pc)
	u.assumeInvariants(env, blk)
	var res []Outcome
	ex := env.clone()
	u.exitSummary(ex, blk, cut, lname, st.Pos())
	delete(ex.alias, "_i")
	// _received: how many values this loop has taken from the channel (usable after the loop and in the function's
	// postcondition: a body that returns early has taken one more than it finished)
	ex.alias["_received"] = k
	res = append(res, Outcome{env: ex, kind: oNext})
	be := env
	delete(be.alias, "_i")
	be.alias["_received"] = add(k, IntLit(1))
	v := u.define(be, "recv", Select(rx, k))
	if v.Sort == SFn && u.Block != nil && u.Block.Opts["recv-nonnil"] != "" {
		be.assume(Not(Same(v, Term{"nil_Fn", SFn})))
		u.assumeUsed("function values received from the mailbox are non-nil (nobody posts nil)")
	}
	if kobj != nil {
		be.vars[kobj] = v
		u.knownRefsOf(be, v)
	}
	if blk != nil {
		u.coverProbe(be, lname+"/cover/body-reachable", st.Pos(), "loop body reachable under the invariants")
	}
	for _, o := range u.execBlock(st.Body.List, be) {
		switch {
		case o.kind == oNext || (o.kind == oContinue && (o.label == "" || o.label == label)):
			e := o.env
			e.alias["_i"] = k
			u.runGhostSets(e, blk)
			e.alias["_i"] = add(k, IntLit(1))
			u.checkInvariants(e, blk, "inv-keep", st.Pos(), lname)
		case o.kind == oBreak && (o.label == "" || o.label == label):
			res = append(res, Outcome{env: o.env, kind: oNext})
		default:
			res = append(res, o)
		}
	}
	return res
}

// a loop whose body has trace effects: the trace at the loop head is arbitrary but extends the history
func (u *Unit) havocTraceLoop(env *Env) {
	u.havocTrace(env)
}

// <-ch : an arbitrary value (event kind 7: receive on tr_obj, value in tr_res); ok is arbitrary
func (u *Unit) chanRecv(env *Env, ch ast.Expr, pos token.Pos) (Value, Term) {
	return u.chanRecv2(env, ch, pos, false)
}

// commaOk: the receive is "v, ok := <-ch" - the code itself deals with a closed channel, so "opt recv-nonnil" must not assume the
// channel open there (that would make the code's own exit unreachable and every postcondition vacuous)
func (u *Unit) chanRecv2(env *Env, ch ast.Expr, pos token.Pos, commaOk bool) (Value, Term) {
	c := u.eval(ch, env)
	ct, ok := types.Unalias(c.Ty).Underlying().(*types.Chan)
	if !ok {
		unsup("receive from non-channel at %s", u.pos(pos))
	}
	v := u.D.Fresh("rcv", u.sortOf(ct.Elem()))
	u.typeInvariant(env, v, ct.Elem())
	u.knownRefsOf(env, v)
	okT := u.D.Fresh("rcvok", SBool)
	if u.Block != nil && u.Block.Opts["recv-nonnil"] != "" {
		// "opt recv-nonnil": the channel is open while this unit receives and nobody sends nil on it (stated with the contract)
		switch v.Sort {
		case SRef:
			env.assume(Imp(okT, Not(Same(v, Term{"nil_Ref", SRef}))))
		case SFn:
			env.assume(Imp(okT, Not(Same(v, Term{"nil_Fn", SFn}))))
		}
		// "recv-nonnil=values": only that; with any other value the channel is also taken to be open while the unit receives
		// (for a "v, ok := <-ch" whose exit depends on ok that makes the exit unreachable, which the exit-reachable probe reports)
		if !(commaOk && u.Block.Opts["recv-nonnil"] == "values") {
			env.assume(okT)
		}
		u.assumeUsed("values received on the unit's channel are non-nil and the channel is open while the unit runs (opt recv-nonnil)")
	}
	res := v
	if v.Sort != SVal {
		res = u.box(Value{v, ct.Elem()}).Term
	}
	u.emitRes(env, 7, Term{}, Term{}, c.Term, Term{}, res)
	return Value{v, ct.Elem()}, okT
}

func (u *Unit) chanNew(env *Env, r Term) {}

func (u *Unit) chanClose(env *Env, ch Term, at ast.Node) {
	u.safety(env, "nil", at.Pos(), "close of nil channel", Not(Same(ch, Term{"nil_Ref", SRef})))
	u.emit(env, 6, Term{}, Term{}, ch, Term{})
}

// result of applying a known literal to the given argument terms in the given state, as a term (obligations muted: the
// literal's own safety is checked where this is used with symbolic in-range arguments).  Multiple return paths become an ite.
func (u *Unit) litResult(env *Env, li *litInfo, sig *types.Signature, args []Term) Term {
	sub := env.clone()
	base := len(sub.pc)
	saveInfo, saveRes, saveTys, saveLoops, saveLits := u.Info, u.results, u.resTys, u.loops, u.lits
	u.Info = li.info
	u.loops, u.lits = numberLoops(li.owner.Decl)
	u.curFn = append(u.curFn, li.owner)
	saveObs := u.muteObs
	u.muteObs = true
	u.inClosure++
	defer func() {
		u.Info, u.results, u.resTys, u.loops, u.lits = saveInfo, saveRes, saveTys, saveLoops, saveLits
		u.curFn = u.curFn[:len(u.curFn)-1]
		u.muteObs = saveObs
		u.inClosure--
	}()
	i := 0
	for _, fld := range li.lit.Type.Params.List {
		for _, n := range fld.Names {
			if obj := u.Info.Defs[n]; obj != nil && i < len(args) {
				sub.vars[obj] = args[i]
			}
			i++
		}
	}
	u.results, u.resTys = nil, nil
	for k := 0; k < sig.Results().Len(); k++ {
		u.resTys = append(u.resTys, sig.Results().At(k).Type())
	}
	outs := u.execBlock(li.lit.Body.List, sub)
	var res Term
	first := true
	for k := len(outs) - 1; k >= 0; k-- {
		o := outs[k]
		if o.kind == oPanic {
			continue
		}
		if o.kind != oReturn || len(o.vals) == 0 {
			unsup("comparison literal falls through")
		}
		if first {
			res = o.vals[0].Term
			first = false
			continue
		}
		res = Ite(And(o.env.pc[base:]...), o.vals[0].Term, res)
	}
	if first {
		unsup("comparison literal never returns")
	}
	return res
}

// sort.SliceStable(x, less) / sort.Slice(x, less).  TRUSTED library contract:
//
//	requires  less is element-determined (its answer for positions i, j depends only on the elements currently there) and is a
//	          strict weak ordering (irreflexive, transitive, incomparability transitive);
//	ensures   the cells of x are a permutation p of the old cells (x[i] == old(x)[p[i]]), ordered (no i<j with less(j,i)), and -
//	          SliceStable only - stable (for i<j, !less(i,j) ==> p[i] < p[j]); nothing else changes.
//
// What is verified about fpGo is that each call site meets the precondition with the relation and slice the property names.
func (u *Unit) sortSliceStable(c *ast.CallExpr, env *Env) []Outcome {
	stable := true
	if se, ok := c.Fun.(*ast.SelectorExpr); ok && se.Sel.Name == "Slice" {
		stable = false
	}
	xs := u.eval(c.Args[0], env)
	if xs.Sort != SSlice {
		unsup("sort.SliceStable on a non-slice value")
	}
	st, ok := types.Unalias(xs.Ty).Underlying().(*types.Slice)
	if !ok {
		unsup("sort.SliceStable on %s", xs.Ty)
	}
	lessV := u.eval(c.Args[1], env)
	sig, _ := types.Unalias(lessV.Ty).Underlying().(*types.Signature)
	if sig == nil {
		unsup("sort.SliceStable with a non-function")
	}
	u.safety(env, "nil", c.Pos(), "less function of "+u.exprText(c.Fun), Not(Same(lessV.Term, Term{"nil_Fn", SFn})))
	li := u.knownLits[lessV.S]
	if u.effectfulCallbacks() {
		unsup("sort.SliceStable in effectful mode")
	}
	u.D.Trust("sort.SliceStable/sort.Slice: given an element-determined strict weak ordering, the slice becomes an ordered (SliceStable: stable) permutation of itself; nothing else changes")
	s := xs.Term
	n := sLen(s)
	es := u.sortOf(st.Elem())
	hn := sliceHeapName(es)
	hs := ArrS(SRef, ArrS(SInt, es))
	intT := types.Typ[types.Int]
	rel := func(e *Env, i, j Term) Term {
		if li != nil && li.blk == nil {
			return u.litResult(e, li, sig, []Term{i, j})
		}
		u.assumeUsed("user callbacks are deterministic functions of their arguments and do not touch the library's heap")
		name, rs, _ := u.applyName(sig, 0)
		return App(name, rs, lessV.Term, i, j)
	}
	inRange := func(ts ...Term) Term {
		var cs []Term
		for _, t := range ts {
			cs = append(cs, le(IntLit(0), t), lt(t, n))
		}
		return And(cs...)
	}
	tag := u.siteTag(c)
	// (1) the literal is safe for all in-range positions
	if li != nil && li.blk == nil {
		sub := env.clone()
		i, j := u.D.Fresh("si", SInt), u.D.Fresh("sj", SInt)
		sub.assume(inRange(i, j))
		args := []Value{{i, intT}, {j, intT}}
		saveDepth := u.litDepth
		u.applyKnownLit(sub, li, lessV.Term, sig, args, c)
		u.litDepth = saveDepth
		u.adoptDecls(env, sub)
	}
	// (2) strict weak ordering on the positions of the current arrangement
	{
		sub := env.clone()
		i, j, k := u.D.Fresh("si", SInt), u.D.Fresh("sj", SInt), u.D.Fresh("sk", SInt)
		sub.assume(inRange(i, j, k))
		rij, rji, rjk, rkj, rik, rki, rii := rel(sub, i, j), rel(sub, j, i), rel(sub, j, k), rel(sub, k, j), rel(sub, i, k), rel(sub, k, i), rel(sub, i, i)
		u.assert(sub, "pre/sort.less/irreflexive@"+tag, "pre", c.Pos(), "less(i,i) is false for every position", Not(rii))
		u.assert(sub, "pre/sort.less/transitive@"+tag, "pre", c.Pos(), "less(i,j) && less(j,k) ==> less(i,k)", Imp(And(rij, rjk), rik))
		u.assert(sub, "pre/sort.less/incomparability-transitive@"+tag, "pre", c.Pos(), "i~j && j~k ==> i~k where a~b := !less(a,b) && !less(b,a)", Imp(And(Not(rij), Not(rji), Not(rjk), Not(rkj)), And(Not(rik), Not(rki))))
		u.adoptDecls(env, sub)
	}
	// (3) element-determined: in any two arrangements of the cells, equal elements give equal answers
	if li != nil && li.blk == nil {
		mk := func(tagName string) (*Env, Term) {
			e := env.clone()
			h := u.heap(e, hn, hs)
			arr := u.D.Fresh("arr"+tagName, ArrS(SInt, es))
			u.setHeap(e, hn, Store(h, sBase(s), arr))
			return e, arr
		}
		ea, arrA := mk("A")
		eb, arrB := mk("B")
		i, j, i2, j2 := u.D.Fresh("si", SInt), u.D.Fresh("sj", SInt), u.D.Fresh("si", SInt), u.D.Fresh("sj", SInt)
		ra := rel(ea, i, j)
		rb := rel(eb, i2, j2)
		sub := env.clone()
		sub.assume(inRange(i, j, i2, j2))
		sub.assume(Same(Select(arrA, u.idx(s, i)), Select(arrB, u.idx(s, i2))))
		sub.assume(Same(Select(arrA, u.idx(s, j)), Select(arrB, u.idx(s, j2))))
		u.assert(sub, "pre/sort.less/element-determined@"+tag, "pre", c.Pos(), "less(i,j) depends only on the elements of the sorted slice currently at i and j (it reads the slice being sorted, not a copy)", Same(ra, rb))
	} else {
		u.assumeUsed("an opaque less function given to sort is element-determined on the slice being sorted")
	}
	// effect
	{
		sub := env.clone()
		sub.assume(lt(IntLit(1), n))
		u.frameCheckRef(sub, sBase(s), "cells", c)
		u.adoptDecls(env, sub)
	}
	hOld := u.heap(env, hn, hs)
	oldArr := Select(hOld, sBase(s))
	newArr := u.D.Fresh("sorted", ArrS(SInt, es))
	p := u.D.Fresh("sortperm", ArrS(SInt, SInt))
	q := u.D.Fresh("sortinv", ArrS(SInt, SInt))
	i := u.D.Bound("i", SInt)
	rng := And(le(IntLit(0), i), lt(i, n))
	env.assume(Forall([]Term{i}, Imp(rng, And(le(IntLit(0), Select(p, i)), lt(Select(p, i), n), Same(Select(q, Select(p, i)), i))), []Term{Select(p, i)}))
	env.assume(Forall([]Term{i}, Imp(rng, And(le(IntLit(0), Select(q, i)), lt(Select(q, i), n), Same(Select(p, Select(q, i)), i))), []Term{Select(q, i)}))
	env.assume(Forall([]Term{i}, Imp(rng, Same(Select(newArr, u.idx(s, i)), Select(oldArr, u.idx(s, Select(p, i))))), []Term{Select(newArr, u.idx(s, i))}))
	k := u.D.Bound("k", SInt)
	env.assume(Forall([]Term{k}, Imp(Or(lt(k, sOff(s)), le(add(sOff(s), n), k)), Same(Select(newArr, k), Select(oldArr, k))), []Term{Select(newArr, k)}))
	u.setHeap(env, hn, u.define(env, "h_"+hn, Store(hOld, sBase(s), newArr)))
	// ordered / stable, with the relation read in the new state
	a, b := u.D.Bound("a", SInt), u.D.Bound("b", SInt)
	rab, rba := rel(env, a, b), rel(env, b, a)
	ab := And(le(IntLit(0), a), lt(a, b), lt(b, n))
	env.assume(Forall([]Term{a, b}, Imp(ab, Not(rba))))
	if stable {
		env.assume(Forall([]Term{a, b}, Imp(And(ab, Not(rab)), lt(Select(p, a), Select(p, b)))))
	}
	env.alias["_sortperm"] = p
	env.alias["_sortinv"] = q
	return ret(env)
}

func (u *Unit) userSpecFn(name string, x *ast.CallExpr, env *Env, sc *specCtx) (Value, bool) {
	return Value{}, false
}

// "opt returns-lit=[Func:]N": the function returns its literal N (or literal N of Func, obtained by calling Func), whose captured
// variables are parameters holding the values the caller passed.  Callers then use that literal's contract when they apply
// the returned function value.
func (u *Unit) returnsLitSpec(blk *Block, self *FuncInfo) (*FuncInfo, int, bool) {
	spec := ""
	if blk != nil {
		spec = blk.Opts["returns-lit"]
	}
	if spec == "" {
		return nil, 0, false
	}
	owner := self
	if k := strings.LastIndex(spec, ":"); k >= 0 {
		owner = u.Prog.Funcs[keyPrefixOf(self.Key)+spec[:k]]
		if owner == nil {
			owner = u.Prog.Funcs[spec[:k]]
		}
		spec = spec[k+1:]
	}
	n, err := strconv.Atoi(spec)
	if err != nil || owner == nil {
		unsup("bad returns-lit option %q", blk.Opts["returns-lit"])
	}
	return owner, n, true
}

func keyPrefixOf(key string) string {
	if k := strings.Index(key, ":"); k >= 0 && !strings.Contains(key[:k], "(") {
		return key[:k+1]
	}
	return ""
}

// free variables of a literal that are declared outside it (and are not package-level)
func capturedVars(info *types.Info, lit *ast.FuncLit) []*types.Var {
	var out []*types.Var
	seen := map[*types.Var]bool{}
	ast.Inspect(lit.Body, func(n ast.Node) bool {
		id, ok := n.(*ast.Ident)
		if !ok {
			return true
		}
		v, ok := info.Uses[id].(*types.Var)
		if !ok || v.IsField() || v.Pkg() == nil || v.Parent() == v.Pkg().Scope() || seen[v] {
			return true
		}
		if v.Pos() >= lit.Pos() && v.Pos() <= lit.End() {
			return true
		}
		seen[v] = true
		out = append(out, v)
		return true
	})
	return out
}

// caller side: register the returned function value as that literal
func (u *Unit) registerReturnedLit(env *Env, fi *FuncInfo, blk *Block, res Term, scope map[string]Value) {
	owner, ord, ok := u.returnsLitSpec(blk, fi)
	if !ok || res.Sort != SFn {
		return
	}
	lit := litByOrdinal(owner, ord)
	if lit == nil {
		unsup("returns-lit: %s has no literal %d", owner.Key, ord)
	}
	lblk := u.Prog.litBlock(owner, lit, ord)
	if lblk == nil {
		unsup("returns-lit: literal %d of %s has no contract block", ord, owner.Key)
	}
	cap := map[string]Value{}
	for _, v := range capturedVars(owner.Pkg.TypesInfo, lit) {
		val, ok := scope[v.Name()]
		if !ok {
			unsup("returns-lit: captured variable %s of %s is not a parameter of %s", v.Name(), owner.Key, fi.Key)
		}
		cap[v.Name()] = val
	}
	env.assume(Not(Same(res, Term{"nil_Fn", SFn})))
	u.knownLits[res.S] = &litInfo{lit: lit, owner: owner, ord: ord, blk: lblk, info: owner.Pkg.TypesInfo, captured: cap}
}

// callee side: the promise is checked at every return
func (u *Unit) checkReturnsLit(o Outcome) {
	owner, ord, ok := u.returnsLitSpec(u.Block, u.FI)
	if !ok {
		return
	}
	pos := o.pos
	if !pos.IsValid() {
		pos = u.FI.Decl.End()
	}
	var li *litInfo
	if len(o.vals) > 0 {
		li = u.knownLits[o.vals[0].Term.S]
	}
	isLit := li != nil && li.owner == owner && li.ord == ord
	u.assert(o.env, "returns-lit/is-literal", "post", pos, fmt.Sprintf("the result is literal %d of %s", ord, owner.Key), boolTerm(isLit))
	if !isLit {
		return
	}
	for _, v := range capturedVars(owner.Pkg.TypesInfo, li.lit) {
		var cur Term
		if li.captured != nil {
			cur = li.captured[v.Name()].Term
		} else {
			cur = o.env.vars[v]
		}
		// the parameter of this function with that name, at entry
		var entry Term
		for obj, t := range u.entry.vars {
			if pv, ok := obj.(*types.Var); ok && pv.Name() == v.Name() && u.isParam(pv) {
				entry = t
			}
		}
		if cur.S == "" || entry.S == "" {
			u.assert(o.env, "returns-lit/captures/"+v.Name(), "post", pos, "captured variable "+v.Name()+" is a parameter of this function", False)
			continue
		}
		u.assert(o.env, "returns-lit/captures/"+v.Name(), "post", pos, "captured "+v.Name()+" holds the value passed by the caller", Same(cur, entry))
	}
}

func (u *Unit) isParam(v *types.Var) bool {
	sig := u.FI.Obj.Type().(*types.Signature)
	for i := 0; i < sig.Params().Len(); i++ {
		if sig.Params().At(i) == v {
			return true
		}
	}
	return sig.Recv() != nil && sig.Recv() == v
}

func methodConst(u *Unit, name string) Term {
	n := "m_" + identSan.ReplaceAllString(name, "_")
	u.D.Once("const:"+n, fmt.Sprintf("(declare-const %s Fn)", n))
	u.methodConsts[n] = true
	return Term{n, SFn}
}

// "opt dispatch=<Iface>:<mode>;..." (or one mode for all): force = dispatch even when the interface method has its own
// contract; off = treat the interface as opaque (in effectful mode: one event of kind 2 per call)
func (u *Unit) dispatchMode(iname string) string {
	if u.Block == nil {
		return ""
	}
	opt := u.Block.Opts["dispatch"]
	if opt == "" {
		return ""
	}
	def := ""
	for _, ent := range strings.Split(opt, ";") {
		ent = strings.TrimSpace(ent)
		if k := strings.Index(ent, ":"); k >= 0 {
			if ent[:k] == iname {
				return ent[k+1:]
			}
		} else {
			def = ent
		}
	}
	return def
}

// an opaque call through an interface declared in the repository, in effectful mode: arbitrary results, one event of kind 2
// (tr_recv = receiver, tr_fn = method identity, tr_arg/tr_args = arguments, tr_res/tr_ress = results)
func (u *Unit) opaqueIfaceEvent(c *ast.CallExpr, se *ast.SelectorExpr, iname string, m *types.Func, recv Value, args []Value, env *Env) []Outcome {
	sig := m.Type().(*types.Signature)
	u.safety(env, "nil", c.Pos(), u.exprText(se.X)+" (interface method call)", Not(u.untyped(recv.Term)))
	var vals []Value
	errv := Term{}
	for i := 0; i < sig.Results().Len(); i++ {
		rt := sig.Results().At(i).Type()
		v := u.D.Fresh("ifres_"+m.Name(), u.sortOf(rt))
		u.typeInvariant(env, v, rt)
		if v.Sort == SErr {
			errv = v
		}
		vals = append(vals, Value{v, rt})
	}
	boxT := func(v Value) Term {
		if v.Sort == SVal {
			return v.Term
		}
		return u.box(v).Term
	}
	arg := Term{"nil_Val", SVal}
	if len(args) > 0 {
		arg = boxT(args[0])
	}
	res0 := Term{}
	if len(vals) > 0 {
		res0 = boxT(vals[0])
	}
	at0 := u.trace(env).n
	u.emitRes(env, 2, methodConst(u, iname+"."+m.Name()), arg, recv.Term, errv, res0)
	row := func(vs []Value) Term {
		r := u.D.Fresh("trrow", ArrS(SInt, SVal))
		for k, v := range vs {
			env.assume(Same(Select(r, IntLit(int64(k))), boxT(v)))
		}
		return r
	}
	env.tr.args = u.define(env, "trargs", Store(env.tr.args, at0, row(args)))
	env.tr.ress = u.define(env, "trress", Store(env.tr.ress, at0, row(vals)))
	for k, a := range args {
		env.alias[fmt.Sprintf("_ifarg%d", k)] = a.Term
		env.aliasTy[fmt.Sprintf("_ifarg%d", k)] = a.Ty
	}
	for k, v := range vals {
		env.alias[fmt.Sprintf("_ifres%d", k)] = v.Term
		env.aliasTy[fmt.Sprintf("_ifres%d", k)] = v.Ty
	}
	u.callbackHavoc(env)
	u.assumeUsed("implementations of " + iname + " act on library objects only through exported methods")
	return ret(env, vals...)
}

func unparen0(e ast.Expr) ast.Expr {
	if e == nil {
		return nil
	}
	return unparen(e)
}
