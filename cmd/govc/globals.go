package main

import (
	"go/ast"
	"go/token"
	"go/types"
	"strings"
	"sync"
)

// Frame condition for package-level variables.  When a function under contract reads a package-level variable of the module, the
// engine uses the value its declaration gives it (the zero value, or the composite literal it is initialised with).  That is sound only
// if no statement of the module changes the variable afterwards.  globalWrites decides this syntactically over every non-test file of
// the packages that were loaded: an assignment, ++/--, or range assignment whose left-hand side is rooted at the variable is a write;
// taking its address (&X, &X.f, a slice of an array in it) or calling a pointer-receiver method on it lets it escape, after which
// writes cannot be seen syntactically.  No write and no escape => the obligation frame/global-stable/<X> is discharged (what remains
// assumed is only that code OUTSIDE the module does not assign to an exported variable); a write => the obligation fails and names
// the writing statement; an escape => the stability stays an assumption, as before.
type globalUse struct {
	writes  []token.Pos
	escapes []token.Pos
}

var globalUseMu sync.Mutex
var globalUseCache = map[*types.Var]*globalUse{}

func rootIdent(e ast.Expr) *ast.Ident {
	for {
		switch x := e.(type) {
		case *ast.ParenExpr:
			e = x.X
		case *ast.SelectorExpr:
			e = x.X
		case *ast.IndexExpr:
			e = x.X
		case *ast.StarExpr:
			return nil // a write through a pointer held in the variable does not change the variable itself
		case *ast.Ident:
			return x
		default:
			return nil
		}
	}
}

// storagePath: true when e denotes storage inside the variable itself (no pointer, slice or map indirection on the way)
func storageInside(info *types.Info, e ast.Expr) bool {
	for {
		switch x := e.(type) {
		case *ast.ParenExpr:
			e = x.X
		case *ast.SelectorExpr:
			if sel := info.Selections[x]; sel != nil && sel.Indirect() {
				return false
			}
			e = x.X
		case *ast.IndexExpr:
			// an element of an array is storage inside the variable; an element of a slice or map held in it is not, but it is part
			// of the "initial value" a composite-literal initializer gives the variable, so a write to it counts as well
			e = x.X
		case *ast.Ident:
			return true
		default:
			return false
		}
	}
}

func (p *Program) globalWrites(o *types.Var) *globalUse {
	globalUseMu.Lock()
	defer globalUseMu.Unlock()
	if g, ok := globalUseCache[o]; ok {
		return g
	}
	g := &globalUse{}
	globalUseCache[o] = g
	for _, pkg := range p.Pkgs {
		if pkg.Types == nil || o.Pkg() == nil || !strings.HasPrefix(pkg.PkgPath, strings.Split(o.Pkg().Path(), "/v2")[0]) {
			continue
		}
		info := pkg.TypesInfo
		isVar := func(e ast.Expr) bool {
			id := rootIdent(e)
			return id != nil && info.Uses[id] == o && storageInside(info, e)
		}
		for _, f := range pkg.Syntax {
			if strings.HasSuffix(p.Fset.Position(f.Pos()).Filename, "_test.go") {
				continue
			}
			ast.Inspect(f, func(n ast.Node) bool {
				switch x := n.(type) {
				case *ast.AssignStmt:
					if x.Tok != token.DEFINE {
						for _, l := range x.Lhs {
							if isVar(l) {
								g.writes = append(g.writes, x.Pos())
							}
						}
					}
				case *ast.IncDecStmt:
					if isVar(x.X) {
						g.writes = append(g.writes, x.Pos())
					}
				case *ast.RangeStmt:
					if x.Tok == token.ASSIGN {
						for _, l := range []ast.Expr{x.Key, x.Value} {
							if l != nil && isVar(l) {
								g.writes = append(g.writes, x.Pos())
							}
						}
					}
				case *ast.UnaryExpr:
					if x.Op == token.AND && isVar(x.X) {
						g.escapes = append(g.escapes, x.Pos())
					}
				case *ast.SliceExpr:
					if tv, ok := info.Types[x.X]; ok {
						if _, isArr := tv.Type.Underlying().(*types.Array); isArr && isVar(x.X) {
							g.escapes = append(g.escapes, x.Pos())
						}
					}
				case *ast.SelectorExpr:
					// method value or call with a pointer receiver on addressable storage inside the variable: &X is taken implicitly
					if sel := info.Selections[x]; sel != nil && (sel.Kind() == types.MethodVal) && isVar(x.X) {
						if fn, ok := sel.Obj().(*types.Func); ok {
							if sig, ok := fn.Type().(*types.Signature); ok && sig.Recv() != nil {
								if _, ptr := sig.Recv().Type().(*types.Pointer); ptr {
									if _, recvIsPtr := info.Types[x.X].Type.(*types.Pointer); !recvIsPtr && !p.receiverUnused(fn) {
										g.escapes = append(g.escapes, x.Pos())
									}
								}
							}
						}
					}
				}
				return true
			})
		}
	}
	return g
}

// globalStable is called where the engine is about to use the declared value of package variable o; what says how ("zero value" /
// "initial value").  It emits the frame obligation once per unit, or records the assumption when the variable escapes.
func (u *Unit) globalStable(o *types.Var, what string) {
	g := u.Prog.globalWrites(o)
	if len(g.writes) == 0 && len(g.escapes) > 0 {
		u.assumeUsed("package-level variable " + o.Name() + " keeps its " + what + " (its address is taken at " + u.pos(g.escapes[0]) + ", so writes cannot be excluded syntactically)")
		return
	}
	name := "frame/global-stable/" + o.Name()
	if u.obIdx[u.Name+"/"+name+u.Suffix] != nil {
		return
	}
	text := "no statement of the module assigns to package variable " + o.Name() + " (its " + what + " is what the contracts are proved against)"
	if len(g.writes) == 0 {
		u.assert(&Env{}, name, "frame", o.Pos(), text, True)
		if o.Exported() {
			u.assumeUsed("code outside the module does not assign to the exported package-level variable " + o.Name())
		}
		return
	}
	u.assert(&Env{}, name, "frame", g.writes[0], text+"; written at "+u.pos(g.writes[0]), False)
}

// receiverUnused: fn is a method declared in the loaded packages whose body never mentions its receiver (the library's
// "namespace" values: StreamForInterface.FromArray(...), ...).  The address taken implicitly for such a call goes nowhere.
func (p *Program) receiverUnused(fn *types.Func) bool {
	fn = fn.Origin()
	for _, pkg := range p.Pkgs {
		if pkg.Types != fn.Pkg() {
			continue
		}
		for _, f := range pkg.Syntax {
			for _, d := range f.Decls {
				fd, ok := d.(*ast.FuncDecl)
				if !ok || fd.Recv == nil || fd.Body == nil || pkg.TypesInfo.Defs[fd.Name] != fn {
					continue
				}
				if len(fd.Recv.List) == 0 || len(fd.Recv.List[0].Names) == 0 {
					return true
				}
				recv := pkg.TypesInfo.Defs[fd.Recv.List[0].Names[0]]
				if recv == nil {
					return true // "_"
				}
				used := false
				ast.Inspect(fd.Body, func(n ast.Node) bool {
					if id, ok := n.(*ast.Ident); ok && pkg.TypesInfo.Uses[id] == recv {
						used = true
					}
					return !used
				})
				return !used
			}
		}
	}
	return false
}
