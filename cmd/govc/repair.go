package main

// Re-binding of loop invariants after a change of a function's loop structure.
//
// Loop invariants are keyed by the ordinal of the loop and talk about locals, so a behaviour-preserving edit that removes,
// adds, splits or merges loops (e.g. a copy loop replaced by copy()) leaves the recorded invariants attached to the wrong
// loops.  When a function fails with its invariants as recorded, the verifier tries once more with, for EVERY loop, the
// conjuncts of ALL invariant clauses recorded for the function as candidates, and computes the largest subset that is
// inductive (Houdini: drop what fails on entry or is not preserved, repeat).  Nothing is assumed that was not proved: the
// surviving conjuncts are established on entry and preserved by the body like any invariant, and every other obligation
// of the function is then discharged against them.  If that succeeds the function is verified (and the evidence says how);
// if not, the failures of the ORIGINAL run are reported.

import (
	"fmt"
	"sort"
	"strings"
)

type repairState struct {
	cands []Clause        // atomic candidate invariants (conjuncts), label "L<ordinal>.<label>.<k>"
	dead  map[string]bool // "<loopName>/<label>": dropped for that loop
	other map[int]*Block  // the recorded block of each ordinal (for its non-invariant clauses)
	synth map[int]*Block  // synthesized blocks, per ordinal, rebuilt for every run
	used  map[string]bool // labels that survived in the last run
	total int
}

func hasLoopBlocks(prog *Program, key string) bool {
	for _, b := range prog.Contracts.Order {
		if b.Key == key && strings.HasPrefix(b.Sub, "loop ") {
			return true
		}
	}
	return false
}

func newRepairState(prog *Program, u *Unit, key string) *repairState {
	rs := &repairState{dead: map[string]bool{}, other: map[int]*Block{}, synth: map[int]*Block{}, used: map[string]bool{}}
	for _, b := range prog.Contracts.Order {
		if b.Key != key || !strings.HasPrefix(b.Sub, "loop ") {
			continue
		}
		var ord int
		fmt.Sscanf(b.Sub, "loop %d", &ord)
		rs.other[ord] = b
		for i, c0 := range b.Of("invariant") {
			if c0.Label == "" {
				c0.Label = fmt.Sprintf("inv%d", i)
			}
			for k, c := range u.splitClause(c0) {
				c.Kind = "invariant"
				c.Label = fmt.Sprintf("L%d.%s.%d", ord, strings.ReplaceAll(c0.Label, "#", "."), k)
				rs.cands = append(rs.cands, c)
			}
		}
	}
	rs.total = len(rs.cands)
	return rs
}

// the block to use for loop `ord` (named loopName in obligation names) in repair mode
func (rs *repairState) blockFor(ord int, key string) *Block {
	if b, ok := rs.synth[ord]; ok {
		return b
	}
	loopName := fmt.Sprintf("loop%d", ord)
	nb := &Block{Key: key, Sub: fmt.Sprintf("loop %d", ord), Opts: map[string]string{}, Bound: true}
	if ob := rs.other[ord]; ob != nil {
		nb.Prop, nb.File, nb.Line = ob.Prop, ob.File, ob.Line
		for k, v := range ob.Opts {
			nb.Opts[k] = v
		}
		for _, c := range ob.Clauses {
			if c.Kind != "invariant" {
				nb.Clauses = append(nb.Clauses, c)
			}
		}
	}
	// the loop's own recorded conjuncts first
	own := fmt.Sprintf("L%d.", ord)
	for pass := 0; pass < 2; pass++ {
		for _, c := range rs.cands {
			if strings.HasPrefix(c.Label, own) != (pass == 0) || rs.dead[loopName+"/"+c.Label] {
				continue
			}
			nb.Clauses = append(nb.Clauses, c)
		}
	}
	rs.synth[ord] = nb
	return nb
}

func invKeyOf(name string) string {
	for _, k := range []string{"/inv-init/", "/inv-keep/"} {
		if i := strings.Index(name, k); i >= 0 {
			loop := name[:i]
			if j := strings.LastIndex(loop, "/"); j >= 0 {
				loop = loop[j+1:]
			}
			label := name[i+len(k):]
			if j := strings.Index(label, "/"); j >= 0 {
				label = label[:j]
			}
			return loop + "/" + label
		}
	}
	return ""
}

// try to verify the unit again with re-bound invariants; nil if that does not succeed
func repairUnit(prog *Program, r unitRun, fast, full *Runner) *Unit {
	key := r.u.FI.Key
	rs := newRepairState(prog, r.u, key)
	if rs.total == 0 {
		return nil
	}
	if prog.repair == nil {
		prog.repair = map[string]*repairState{}
	}
	prog.repair[key] = rs
	defer delete(prog.repair, key)
	for iter := 0; iter < 8; iter++ {
		rs.synth = map[int]*Block{}
		u, err := r.rerun()
		if err != "" || u == nil {
			return nil
		}
		var inv, rest []*Obligation
		for _, ob := range u.Obs {
			if ob.Kind == "inv-init" || ob.Kind == "inv-keep" {
				inv = append(inv, ob)
			} else {
				rest = append(rest, ob)
			}
		}
		fast.Solve(inv)
		dropped := 0
		for _, ob := range inv {
			if ob.Status != "discharged" {
				if k := invKeyOf(ob.Name); k != "" && !rs.dead[k] {
					rs.dead[k] = true
					dropped++
				}
			}
		}
		if dropped > 0 {
			continue
		}
		for _, ob := range inv {
			if ob.Status != "discharged" {
				return nil
			}
		}
		full.Solve(rest)
		for _, ob := range rest {
			if ob.Status != "discharged" {
				return nil
			}
		}
		kept := map[string]bool{}
		for _, ob := range inv {
			kept[invKeyOf(ob.Name)] = true
		}
		var ks []string
		for k := range kept {
			ks = append(ks, k)
		}
		sort.Strings(ks)
		u.note(fmt.Sprintf("loop invariants of %s re-bound after a change of its loops: the recorded invariant conjuncts (%d) were offered to every loop and the inductive ones kept (%d loop/conjunct pairs, %d rounds): %s", key, rs.total, len(ks), iter+1, strings.Join(ks, " ")))
		return u
	}
	return nil
}

func (rs *repairState) deadAny(label string, blk *Block) bool {
	return rs.dead[fmt.Sprintf("loop%s/%s", strings.TrimPrefix(blk.Sub, "loop "), label)]
}
