package main

// Contract files: comment-only Go files (//go:build verif) whose //@ lines carry the contracts.
//
//   //@ func (someDef).ToInt32          opens a block for a function / method
//   //@ func Filter loop 0              ... for the n-th loop (source order) of Filter
//   //@ func Reject lit 0               ... for the n-th function literal of Reject
//   //@   prop C03                      property under which the body is verified
//   //@   arith bv|int
//   //@   requires [label:] e
//   //@   ensures  [label:] e
//   //@   invariant [label:] e
//   //@   modifies <loc>, <loc>
//   //@   decreases e
//   //@   trusted <reason>
//   //@   pure
//   //@ lemma <name> prop Cxx: <e>

import (
	"bufio"
	"fmt"
	"os"
	"regexp"
	"strings"
)

type Clause struct {
	Expanded bool   // Text is already macro-expanded and ==>-rewritten
	Kind     string // requires ensures invariant modifies decreases ghost assume-entry ...
	Label    string
	Text     string
	Line     int
	File     string
}

type Block struct {
	Key     string // normalized function key, e.g. "(someDef).ToInt32" or "Filter"
	Sub     string // "", "loop 0", "lit 1"
	Prop    string
	Arith   string
	Trusted string
	Pure    bool
	Clauses []Clause
	File    string
	Line    int
	Bound   bool
	Opts    map[string]string
}

func (b *Block) Of(kind string) []Clause {
	var out []Clause
	for _, c := range b.Clauses {
		if c.Kind == kind {
			out = append(out, c)
		}
	}
	return out
}

type Lemma struct {
	Name string
	Prop string
	Vars string
	Text string
	File string
	Line int
}

type Macro struct {
	Name   string
	Params []string
	Body   string
}

type Contracts struct {
	Macros map[string]*Macro
	Blocks map[string]*Block // key + "#" + sub
	Order  []*Block
	Lemmas []*Lemma
	Source string // where they were read from
}

func (c *Contracts) Get(key, sub string) *Block {
	return c.Blocks[key+"#"+sub]
}

var labelRe = regexp.MustCompile(`^([A-Za-z][A-Za-z0-9_\-\.]*):\s+(.*)$`)
var funcHdrRe = regexp.MustCompile(`^func\s+(\(\*?[A-Za-z0-9_]+\)\.)?([A-Za-z0-9_]+)(\s+(loop|lit)\s+([A-Za-z0-9_@]+))?\s*$`)

func normKey(recv, name string) string {
	recv = strings.TrimPrefix(strings.TrimSuffix(strings.TrimSuffix(recv, "."), ")"), "(")
	recv = strings.TrimPrefix(recv, "*")
	if recv == "" {
		return name
	}
	return "(" + recv + ")." + name
}

// keyPrefix[file] is prepended to the function keys of that file ("" for the root package, "network:" etc. for the others)
var keyPrefix = map[string]string{}

func ParseContracts(files []string) (*Contracts, error) {
	cs := &Contracts{Blocks: map[string]*Block{}, Macros: map[string]*Macro{}}
	var lastMacro *Macro
	var twins []twinDecl
	for _, f := range files {
		fh, err := os.Open(f)
		if err != nil {
			return nil, err
		}
		sc := bufio.NewScanner(fh)
		sc.Buffer(make([]byte, 1<<20), 1<<20)
		var cur *Block
		var lastClause *Clause
		ln := 0
		for sc.Scan() {
			ln++
			line := strings.TrimSpace(sc.Text())
			if !strings.HasPrefix(line, "//@") {
				continue
			}
			body := strings.TrimSpace(strings.TrimPrefix(line, "//@"))
			if body == "" {
				continue
			}
			if strings.HasPrefix(body, "#") {
				continue // comment
			}
			if strings.HasPrefix(body, "func ") {
				m := funcHdrRe.FindStringSubmatch(body)
				if m == nil {
					return nil, fmt.Errorf("%s:%d: bad func header %q", f, ln, body)
				}
				key := keyPrefix[f] + normKey(m[1], m[2])
				sub := ""
				if m[4] != "" {
					sub = m[4] + " " + m[5]
				}
				if cs.Blocks[key+"#"+sub] != nil {
					return nil, fmt.Errorf("%s:%d: duplicate block %s %s", f, ln, key, sub)
				}
				cur = &Block{Key: key, Sub: sub, File: f, Line: ln, Opts: map[string]string{}}
				cs.Blocks[key+"#"+sub] = cur
				cs.Order = append(cs.Order, cur)
				lastClause = nil
				continue
			}
			if strings.HasPrefix(body, "define ") {
				// define NAME(p1, p2) = body   (textual macro, expanded in every later clause)
				rest := strings.TrimPrefix(body, "define ")
				eq := strings.Index(rest, "=")
				lp := strings.Index(rest, "(")
				rp := strings.Index(rest, ")")
				if eq < 0 || lp < 0 || rp < lp || rp > eq {
					return nil, fmt.Errorf("%s:%d: bad define", f, ln)
				}
				m := &Macro{Name: strings.TrimSpace(rest[:lp]), Body: strings.TrimSpace(rest[eq+1:])}
				for _, prm := range strings.Split(rest[lp+1:rp], ",") {
					if prm = strings.TrimSpace(prm); prm != "" {
						m.Params = append(m.Params, prm)
					}
				}
				cs.Macros[m.Name] = m
				lastMacro = m
				cur = nil
				lastClause = nil
				continue
			}
			if strings.HasPrefix(body, "twin ") {
				// twin <A> <B> [prop Cxx]: B gets copies of all blocks of A (same clauses; parameters must have the same names)
				fs := strings.Fields(strings.TrimPrefix(body, "twin "))
				if len(fs) < 2 {
					return nil, fmt.Errorf("%s:%d: bad twin", f, ln)
				}
				tw := twinDecl{a: fs[0], b: fs[1], file: f, line: ln, prefix: keyPrefix[f]}
				for j := 2; j+1 < len(fs); j += 2 {
					if fs[j] == "prop" {
						tw.prop = fs[j+1]
					}
				}
				twins = append(twins, tw)
				cur = nil
				lastClause = nil
				continue
			}
			if strings.HasPrefix(body, "lemma ") {
				rest := strings.TrimPrefix(body, "lemma ")
				// lemma <name> prop Cxx [vars a Int, b Val]: text
				i := strings.Index(rest, ":")
				if i < 0 {
					return nil, fmt.Errorf("%s:%d: bad lemma", f, ln)
				}
				hdr := strings.Fields(rest[:i])
				lm := &Lemma{Name: hdr[0], Text: strings.TrimSpace(rest[i+1:]), File: f, Line: ln}
				for j := 1; j+1 < len(hdr); j += 2 {
					if hdr[j] == "prop" {
						lm.Prop = hdr[j+1]
					}
				}
				cs.Lemmas = append(cs.Lemmas, lm)
				cur = nil
				continue
			}
			if cur == nil && lastMacro != nil && (strings.HasPrefix(body, "| ") || body == "|") {
				lastMacro.Body += " " + strings.TrimSpace(strings.TrimPrefix(body, "|"))
				continue
			}
			if cur == nil {
				return nil, fmt.Errorf("%s:%d: clause outside block: %q", f, ln, body)
			}
			lastMacro = nil
			if strings.HasPrefix(body, "| ") || body == "|" {
				// continuation of the previous clause
				if lastClause == nil {
					return nil, fmt.Errorf("%s:%d: continuation without clause", f, ln)
				}
				lastClause.Text += " " + strings.TrimSpace(strings.TrimPrefix(body, "|"))
				continue
			}
			fields := strings.SplitN(body, " ", 2)
			kw := fields[0]
			rest := ""
			if len(fields) > 1 {
				rest = strings.TrimSpace(fields[1])
			}
			switch kw {
			case "prop":
				cur.Prop = rest
			case "arith":
				cur.Arith = rest
			case "trusted":
				cur.Trusted = rest
				if rest == "" {
					cur.Trusted = "no reason given"
				}
			case "pure":
				cur.Pure = true
			case "opt":
				kv := strings.SplitN(rest, "=", 2)
				if len(kv) == 2 {
					cur.Opts[strings.TrimSpace(kv[0])] = strings.TrimSpace(kv[1])
				} else {
					cur.Opts[rest] = "true"
				}
			case "requires", "ensures", "invariant", "modifies", "decreases", "ghost", "ghostset", "ghostinit", "ghostbefore", "assume", "hint", "ensures@panic", "callpure", "frame", "assert", "after":
				cl := Clause{Kind: kw, Text: rest, Line: ln, File: f}
				if m := labelRe.FindStringSubmatch(rest); m != nil && kw != "modifies" && kw != "ghost" && kw != "ghostset" && kw != "ghostinit" && kw != "ghostbefore" {
					cl.Label = m[1]
					cl.Text = m[2]
				}
				cur.Clauses = append(cur.Clauses, cl)
				lastClause = &cur.Clauses[len(cur.Clauses)-1]
			default:
				return nil, fmt.Errorf("%s:%d: unknown clause keyword %q", f, ln, kw)
			}
		}
		fh.Close()
	}
	for _, tw := range twins {
		ka := tw.prefix + twinKey(tw.a)
		kb := tw.prefix + twinKey(tw.b)
		found := false
		for _, b := range append([]*Block(nil), cs.Order...) {
			if b.Key != ka {
				continue
			}
			found = true
			nb := &Block{Key: kb, Sub: b.Sub, Prop: b.Prop, Arith: b.Arith, Trusted: b.Trusted, Pure: b.Pure, File: tw.file, Line: tw.line, Opts: map[string]string{}}
			for k, v := range b.Opts {
				nb.Opts[k] = v
			}
			nb.Opts["twin-of"] = ka
			if tw.prop != "" {
				nb.Prop = tw.prop
			}
			nb.Clauses = append([]Clause(nil), b.Clauses...)
			if cs.Blocks[kb+"#"+b.Sub] != nil {
				return nil, fmt.Errorf("%s:%d: twin target %s already has a block", tw.file, tw.line, kb)
			}
			cs.Blocks[kb+"#"+b.Sub] = nb
			cs.Order = append(cs.Order, nb)
		}
		if !found {
			return nil, fmt.Errorf("%s:%d: twin source %s has no block", tw.file, tw.line, tw.a)
		}
	}
	return cs, nil
}

type twinDecl struct {
	prefix           string
	a, b, prop, file string
	line             int
}

func twinKey(s string) string {
	m := funcHdrRe.FindStringSubmatch("func " + s)
	if m == nil {
		return s
	}
	return normKey(m[1], m[2])
}

// ==> is not Go; rewrite "a ==> b" (right associative, lowest precedence) into imp(a, b).
func rewriteImplies(s string) string {
	// find top-level "==>" (outside parens/brackets/strings)
	depth := 0
	inStr := false
	for i := 0; i+2 < len(s); i++ {
		c := s[i]
		if inStr {
			if c == '\\' {
				i++
			} else if c == '"' {
				inStr = false
			}
			continue
		}
		switch c {
		case '"':
			inStr = true
		case '(', '[', '{':
			depth++
		case ')', ']', '}':
			depth--
		}
		if depth == 0 && strings.HasPrefix(s[i:], "==>") {
			return "imp(" + rewriteImpliesInner(s[:i]) + ", " + rewriteImplies(s[i+3:]) + ")"
		}
	}
	return rewriteImpliesInner(s)
}

// rewrite inside parenthesised sub-expressions
func rewriteImpliesInner(s string) string {
	if !strings.Contains(s, "==>") {
		return s
	}
	var b strings.Builder
	i := 0
	for i < len(s) {
		c := s[i]
		if c == '"' {
			j := i + 1
			for j < len(s) && s[j] != '"' {
				if s[j] == '\\' {
					j++
				}
				j++
			}
			b.WriteString(s[i:min(j+1, len(s))])
			i = j + 1
			continue
		}
		if c == '(' {
			// find matching paren
			depth := 0
			j := i
			for j < len(s) {
				if s[j] == '(' {
					depth++
				} else if s[j] == ')' {
					depth--
					if depth == 0 {
						break
					}
				}
				j++
			}
			if j >= len(s) {
				b.WriteString(s[i:])
				break
			}
			inner := s[i+1 : j]
			// split inner at top-level commas so that call arguments are handled separately
			parts := splitTopLevel(inner, ',')
			for k, p := range parts {
				parts[k] = rewriteImplies(p)
			}
			b.WriteByte('(')
			b.WriteString(strings.Join(parts, ","))
			b.WriteByte(')')
			i = j + 1
			continue
		}
		b.WriteByte(c)
		i++
	}
	return b.String()
}

func splitTopLevel(s string, sep byte) []string {
	var parts []string
	depth := 0
	inStr := false
	start := 0
	for i := 0; i < len(s); i++ {
		c := s[i]
		if inStr {
			if c == '\\' {
				i++
			} else if c == '"' {
				inStr = false
			}
			continue
		}
		switch c {
		case '"':
			inStr = true
		case '(', '[', '{':
			depth++
		case ')', ']', '}':
			depth--
		default:
			if c == sep && depth == 0 {
				parts = append(parts, s[start:i])
				start = i + 1
			}
		}
	}
	parts = append(parts, s[start:])
	return parts
}

var identRe = regexp.MustCompile(`[A-Za-z_][A-Za-z0-9_]*`)

// expand macros textually (innermost-out, bounded depth)
func (c *Contracts) Expand(text string) string {
	for depth := 0; depth < 8; depth++ {
		changed := false
		for name, m := range c.Macros {
			for {
				idx := findCall(text, name)
				if idx < 0 {
					break
				}
				// find matching paren
				lp := idx + len(name)
				d := 0
				rp := -1
				for j := lp; j < len(text); j++ {
					if text[j] == '(' {
						d++
					} else if text[j] == ')' {
						d--
						if d == 0 {
							rp = j
							break
						}
					}
				}
				if rp < 0 {
					break
				}
				args := splitTopLevel(text[lp+1:rp], ',')
				if len(args) == 1 && strings.TrimSpace(args[0]) == "" {
					args = nil
				}
				if len(args) != len(m.Params) {
					break
				}
				sub := map[string]string{}
				for i, prm := range m.Params {
					sub[prm] = "(" + strings.TrimSpace(args[i]) + ")"
				}
				body := identRe.ReplaceAllStringFunc(m.Body, func(id string) string {
					if r, ok := sub[id]; ok {
						return r
					}
					return id
				})
				text = text[:idx] + "(" + body + ")" + text[rp+1:]
				changed = true
			}
		}
		if !changed {
			break
		}
	}
	return text
}

func findCall(text, name string) int {
	from := 0
	for {
		i := strings.Index(text[from:], name+"(")
		if i < 0 {
			return -1
		}
		i += from
		if i == 0 || !(isIdentChar(text[i-1])) {
			return i
		}
		from = i + 1
	}
}

func isIdentChar(c byte) bool {
	return c == '_' || (c >= 'a' && c <= 'z') || (c >= 'A' && c <= 'Z') || (c >= '0' && c <= '9')
}
