//go:build verif

// Contracts for package network (comment-only; see /verif/DESIGN.md).
package network

// ===================================================================================================
// C18 - interceptors: each once, in registration order, before the transport; an error aborts.
// Ghost trace events (see DESIGN.md): kind 1 = synchronous call of a function value (tr_fn, tr_arg, tr_err),
// kind 2 = call through the wrapped http.RoundTripper (tr_recv = the transport, tr_arg = the request).
// "stop" is the index of the first interceptor (>= index) that returned an error, or the number of interceptors.

//@ define IC_LIST(s) = forall(k, 0, len(s.interceptors), s.interceptors[k] != nil && *s.interceptors[k] != nil)

//@ func (SimpleHTTPDef).recursiveVisit
//@   prop C18
//@   opt callbacks=effectful
//@   opt effects=trace
//@   ghost stop Int
//@   decreases len(simpleHTTPSelf.interceptors) - index
//@   requires simpleHTTPSelf != nil && !untyped(simpleHTTPSelf.clientTransport) && 0 <= index && index <= len(simpleHTTPSelf.interceptors) && IC_LIST(simpleHTTPSelf)
//@   ghostset stop = ite(index >= len(simpleHTTPSelf.interceptors), len(simpleHTTPSelf.interceptors), ite(tr_err[old(tr_len)] != nil, index, stop))
//@   ensures range: index <= stop && stop <= len(simpleHTTPSelf.interceptors)
//@   ensures passed: forall(k, index, stop, tr_kind[old(tr_len)+k-index] == 1 && tr_fn[old(tr_len)+k-index] == *simpleHTTPSelf.interceptors[k] && tr_arg[old(tr_len)+k-index] == boxed(request) && tr_err[old(tr_len)+k-index] == nil)
//@   ensures aborted: stop < len(simpleHTTPSelf.interceptors) ==> tr_len == old(tr_len)+stop-index+1 && tr_kind[tr_len-1] == 1 && tr_fn[tr_len-1] == *simpleHTTPSelf.interceptors[stop] && tr_arg[tr_len-1] == boxed(request) && tr_err[tr_len-1] != nil && r1 == tr_err[tr_len-1] && r0 == nil
//@   ensures transport: stop == len(simpleHTTPSelf.interceptors) ==> tr_len == old(tr_len)+stop-index+1 && tr_kind[tr_len-1] == 2 && tr_recv[tr_len-1] == simpleHTTPSelf.clientTransport && tr_arg[tr_len-1] == boxed(request) && r1 == tr_err[tr_len-1]

//@ func (SimpleHTTPDef).RoundTrip
//@   prop C18
//@   opt callbacks=effectful
//@   opt effects=trace
//@   ghost stop Int
//@   requires simpleHTTPSelf != nil && !untyped(simpleHTTPSelf.clientTransport) && IC_LIST(simpleHTTPSelf)
//@   ensures range: 0 <= stop && stop <= len(simpleHTTPSelf.interceptors)
//@   ensures passed: forall(k, 0, stop, tr_kind[old(tr_len)+k] == 1 && tr_fn[old(tr_len)+k] == *simpleHTTPSelf.interceptors[k] && tr_arg[old(tr_len)+k] == boxed(request) && tr_err[old(tr_len)+k] == nil)
//@   ensures aborted: stop < len(simpleHTTPSelf.interceptors) ==> tr_len == old(tr_len)+stop+1 && tr_kind[tr_len-1] == 1 && tr_fn[tr_len-1] == *simpleHTTPSelf.interceptors[stop] && tr_arg[tr_len-1] == boxed(request) && tr_err[tr_len-1] != nil && r1 == tr_err[tr_len-1] && r0 == nil
//@   ensures transport: stop == len(simpleHTTPSelf.interceptors) ==> tr_len == old(tr_len)+stop+1 && tr_kind[tr_len-1] == 2 && tr_recv[tr_len-1] == simpleHTTPSelf.clientTransport && tr_arg[tr_len-1] == boxed(request) && r1 == tr_err[tr_len-1]

// the interceptor list is edited only through the persistent Stream operations (C04): the list after Add is the old list
// followed by the new interceptors, and nothing that existed before is written (frame obligations)
//@ func (SimpleHTTPDef).AddInterceptor
//@   prop C18
//@   modifies simpleHTTPSelf
//@   requires simpleHTTPSelf != nil
//@   ensures appended: len(simpleHTTPSelf.interceptors) == old(len(simpleHTTPSelf.interceptors)) + len(interceptors)
//@   ensures old-ones-first-in-order: forall(k, 0, old(len(simpleHTTPSelf.interceptors)), simpleHTTPSelf.interceptors[k] == oldheap(old(simpleHTTPSelf.interceptors)[k]))
//@   ensures new-ones-after-in-order: forall(j, 0, len(interceptors), simpleHTTPSelf.interceptors[old(len(simpleHTTPSelf.interceptors))+j] == interceptors[j])
//@   ensures others: simpleHTTPSelf.clientTransport == old(simpleHTTPSelf.clientTransport) && simpleHTTPSelf.lastTransport == old(simpleHTTPSelf.lastTransport) && simpleHTTPSelf.client == old(simpleHTTPSelf.client)
//@ func (SimpleHTTPDef).AddInterceptor loop 0
//@   invariant sofar: len(simpleHTTPSelf.interceptors) == old(len(simpleHTTPSelf.interceptors)) + _i
//@   invariant old-ones: forall(k, 0, old(len(simpleHTTPSelf.interceptors)), simpleHTTPSelf.interceptors[k] == oldheap(old(simpleHTTPSelf.interceptors)[k]))
//@   invariant new-ones: forall(j, 0, _i, simpleHTTPSelf.interceptors[old(len(simpleHTTPSelf.interceptors))+j] == interceptors[j])
//@   invariant others: simpleHTTPSelf.clientTransport == old(simpleHTTPSelf.clientTransport) && simpleHTTPSelf.lastTransport == old(simpleHTTPSelf.lastTransport) && simpleHTTPSelf.client == old(simpleHTTPSelf.client)

//@ func (SimpleHTTPDef).ClearInterceptor
//@   prop C18
//@   modifies simpleHTTPSelf
//@   requires simpleHTTPSelf != nil
//@   ensures cleared: len(simpleHTTPSelf.interceptors) == 0
//@   ensures others: simpleHTTPSelf.clientTransport == old(simpleHTTPSelf.clientTransport) && simpleHTTPSelf.lastTransport == old(simpleHTTPSelf.lastTransport) && simpleHTTPSelf.client == old(simpleHTTPSelf.client)

// RemoveInterceptor: built from the persistent RemoveItem (C04): none of the given interceptors remains, everything that
// remains was in the old list, and every old interceptor that was not given remains (membership level; that the remaining ones
// keep their relative order follows from RemoveItem's own contract and is not restated here); nothing pre-existing is written
//@ func (SimpleHTTPDef).RemoveInterceptor
//@   prop C18
//@   modifies simpleHTTPSelf
//@   requires simpleHTTPSelf != nil
//@   ensures shrinks: len(simpleHTTPSelf.interceptors) <= old(len(simpleHTTPSelf.interceptors))
//@   ensures none-of-them-remains: forall(j, 0, len(simpleHTTPSelf.interceptors), !exists(i, 0, len(interceptors), interceptors[i] == simpleHTTPSelf.interceptors[j]))
//@   ensures only-old-ones: forall(j, 0, len(simpleHTTPSelf.interceptors), exists(k, 0, old(len(simpleHTTPSelf.interceptors)), oldheap(old(simpleHTTPSelf.interceptors)[k]) == simpleHTTPSelf.interceptors[j]))
//@   ensures others-remain: forall(k, 0, old(len(simpleHTTPSelf.interceptors)), !exists(i, 0, len(interceptors), interceptors[i] == oldheap(old(simpleHTTPSelf.interceptors)[k])) ==> exists(j, 0, len(simpleHTTPSelf.interceptors), simpleHTTPSelf.interceptors[j] == oldheap(old(simpleHTTPSelf.interceptors)[k])))
//@   ensures others: simpleHTTPSelf.clientTransport == old(simpleHTTPSelf.clientTransport) && simpleHTTPSelf.lastTransport == old(simpleHTTPSelf.lastTransport) && simpleHTTPSelf.client == old(simpleHTTPSelf.client)
//@ func (SimpleHTTPDef).RemoveInterceptor loop 0
//@   invariant shrinks: len(simpleHTTPSelf.interceptors) <= old(len(simpleHTTPSelf.interceptors))
//@   invariant none-of-them-remains: forall(j, 0, len(simpleHTTPSelf.interceptors), !exists(i, 0, _i, interceptors[i] == simpleHTTPSelf.interceptors[j]))
//@   invariant only-old-ones: forall(j, 0, len(simpleHTTPSelf.interceptors), exists(k, 0, old(len(simpleHTTPSelf.interceptors)), oldheap(old(simpleHTTPSelf.interceptors)[k]) == simpleHTTPSelf.interceptors[j]))
//@   invariant others-remain: forall(k, 0, old(len(simpleHTTPSelf.interceptors)), !exists(i, 0, _i, interceptors[i] == oldheap(old(simpleHTTPSelf.interceptors)[k])) ==> exists(j, 0, len(simpleHTTPSelf.interceptors), simpleHTTPSelf.interceptors[j] == oldheap(old(simpleHTTPSelf.interceptors)[k])))
//@   invariant others: simpleHTTPSelf.clientTransport == old(simpleHTTPSelf.clientTransport) && simpleHTTPSelf.lastTransport == old(simpleHTTPSelf.lastTransport) && simpleHTTPSelf.client == old(simpleHTTPSelf.client)

// SetHTTPClient: the SimpleHTTP becomes the client's transport exactly once; the wrapped transport is never the SimpleHTTP itself
//@ func (SimpleHTTPDef).SetHTTPClient
//@   prop C18
//@   modifies simpleHTTPSelf, client
//@   requires simpleHTTPSelf != nil && client != nil
//@   requires entry: untyped(simpleHTTPSelf.lastTransport) || (simpleHTTPSelf.lastTransport == boxed(simpleHTTPSelf) && !untyped(simpleHTTPSelf.clientTransport) && simpleHTTPSelf.clientTransport != boxed(simpleHTTPSelf))
//@   requires not-prewrapped-by-other-means: client.Transport != boxed(simpleHTTPSelf) || simpleHTTPSelf.lastTransport == boxed(simpleHTTPSelf)
//@   ensures installed: client.Transport == boxed(simpleHTTPSelf) && simpleHTTPSelf.lastTransport == boxed(simpleHTTPSelf) && simpleHTTPSelf.client == client
//@   ensures wrapped: !untyped(simpleHTTPSelf.clientTransport) && simpleHTTPSelf.clientTransport != boxed(simpleHTTPSelf)
//@   ensures idempotent: old(client.Transport) == boxed(simpleHTTPSelf) ==> simpleHTTPSelf.clientTransport == old(simpleHTTPSelf.clientTransport)
//@   ensures list: simpleHTTPSelf.interceptors == old(simpleHTTPSelf.interceptors)

// ===================================================================================================
// C17 - SimpleAPI sends exactly the request it was defined with, lazily, and decodes the answer.
// TRUSTED library models (engine): http.NewRequestWithContext (fresh request with the given method, URL string and body, or
// (nil, err)), http.Header.Clone (a fresh map with the same entries; nil for nil), http.Header.Add (a write to that map),
// http.Client.Do (one event of kind 2: tr_obj = the client, tr_fn = method("http.Client.Do"), tr_arg = the request,
// tr_err = the error; nil error comes with a response that has a Body), fmt.Sprintf / strings.ReplaceAll (uninterpreted,
// deterministic).  Strings are not interpreted: the URL clause says WHICH ReplaceAll applications are composed.

// DoRequest: exactly one client.Do with exactly this request; the answer is wrapped as it came
//@ func (SimpleHTTPDef).DoRequest
//@   prop C17
//@   opt callbacks=effectful
//@   opt effects=trace
//@   requires simpleHTTPSelf != nil && simpleHTTPSelf.client != nil
//@   ensures one-do: tr_len == old(tr_len)+1 && tr_kind[old(tr_len)] == 2 && tr_fn[old(tr_len)] == method("http.Client.Do") && tr_obj[old(tr_len)] == simpleHTTPSelf.client && tr_arg[old(tr_len)] == boxed(request)
//@   ensures wrapped: r0 != nil && fresh(r0) && r0.Request == request && r0.Err == tr_err[old(tr_len)] && boxed(r0.Response) == tr_res[old(tr_len)] && (r0.Err == nil ==> r0.Response != nil && !untyped(r0.Response.Body))

// DoNewRequest: a request that cannot be built is reported as Err without any network call; otherwise exactly one Do of a
// fresh request with the given method and URL whose header is the given header object (when one is given)
//@ func (SimpleHTTPDef).DoNewRequest
//@   prop C17
//@   opt callbacks=effectful
//@   opt effects=trace
//@   requires simpleHTTPSelf != nil && simpleHTTPSelf.client != nil
//@   ensures result: r0 != nil && fresh(r0)
//@   ensures not-built: r0.Request == nil ==> tr_len == old(tr_len) && r0.Err != nil
//@   ensures sent-once: r0.Request != nil ==> tr_len == old(tr_len)+1 && tr_kind[old(tr_len)] == 2 && tr_fn[old(tr_len)] == method("http.Client.Do") && tr_obj[old(tr_len)] == simpleHTTPSelf.client && tr_arg[old(tr_len)] == boxed(r0.Request) && r0.Err == tr_err[old(tr_len)]
//@   ensures as-defined: r0.Request != nil ==> fresh(r0.Request) && r0.Request.Method == method && r0.Request.URL != nil && urlString(r0.Request.URL) == givenURL && (header != nil ==> r0.Request.Header == header)
//@   ensures answered: r0.Request != nil && r0.Err == nil ==> r0.Response != nil && !untyped(r0.Response.Body)

// the verb helpers: one request with that verb, that URL, no caller header (and, for the body verbs, that body and
// Content-Type), under the instance's timeout context
//@ define VERB_SENT(m) = r0 != nil && fresh(r0) && (r0.Request == nil ==> tr_len == old(tr_len) && r0.Err != nil) && (r0.Request != nil ==> tr_len == old(tr_len)+1 && tr_kind[old(tr_len)] == 2 && tr_fn[old(tr_len)] == method("http.Client.Do") && tr_obj[old(tr_len)] == simpleHTTPSelf.client && tr_arg[old(tr_len)] == boxed(r0.Request) && r0.Err == tr_err[old(tr_len)] && r0.Request.Method == m && r0.Request.URL != nil && urlString(r0.Request.URL) == givenURL)
//@ func (SimpleHTTPDef).Get
//@   prop C17
//@   opt callbacks=effectful
//@   opt effects=trace
//@   requires simpleHTTPSelf != nil && simpleHTTPSelf.client != nil
//@   ensures one-get: VERB_SENT("GET")
//@ func (SimpleHTTPDef).Head
//@   prop C17
//@   opt callbacks=effectful
//@   opt effects=trace
//@   requires simpleHTTPSelf != nil && simpleHTTPSelf.client != nil
//@   ensures one-head: VERB_SENT("HEAD")
//@ func (SimpleHTTPDef).Options
//@   prop C17
//@   opt callbacks=effectful
//@   opt effects=trace
//@   requires simpleHTTPSelf != nil && simpleHTTPSelf.client != nil
//@   ensures one-options: VERB_SENT("OPTIONS")
//@ func (SimpleHTTPDef).Delete
//@   prop C17
//@   opt callbacks=effectful
//@   opt effects=trace
//@   requires simpleHTTPSelf != nil && simpleHTTPSelf.client != nil
//@   ensures one-delete: VERB_SENT("DELETE")

//@ define VERB_SENT_BODY(m) = VERB_SENT(m) && (r0.Request != nil ==> r0.Request.Body == reqBodyOf(body) && (contentType != "" ==> r0.Request.Header != nil && has(r0.Request.Header, "Content-Type")))
//@ func (SimpleHTTPDef).Post
//@   prop C17
//@   opt callbacks=effectful
//@   opt effects=trace
//@   requires simpleHTTPSelf != nil && simpleHTTPSelf.client != nil
//@   ensures one-post: VERB_SENT_BODY("POST")
//@ func (SimpleHTTPDef).Put
//@   prop C17
//@   opt callbacks=effectful
//@   opt effects=trace
//@   requires simpleHTTPSelf != nil && simpleHTTPSelf.client != nil
//@   ensures one-put: VERB_SENT_BODY("PUT")
//@ func (SimpleHTTPDef).Patch
//@   prop C17
//@   opt callbacks=effectful
//@   opt effects=trace
//@   requires simpleHTTPSelf != nil && simpleHTTPSelf.client != nil
//@   ensures one-patch: VERB_SENT_BODY("PATCH")

//@ func (SimpleAPIDef).GetSimpleHTTP
//@   prop C17
//@   requires simpleAPISelf != nil
//@   ensures def: r0 == simpleAPISelf.simpleHTTP
//@ func NewSimpleAPIWithSimpleHTTP
//@   prop C17
//@   ensures made: r0 != nil && fresh(r0) && r0.simpleHTTP == simpleHTTP && r0.DefaultHeader == nil
//@ func NewSimpleAPI
//@   prop C17
//@   ensures made: r0 != nil && fresh(r0) && r0.simpleHTTP != nil && fresh(r0.simpleHTTP) && r0.DefaultHeader == nil

//@ func (SimpleHTTPDef).DoNewRequestWithBodyOptions
//@   prop C17
//@   opt callbacks=effectful
//@   opt effects=trace
//@   modifies header
//@   requires simpleHTTPSelf != nil && simpleHTTPSelf.client != nil
//@   ensures result: r0 != nil && fresh(r0)
//@   ensures not-built: r0.Request == nil ==> tr_len == old(tr_len) && r0.Err != nil
//@   ensures sent-once: r0.Request != nil ==> tr_len == old(tr_len)+1 && tr_kind[old(tr_len)] == 2 && tr_fn[old(tr_len)] == method("http.Client.Do") && tr_obj[old(tr_len)] == simpleHTTPSelf.client && tr_arg[old(tr_len)] == boxed(r0.Request) && r0.Err == tr_err[old(tr_len)]
//@   ensures as-defined: r0.Request != nil ==> fresh(r0.Request) && r0.Request.Method == method && r0.Request.URL != nil && urlString(r0.Request.URL) == givenURL && r0.Request.Body == reqBodyOf(body) && (header != nil ==> r0.Request.Header == header)
//@   ensures content-type: r0.Request != nil && contentType != "" ==> r0.Request.Header != nil && has(r0.Request.Header, "Content-Type") && (header != nil ==> r0.Request.Header["Content-Type"] == hdrAdded(old(header["Content-Type"]), contentType))
//@   ensures answered: r0.Request != nil && r0.Err == nil ==> r0.Response != nil && !untyped(r0.Response.Body)

// replacePathParams: BaseURL + "/" + the template with one ReplaceAll per supplied key, each applied to the result of the
// previous one (acc), for every key of the map exactly once (keys[j] = j-th key in this run's iteration order):
//   acc[0] = template,  acc[j+1] = ReplaceAll(acc[j], Sprintf("{%s}", keys[j]), Sprintf("%v", pathParam[keys[j]]))
//@ func (SimpleAPIDef).replacePathParams
//@   prop C17
//@   ghost keys (Array Int Str)
//@   ghost acc (Array Int Str)
//@   ghostinit acc = store(acc, 0, relativeURL)
//@   requires simpleAPISelf != nil
//@   ensures every-key-once: forall(j, 0, len(pathParam), has(pathParam, keys[j])) && forall2(j, 0, len(pathParam), l, 0, len(pathParam), j != l ==> keys[j] != keys[l])
//@   ensures accumulates: acc[0] == relativeURL && forall(j, 0, len(pathParam), acc[j+1] == replaceAll(acc[j], sprintf("{%s}", keys[j]), sprintf("%v", pathParam[keys[j]])))
//@   ensures url: r0 == simpleAPISelf.BaseURL + "/" + acc[len(pathParam)]
//@ func (SimpleAPIDef).replacePathParams loop 0
//@   ghostset keys = store(keys, _i, k)
//@   ghostset acc = store(acc, _i+1, finalURL)
//@   invariant keys-so-far: forall(j, 0, _i, keys[j] == _keyat(j))
//@   invariant accumulates: acc[0] == relativeURL && finalURL == acc[_i] && forall(j, 0, _i, acc[j+1] == replaceAll(acc[j], sprintf("{%s}", keys[j]), sprintf("%v", pathParam[keys[j]])))

// GeneralMultipartSerializer (the default RequestSerializerForMultipart): a failure comes back as a non-nil error with no
// body and no content type; success is a nil error WITH a body.  "(nil, \"\", nil)" - no body, no error - is never returned,
// so a form that cannot be serialized (a file that cannot be opened, a part that cannot be created) cannot turn into a
// request without a body.  What the multipart writer puts into the buffer is inside mime/multipart and not specified here.
//@ func GeneralMultipartSerializer
//@   prop C17
//@   requires form != nil
//@   ensures error-or-body: (r2 != nil ==> untyped(r0) && r1 == "") && (r2 == nil ==> !untyped(r0))
//@ func GeneralMultipartSerializer loop 0
//@   invariant live: body != nil
//@ func GeneralMultipartSerializer loop 1
//@   invariant live: body != nil
//@ func GeneralMultipartSerializer loop 2
//@   invariant live: body != nil
//@ func GeneralMultipartSerializer loop 3
//@   invariant live: body != nil

// The default JSON (de)serializers: the deserializer hands back the caller's own target (whatever encoding/json wrote into it)
// together with Unmarshal's error; the serializer returns no body when Marshal fails.  What encoding/json reads and writes is
// inside the library and not specified here.
//@ func JSONBodyDeserializer
//@   prop C17
//@   ensures same-target: r0 == target
//@ func JSONBodySerializer
//@   prop C17
//@   ensures error-no-body: r1 != nil ==> untyped(r0)

// decodeResponseBody never panics: a read error or a deserializer error comes back as Err on the same response object; the
// deserializer is called exactly once with the bytes read and the caller's target; its result becomes TargetObject only when it
// is a *R (whatever a custom deserializer returns)
//@ func decodeResponseBody
//@   prop C17
//@   opt callbacks=effectful
//@   opt effects=trace
//@   modifies response
//@   requires simpleAPISelf != nil && simpleAPISelf.ResponseDeserializer != nil && response != nil && response.Response != nil && !untyped(response.Response.Body)
//@   ensures same-object: r0 == response
//@   ensures read-failed: tr_len == old(tr_len) ==> r0.Err != nil && r0.TargetObject == old(response.TargetObject)
//@   ensures decoded-once: tr_len != old(tr_len) ==> tr_len == old(tr_len)+1 && tr_kind[old(tr_len)] == 1 && tr_fn[old(tr_len)] == simpleAPISelf.ResponseDeserializer && tr_args[old(tr_len)][1] == boxed(target) && r0.Err == tr_err[old(tr_len)]
// ReadAll_r0 / ReadAll_r1: what the (opaque) ioutil.ReadAll of the body returned.  A failed read is reported as it is and
// nothing is decoded; otherwise the deserializer gets exactly the bytes read.
//@   ensures@body read-error-reported-undecoded: ReadAll_r1 != nil ==> tr_len == old(tr_len) && r0.Err == ReadAll_r1
//@   ensures@body decodes-what-was-read: ReadAll_r1 == nil ==> tr_len == old(tr_len)+1 && tr_args[old(tr_len)][0] == boxed(ReadAll_r0)

// ---------------------------------------------------------------------------------------------------
// The API constructors.  Three layers, each with its own contract:
//  (1) APIMakeXxx and the generic constructor run nothing (the trace is unchanged) and return the constructor's literal 0
//      capturing exactly their arguments; the named ones pass the verb / content type / serializer their name promises;
//  (2) literal 0 - the func(pathParam, [body,] target) the user calls - runs nothing and returns a MonadIO whose effect is
//      literal 1 (created in that call), with no handlers;
//  (3) literal 1 - the effect, verified for arbitrary captured state, so for every evaluation - serializes (when there is a
//      body), sends at most one request - none when serializing or building the request failed - with the captured method,
//      the URL replacePathParams returned for the captured template and parameters, a header that is a fresh clone of
//      DefaultHeader (never the shared map), the serializer's reader and the declared content type; a transport error comes
//      back as Err; otherwise the answer goes through decodeResponseBody once.
//@ define API_WF(a) = a != nil && a.simpleHTTP != nil && a.simpleHTTP.client != nil && a.ResponseDeserializer != nil

//@ func APIMakeDoNewRequest
//@   prop C17,C18
//@   opt callbacks=effectful
//@   opt effects=trace
//@   opt returns-lit=0
//@   ensures lazy: tr_len == old(tr_len)
//@ func APIMakeDoNewRequest lit 0
//@   prop C17,C18
//@   opt callbacks=effectful
//@   opt effects=trace
//@   ensures lazy: tr_len == old(tr_len)
//@   ensures deferred: r0 != nil && fresh(r0) && r0.effect == _lit1 && r0.obOn == nil && r0.subOn == nil
//@ func APIMakeDoNewRequest lit 1
//@   prop C17,C18
//@   opt callbacks=effectful
//@   opt effects=trace
//@   requires API_WF(simpleAPISelf)
//@   ensures result: r0 != nil
//@   ensures context-outlives-the-decoding: _cancel_at == tr_len
//@   ensures defined-request: DoNewRequest_arg_method == method && DoNewRequest_arg_givenURL == replacePathParams_r0 && replacePathParams_arg_relativeURL == relativeURL && replacePathParams_arg_pathParam == pathParam && DoNewRequest_arg_simpleHTTPSelf == simpleAPISelf.simpleHTTP
//@   ensures header-is-a-copy: (simpleAPISelf.DefaultHeader == nil ==> DoNewRequest_arg_header == nil) && (simpleAPISelf.DefaultHeader != nil ==> DoNewRequest_arg_header != nil && fresh(DoNewRequest_arg_header) && DoNewRequest_arg_header != simpleAPISelf.DefaultHeader)
//@   ensures not-built: DoNewRequest_r0.Request == nil ==> tr_len == old(tr_len) && r0.ResponseWithError.Err != nil
//@   ensures one-request: DoNewRequest_r0.Request != nil ==> tr_len >= old(tr_len)+1 && tr_kind[old(tr_len)] == 2 && tr_fn[old(tr_len)] == method("http.Client.Do") && tr_obj[old(tr_len)] == simpleAPISelf.simpleHTTP.client && tr_arg[old(tr_len)] == boxed(DoNewRequest_r0.Request) && forall(k, old(tr_len)+1, tr_len, tr_kind[k] != 2)
//@   ensures transport-error: DoNewRequest_r0.Request != nil && tr_err[old(tr_len)] != nil ==> tr_len == old(tr_len)+1 && r0.ResponseWithError.Err == tr_err[old(tr_len)]
//@   ensures decoded: DoNewRequest_r0.Request != nil && tr_err[old(tr_len)] == nil ==> r0 == decodeResponseBody_r0 && decodeResponseBody_arg_target == target && tr_len <= old(tr_len)+2

//@ define REQ_EVENT(e, api, rwe) = tr_kind[e] == 2 && tr_fn[e] == method("http.Client.Do") && tr_obj[e] == api.simpleHTTP.client && tr_arg[e] == boxed(rwe.Request)

//@ func APIMakeDoNewRequestWithBodySerializer
//@   prop C17,C18
//@   opt callbacks=effectful
//@   opt effects=trace
//@   opt returns-lit=0
//@   ensures lazy: tr_len == old(tr_len)
//@ func APIMakeDoNewRequestWithBodySerializer lit 0
//@   prop C17,C18
//@   opt callbacks=effectful
//@   opt effects=trace
//@   ensures lazy: tr_len == old(tr_len)
//@   ensures deferred: r0 != nil && fresh(r0) && r0.effect == _lit1 && r0.obOn == nil && r0.subOn == nil
//@ func APIMakeDoNewRequestWithBodySerializer lit 1
//@   prop C17,C18
//@   opt callbacks=effectful
//@   opt effects=trace
//@   requires API_WF(simpleAPISelf) && bodySerializer != nil
//@   ensures result: r0 != nil
//@   ensures context-outlives-the-decoding: absent(body) || tr_err[old(tr_len)] == nil ==> _cancel_at == tr_len
//@   ensures serialized-first: !absent(body) ==> tr_len >= old(tr_len)+1 && tr_kind[old(tr_len)] == 1 && tr_fn[old(tr_len)] == bodySerializer && tr_arg[old(tr_len)] == body
//@   ensures serializer-error: !absent(body) && tr_err[old(tr_len)] != nil ==> tr_len == old(tr_len)+1 && r0.ResponseWithError.Err == tr_err[old(tr_len)]
//@   ensures defined-request: absent(body) || tr_err[old(tr_len)] == nil ==> DoNewRequestWithBodyOptions_arg_method == method && DoNewRequestWithBodyOptions_arg_givenURL == replacePathParams_r0 && replacePathParams_arg_relativeURL == relativeURL && replacePathParams_arg_pathParam == pathParam && DoNewRequestWithBodyOptions_arg_contentType == contentType && DoNewRequestWithBodyOptions_arg_simpleHTTPSelf == simpleAPISelf.simpleHTTP
//@   ensures body-sent: (absent(body) ==> untyped(DoNewRequestWithBodyOptions_arg_body)) && (!absent(body) && tr_err[old(tr_len)] == nil ==> DoNewRequestWithBodyOptions_arg_body == tr_ress[old(tr_len)][0])
//@   ensures header-is-a-copy: absent(body) || tr_err[old(tr_len)] == nil ==> (simpleAPISelf.DefaultHeader == nil ==> DoNewRequestWithBodyOptions_arg_header == nil) && (simpleAPISelf.DefaultHeader != nil ==> DoNewRequestWithBodyOptions_arg_header != nil && fresh(DoNewRequestWithBodyOptions_arg_header) && DoNewRequestWithBodyOptions_arg_header != simpleAPISelf.DefaultHeader)
//@   ensures one-request-no-body: absent(body) && DoNewRequestWithBodyOptions_r0.Request != nil ==> tr_len >= old(tr_len)+1 && REQ_EVENT(old(tr_len), simpleAPISelf, DoNewRequestWithBodyOptions_r0) && forall(k, old(tr_len)+1, tr_len, tr_kind[k] != 2)
//@   ensures one-request-body: !absent(body) && tr_err[old(tr_len)] == nil && DoNewRequestWithBodyOptions_r0.Request != nil ==> tr_len >= old(tr_len)+2 && REQ_EVENT(old(tr_len)+1, simpleAPISelf, DoNewRequestWithBodyOptions_r0) && forall(k, old(tr_len)+2, tr_len, tr_kind[k] != 2)
//@   ensures not-built: (absent(body) || tr_err[old(tr_len)] == nil) && DoNewRequestWithBodyOptions_r0.Request == nil ==> forall(k, old(tr_len), tr_len, tr_kind[k] != 2) && r0.ResponseWithError.Err != nil
//@   ensures transport-error: (absent(body) || tr_err[old(tr_len)] == nil) && DoNewRequestWithBodyOptions_r0.Request != nil && DoNewRequestWithBodyOptions_r0.Err != nil ==> r0.ResponseWithError.Err == DoNewRequestWithBodyOptions_r0.Err
//@   ensures decoded: (absent(body) || tr_err[old(tr_len)] == nil) && DoNewRequestWithBodyOptions_r0.Request != nil && DoNewRequestWithBodyOptions_r0.Err == nil ==> r0 == decodeResponseBody_r0 && decodeResponseBody_arg_target == target

//@ func APIMakeDoNewRequestWithMultipartSerializer
//@   prop C17,C18
//@   opt callbacks=effectful
//@   opt effects=trace
//@   opt returns-lit=0
//@   ensures lazy: tr_len == old(tr_len)
//@ func APIMakeDoNewRequestWithMultipartSerializer lit 0
//@   prop C17,C18
//@   opt callbacks=effectful
//@   opt effects=trace
//@   ensures lazy: tr_len == old(tr_len)
//@   ensures deferred: r0 != nil && fresh(r0) && r0.effect == _lit1 && r0.obOn == nil && r0.subOn == nil
//@ func APIMakeDoNewRequestWithMultipartSerializer lit 1
//@   prop C17,C18
//@   opt callbacks=effectful
//@   opt effects=trace
//@   requires API_WF(simpleAPISelf) && multipartSerializer != nil
//@   ensures result: r0 != nil
//@   ensures context-outlives-the-decoding: absent(boxed(body)) || tr_err[old(tr_len)] == nil ==> _cancel_at == tr_len
//@   ensures serialized-first: !absent(boxed(body)) ==> tr_len >= old(tr_len)+1 && tr_kind[old(tr_len)] == 1 && tr_fn[old(tr_len)] == multipartSerializer && tr_arg[old(tr_len)] == boxed(body)
//@   ensures serializer-error: !absent(boxed(body)) && tr_err[old(tr_len)] != nil ==> tr_len == old(tr_len)+1 && r0.ResponseWithError.Err == tr_err[old(tr_len)]
//@   ensures defined-request: absent(boxed(body)) || tr_err[old(tr_len)] == nil ==> DoNewRequestWithBodyOptions_arg_method == method && DoNewRequestWithBodyOptions_arg_givenURL == replacePathParams_r0 && replacePathParams_arg_relativeURL == relativeURL && replacePathParams_arg_pathParam == pathParam && DoNewRequestWithBodyOptions_arg_simpleHTTPSelf == simpleAPISelf.simpleHTTP
//@   ensures body-sent: (absent(boxed(body)) ==> untyped(DoNewRequestWithBodyOptions_arg_body) && DoNewRequestWithBodyOptions_arg_contentType == "") && (!absent(boxed(body)) && tr_err[old(tr_len)] == nil ==> DoNewRequestWithBodyOptions_arg_body == tr_ress[old(tr_len)][0] && boxed(DoNewRequestWithBodyOptions_arg_contentType) == tr_ress[old(tr_len)][1])
//@   ensures header-is-a-copy: absent(boxed(body)) || tr_err[old(tr_len)] == nil ==> (simpleAPISelf.DefaultHeader == nil ==> DoNewRequestWithBodyOptions_arg_header == nil) && (simpleAPISelf.DefaultHeader != nil ==> DoNewRequestWithBodyOptions_arg_header != nil && fresh(DoNewRequestWithBodyOptions_arg_header) && DoNewRequestWithBodyOptions_arg_header != simpleAPISelf.DefaultHeader)
//@   ensures one-request-no-body: absent(boxed(body)) && DoNewRequestWithBodyOptions_r0.Request != nil ==> tr_len >= old(tr_len)+1 && REQ_EVENT(old(tr_len), simpleAPISelf, DoNewRequestWithBodyOptions_r0) && forall(k, old(tr_len)+1, tr_len, tr_kind[k] != 2)
//@   ensures one-request-body: !absent(boxed(body)) && tr_err[old(tr_len)] == nil && DoNewRequestWithBodyOptions_r0.Request != nil ==> tr_len >= old(tr_len)+2 && REQ_EVENT(old(tr_len)+1, simpleAPISelf, DoNewRequestWithBodyOptions_r0) && forall(k, old(tr_len)+2, tr_len, tr_kind[k] != 2)
//@   ensures not-built: (absent(boxed(body)) || tr_err[old(tr_len)] == nil) && DoNewRequestWithBodyOptions_r0.Request == nil ==> forall(k, old(tr_len), tr_len, tr_kind[k] != 2) && r0.ResponseWithError.Err != nil
//@   ensures transport-error: (absent(boxed(body)) || tr_err[old(tr_len)] == nil) && DoNewRequestWithBodyOptions_r0.Request != nil && DoNewRequestWithBodyOptions_r0.Err != nil ==> r0.ResponseWithError.Err == DoNewRequestWithBodyOptions_r0.Err
//@   ensures decoded: (absent(boxed(body)) || tr_err[old(tr_len)] == nil) && DoNewRequestWithBodyOptions_r0.Request != nil && DoNewRequestWithBodyOptions_r0.Err == nil ==> r0 == decodeResponseBody_r0 && decodeResponseBody_arg_target == target

// the named constructors: nothing runs, and what is returned is the generic constructor's result for exactly the promised verb,
// content type and serializer (and the caller's API object and template)
//@ func APIMakeGet
//@   prop C17
//@   opt callbacks=effectful
//@   opt effects=trace
//@   ensures lazy: tr_len == old(tr_len)
//@   ensures delegates: r0 == APIMakeDoNewRequest_r0 && APIMakeDoNewRequest_arg_simpleAPISelf == simpleAPISelf && APIMakeDoNewRequest_arg_relativeURL == relativeURL && APIMakeDoNewRequest_arg_method == "GET"
//@ func APIMakeDelete
//@   prop C17
//@   opt callbacks=effectful
//@   opt effects=trace
//@   ensures lazy: tr_len == old(tr_len)
//@   ensures delegates: r0 == APIMakeDoNewRequest_r0 && APIMakeDoNewRequest_arg_simpleAPISelf == simpleAPISelf && APIMakeDoNewRequest_arg_relativeURL == relativeURL && APIMakeDoNewRequest_arg_method == "DELETE"
//@ func APIMakePostJSONBody
//@   prop C17
//@   opt callbacks=effectful
//@   opt effects=trace
//@   ensures lazy: tr_len == old(tr_len)
//@   requires simpleAPISelf != nil
//@   ensures delegates: r0 == APIMakeDoNewRequestWithBodySerializer_r0 && APIMakeDoNewRequestWithBodySerializer_arg_simpleAPISelf == simpleAPISelf && APIMakeDoNewRequestWithBodySerializer_arg_relativeURL == relativeURL && APIMakeDoNewRequestWithBodySerializer_arg_method == "POST" && APIMakeDoNewRequestWithBodySerializer_arg_contentType == "application/json" && APIMakeDoNewRequestWithBodySerializer_arg_bodySerializer == old(simpleAPISelf.RequestSerializerForJSON)
//@ func APIMakePutJSONBody
//@   prop C17
//@   opt callbacks=effectful
//@   opt effects=trace
//@   ensures lazy: tr_len == old(tr_len)
//@   requires simpleAPISelf != nil
//@   ensures delegates: r0 == APIMakeDoNewRequestWithBodySerializer_r0 && APIMakeDoNewRequestWithBodySerializer_arg_simpleAPISelf == simpleAPISelf && APIMakeDoNewRequestWithBodySerializer_arg_relativeURL == relativeURL && APIMakeDoNewRequestWithBodySerializer_arg_method == "PUT" && APIMakeDoNewRequestWithBodySerializer_arg_contentType == "application/json" && APIMakeDoNewRequestWithBodySerializer_arg_bodySerializer == old(simpleAPISelf.RequestSerializerForJSON)
//@ func APIMakePatchJSONBody
//@   prop C17
//@   opt callbacks=effectful
//@   opt effects=trace
//@   ensures lazy: tr_len == old(tr_len)
//@   requires simpleAPISelf != nil
//@   ensures delegates: r0 == APIMakeDoNewRequestWithBodySerializer_r0 && APIMakeDoNewRequestWithBodySerializer_arg_simpleAPISelf == simpleAPISelf && APIMakeDoNewRequestWithBodySerializer_arg_relativeURL == relativeURL && APIMakeDoNewRequestWithBodySerializer_arg_method == "PATCH" && APIMakeDoNewRequestWithBodySerializer_arg_contentType == "application/json" && APIMakeDoNewRequestWithBodySerializer_arg_bodySerializer == old(simpleAPISelf.RequestSerializerForJSON)
//@ func APIMakePostMultipartBody
//@   prop C17
//@   opt callbacks=effectful
//@   opt effects=trace
//@   ensures lazy: tr_len == old(tr_len)
//@   requires simpleAPISelf != nil
//@   ensures delegates: r0 == APIMakeDoNewRequestWithMultipartSerializer_r0 && APIMakeDoNewRequestWithMultipartSerializer_arg_simpleAPISelf == simpleAPISelf && APIMakeDoNewRequestWithMultipartSerializer_arg_relativeURL == relativeURL && APIMakeDoNewRequestWithMultipartSerializer_arg_method == "POST" && APIMakeDoNewRequestWithMultipartSerializer_arg_multipartSerializer == old(simpleAPISelf.RequestSerializerForMultipart)
//@ func APIMakePutMultipartBody
//@   prop C17
//@   opt callbacks=effectful
//@   opt effects=trace
//@   ensures lazy: tr_len == old(tr_len)
//@   requires simpleAPISelf != nil
//@   ensures delegates: r0 == APIMakeDoNewRequestWithMultipartSerializer_r0 && APIMakeDoNewRequestWithMultipartSerializer_arg_simpleAPISelf == simpleAPISelf && APIMakeDoNewRequestWithMultipartSerializer_arg_relativeURL == relativeURL && APIMakeDoNewRequestWithMultipartSerializer_arg_method == "PUT" && APIMakeDoNewRequestWithMultipartSerializer_arg_multipartSerializer == old(simpleAPISelf.RequestSerializerForMultipart)
//@ func APIMakePatchMultipartBody
//@   prop C17
//@   opt callbacks=effectful
//@   opt effects=trace
//@   ensures lazy: tr_len == old(tr_len)
//@   requires simpleAPISelf != nil
//@   ensures delegates: r0 == APIMakeDoNewRequestWithMultipartSerializer_r0 && APIMakeDoNewRequestWithMultipartSerializer_arg_simpleAPISelf == simpleAPISelf && APIMakeDoNewRequestWithMultipartSerializer_arg_relativeURL == relativeURL && APIMakeDoNewRequestWithMultipartSerializer_arg_method == "PATCH" && APIMakeDoNewRequestWithMultipartSerializer_arg_multipartSerializer == old(simpleAPISelf.RequestSerializerForMultipart)

// constructors of SimpleHTTPDef: the object invariant holds from the start, the given interceptors are the list, in order
//@ func NewSimpleHTTPWithClientAndInterceptors
//@   prop C18
//@   modifies client
//@   requires client != nil
//@   ensures made: r0 != nil && fresh(r0) && r0.client == client && client.Transport == boxed(r0) && r0.lastTransport == boxed(r0) && !untyped(r0.clientTransport) && r0.clientTransport != boxed(r0)
//@   ensures list: len(r0.interceptors) == len(interceptors) && forall(k, 0, len(interceptors), r0.interceptors[k] == interceptors[k])
//@ func NewSimpleHTTP
//@   prop C18
//@   ensures made: r0 != nil && fresh(r0) && r0.client != nil && fresh(r0.client) && r0.client.Transport == boxed(r0) && r0.lastTransport == boxed(r0) && !untyped(r0.clientTransport) && r0.clientTransport != boxed(r0) && len(r0.interceptors) == 0
//@ func (SimpleHTTPDef).GetHTTPClient
//@   prop C18
//@   requires simpleHTTPSelf != nil
//@   ensures def: r0 == simpleHTTPSelf.client
