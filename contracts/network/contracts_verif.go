//go:build verif

// Contracts for package network (comment-only; see /verif/DESIGN.md).
package network

// ===================================================================================================
// C18 - interceptors: each once, in registration order, before the transport; an error aborts.
// Ghost trace events (see DESIGN.md): kind 1 = synchronous call of a function value (tr_fn, tr_arg, tr_err),
// kind 2 = call through the wrapped http.RoundTripper (tr_recv = the transport, tr_arg = the request).
// "stop" is the index of the first interceptor (>= index) that returned an error, or the number of interceptors.

//@ define IC_LIST(s) = forall(k, 0, len(s.interceptors), s.interceptors[k] != nil && *s.interceptors[k] != nil)

//@ func (SimpleHTTPDef).recursiveVisit
//@   prop C18
//@   opt callbacks=effectful
//@   opt effects=trace
//@   ghost stop Int
//@   decreases len(simpleHTTPSelf.interceptors) - index
//@   requires simpleHTTPSelf != nil && !untyped(simpleHTTPSelf.clientTransport) && 0 <= index && index <= len(simpleHTTPSelf.interceptors) && IC_LIST(simpleHTTPSelf)
//@   ghostset stop = ite(index >= len(simpleHTTPSelf.interceptors), len(simpleHTTPSelf.interceptors), ite(tr_err[old(tr_len)] != nil, index, stop))
//@   ensures range: index <= stop && stop <= len(simpleHTTPSelf.interceptors)
//@   ensures passed: forall(k, index, stop, tr_kind[old(tr_len)+k-index] == 1 && tr_fn[old(tr_len)+k-index] == *simpleHTTPSelf.interceptors[k] && tr_arg[old(tr_len)+k-index] == boxed(request) && tr_err[old(tr_len)+k-index] == nil)
//@   ensures aborted: stop < len(simpleHTTPSelf.interceptors) ==> tr_len == old(tr_len)+stop-index+1 && tr_kind[tr_len-1] == 1 && tr_fn[tr_len-1] == *simpleHTTPSelf.interceptors[stop] && tr_arg[tr_len-1] == boxed(request) && tr_err[tr_len-1] != nil && r1 == tr_err[tr_len-1] && r0 == nil
//@   ensures transport: stop == len(simpleHTTPSelf.interceptors) ==> tr_len == old(tr_len)+stop-index+1 && tr_kind[tr_len-1] == 2 && tr_recv[tr_len-1] == simpleHTTPSelf.clientTransport && tr_arg[tr_len-1] == boxed(request) && r1 == tr_err[tr_len-1]

//@ func (SimpleHTTPDef).RoundTrip
//@   prop C18
//@   opt callbacks=effectful
//@   opt effects=trace
//@   ghost stop Int
//@   requires simpleHTTPSelf != nil && !untyped(simpleHTTPSelf.clientTransport) && IC_LIST(simpleHTTPSelf)
//@   ensures range: 0 <= stop && stop <= len(simpleHTTPSelf.interceptors)
//@   ensures passed: forall(k, 0, stop, tr_kind[old(tr_len)+k] == 1 && tr_fn[old(tr_len)+k] == *simpleHTTPSelf.interceptors[k] && tr_arg[old(tr_len)+k] == boxed(request) && tr_err[old(tr_len)+k] == nil)
//@   ensures aborted: stop < len(simpleHTTPSelf.interceptors) ==> tr_len == old(tr_len)+stop+1 && tr_kind[tr_len-1] == 1 && tr_fn[tr_len-1] == *simpleHTTPSelf.interceptors[stop] && tr_arg[tr_len-1] == boxed(request) && tr_err[tr_len-1] != nil && r1 == tr_err[tr_len-1] && r0 == nil
//@   ensures transport: stop == len(simpleHTTPSelf.interceptors) ==> tr_len == old(tr_len)+stop+1 && tr_kind[tr_len-1] == 2 && tr_recv[tr_len-1] == simpleHTTPSelf.clientTransport && tr_arg[tr_len-1] == boxed(request) && r1 == tr_err[tr_len-1]

// the interceptor list is edited only through the persistent Stream operations (C04): the list after Add is the old list
// followed by the new interceptors, and nothing that existed before is written (frame obligations)
//@ func (SimpleHTTPDef).AddInterceptor
//@   prop C18
//@   modifies simpleHTTPSelf
//@   requires simpleHTTPSelf != nil
//@   ensures appended: len(simpleHTTPSelf.interceptors) == old(len(simpleHTTPSelf.interceptors)) + len(interceptors)
//@   ensures others: simpleHTTPSelf.clientTransport == old(simpleHTTPSelf.clientTransport) && simpleHTTPSelf.lastTransport == old(simpleHTTPSelf.lastTransport) && simpleHTTPSelf.client == old(simpleHTTPSelf.client)
//@ func (SimpleHTTPDef).AddInterceptor loop 0
//@   invariant sofar: len(simpleHTTPSelf.interceptors) == old(len(simpleHTTPSelf.interceptors)) + _i
//@   invariant others: simpleHTTPSelf.clientTransport == old(simpleHTTPSelf.clientTransport) && simpleHTTPSelf.lastTransport == old(simpleHTTPSelf.lastTransport) && simpleHTTPSelf.client == old(simpleHTTPSelf.client)

//@ func (SimpleHTTPDef).ClearInterceptor
//@   prop C18
//@   modifies simpleHTTPSelf
//@   requires simpleHTTPSelf != nil
//@   ensures cleared: len(simpleHTTPSelf.interceptors) == 0
//@   ensures others: simpleHTTPSelf.clientTransport == old(simpleHTTPSelf.clientTransport) && simpleHTTPSelf.lastTransport == old(simpleHTTPSelf.lastTransport) && simpleHTTPSelf.client == old(simpleHTTPSelf.client)

// RemoveInterceptor: built from the persistent RemoveItem (C04); here only safety, the frame (nothing pre-existing is
// written) and "the other fields are untouched" are proved - the element-level characterisation is not (see DESIGN.md)
//@ func (SimpleHTTPDef).RemoveInterceptor
//@   prop C18
//@   modifies simpleHTTPSelf
//@   requires simpleHTTPSelf != nil
//@   ensures shrinks: len(simpleHTTPSelf.interceptors) <= old(len(simpleHTTPSelf.interceptors))
//@   ensures others: simpleHTTPSelf.clientTransport == old(simpleHTTPSelf.clientTransport) && simpleHTTPSelf.lastTransport == old(simpleHTTPSelf.lastTransport) && simpleHTTPSelf.client == old(simpleHTTPSelf.client)
//@ func (SimpleHTTPDef).RemoveInterceptor loop 0
//@   invariant shrinks: len(simpleHTTPSelf.interceptors) <= old(len(simpleHTTPSelf.interceptors))
//@   invariant others: simpleHTTPSelf.clientTransport == old(simpleHTTPSelf.clientTransport) && simpleHTTPSelf.lastTransport == old(simpleHTTPSelf.lastTransport) && simpleHTTPSelf.client == old(simpleHTTPSelf.client)

// SetHTTPClient: the SimpleHTTP becomes the client's transport exactly once; the wrapped transport is never the SimpleHTTP itself
//@ func (SimpleHTTPDef).SetHTTPClient
//@   prop C18
//@   modifies simpleHTTPSelf, client
//@   requires simpleHTTPSelf != nil && client != nil
//@   requires entry: untyped(simpleHTTPSelf.lastTransport) || (simpleHTTPSelf.lastTransport == boxed(simpleHTTPSelf) && !untyped(simpleHTTPSelf.clientTransport) && simpleHTTPSelf.clientTransport != boxed(simpleHTTPSelf))
//@   requires not-prewrapped-by-other-means: client.Transport != boxed(simpleHTTPSelf) || simpleHTTPSelf.lastTransport == boxed(simpleHTTPSelf)
//@   ensures installed: client.Transport == boxed(simpleHTTPSelf) && simpleHTTPSelf.lastTransport == boxed(simpleHTTPSelf) && simpleHTTPSelf.client == client
//@   ensures wrapped: !untyped(simpleHTTPSelf.clientTransport) && simpleHTTPSelf.clientTransport != boxed(simpleHTTPSelf)
//@   ensures idempotent: old(client.Transport) == boxed(simpleHTTPSelf) ==> simpleHTTPSelf.clientTransport == old(simpleHTTPSelf.clientTransport)
//@   ensures list: simpleHTTPSelf.interceptors == old(simpleHTTPSelf.interceptors)
