//go:build verif

// Contracts for package fpgo, part 4: effects (MonadIO C11, Handler C12, Publisher C10) over the ghost event trace.
// Events: tr_kind 1 = synchronous call of a function value (tr_fn, tr_arg = first argument, tr_res = first result),
// 3 = Post of a function value (tr_fn) to a Handler (tr_obj), 4 = go statement, 5 = channel send, 6 = close.
package fpgo

// ===================================================================================================
// C12 (used by C10/C11): posting to an open handler is exactly one send of exactly that function on the handler's channel;
// posting to a closed handler does nothing.
//@ func (HandlerDef).Post
//@   prop C12
//@   opt callbacks=effectful
//@   opt effects=trace
//@   requires handlerSelf != nil
//@   ensures closed: old(handlerSelf.isClosed) ==> tr_len == old(tr_len)
//@   ensures open: !old(handlerSelf.isClosed) ==> tr_len == old(tr_len)+1 && tr_kind[old(tr_len)] == 5 && tr_obj[old(tr_len)] == handlerSelf.ch && tr_fn[old(tr_len)] == fn

// ===================================================================================================
// C11 - MonadIO is lazy and runs every effect once per evaluation, in composition order.

//@ define MIO_WF(p) = p != nil && p.effect != nil

// constructors run nothing (the trace is unchanged) and record what they were given
//@ func MonadIOJustGenerics
//@   prop C11
//@   opt callbacks=effectful
//@   opt effects=trace
//@   ensures lazy: tr_len == old(tr_len)
//@   ensures made: r0 != nil && fresh(r0) && r0.obOn == nil && r0.subOn == nil && r0.effect != nil
//@ func MonadIOJustGenerics lit 0
//@   prop C11
//@   opt callbacks=effectful
//@   opt effects=trace
//@   ensures value: r0 == in && tr_len == old(tr_len)

//@ func MonadIONewGenerics
//@   prop C11
//@   opt callbacks=effectful
//@   opt effects=trace
//@   ensures lazy: tr_len == old(tr_len)
//@   ensures made: r0 != nil && fresh(r0) && r0.obOn == nil && r0.subOn == nil && r0.effect == effect

//@ func (MonadIODef).New
//@   prop C11
//@   opt callbacks=effectful
//@   opt effects=trace
//@   ensures lazy: tr_len == old(tr_len)
//@   ensures made: r0 != nil && fresh(r0) && r0.obOn == nil && r0.subOn == nil && r0.effect == effect

//@ func (MonadIODef).FlatMap
//@   prop C11
//@   opt callbacks=effectful
//@   opt effects=trace
//@   requires monadIOSelf != nil
//@   ensures lazy: tr_len == old(tr_len)
//@   ensures made: r0 != nil && fresh(r0) && r0.obOn == nil && r0.subOn == nil && r0.effect != nil
// each evaluation of the composed effect: the receiver's effect once, then fn once on its value, then the resulting
// MonadIO's effect once; the value is the last one's
//@ func (MonadIODef).FlatMap lit 0
//@   prop C11
//@   opt callbacks=effectful
//@   opt effects=trace
//@   opt callback-result-inv=MIO_WF
//@   requires monadIOSelf != nil && monadIOSelf.effect != nil && fn != nil
//@   ensures three: tr_len == old(tr_len)+3
//@   ensures first: tr_kind[old(tr_len)] == 1 && tr_fn[old(tr_len)] == monadIOSelf.effect
//@   ensures second: tr_kind[old(tr_len)+1] == 1 && tr_fn[old(tr_len)+1] == fn && tr_arg[old(tr_len)+1] == tr_res[old(tr_len)]
//@   ensures third: tr_kind[old(tr_len)+2] == 1 && tr_fn[old(tr_len)+2] == asptr(tr_res[old(tr_len)+1], MonadIODef).effect
//@   ensures value: r0 == tr_res[old(tr_len)+2]

//@ func (MonadIODef).SubscribeOn
//@   prop C11
//@   opt callbacks=effectful
//@   opt effects=trace
//@   modifies monadIOSelf
//@   requires monadIOSelf != nil
//@   ensures lazy: tr_len == old(tr_len)
//@   ensures set: r0 != nil && r0.subOn == h && r0.obOn == old(monadIOSelf.obOn) && r0.effect == old(monadIOSelf.effect)
//@   ensures fluent: r0 == monadIOSelf

//@ func (MonadIODef).ObserveOn
//@   prop C11
//@   opt callbacks=effectful
//@   opt effects=trace
//@   modifies monadIOSelf
//@   requires monadIOSelf != nil
//@   ensures lazy: tr_len == old(tr_len)
//@   ensures set: r0 != nil && r0.obOn == h && r0.subOn == old(monadIOSelf.subOn) && r0.effect == old(monadIOSelf.effect)
//@   ensures fluent: r0 == monadIOSelf

//@ func (MonadIODef).Eval
//@   prop C11
//@   opt callbacks=effectful
//@   opt effects=trace
//@   requires monadIOSelf != nil && monadIOSelf.effect != nil
//@   ensures once: tr_len == old(tr_len)+1 && tr_kind[old(tr_len)] == 1 && tr_fn[old(tr_len)] == monadIOSelf.effect && r0 == tr_res[old(tr_len)]

// doSubscribe: nothing without OnNext; inline: effect then OnNext with its value; with an observe handler: exactly one Post of
// the observing closure (lit 1) to that handler; that closure (verified on its own) runs the effect once and then delivers
// inline or Posts the delivering closure (lit 0) to the subscribe handler
//@ func (MonadIODef).doSubscribe
//@   prop C11
//@   opt callbacks=effectful
//@   opt effects=trace
//@   opt lit-calls=inline
//@   requires monadIOSelf != nil && monadIOSelf.effect != nil && s != nil
//@   requires open-handlers: (obOn != nil ==> !obOn.isClosed) && (subOn != nil ==> !subOn.isClosed)
//@   ensures same-subscription: r0 == s
//@   ensures nothing: s.OnNext == nil ==> tr_len == old(tr_len)
//@   ensures inline: s.OnNext != nil && obOn == nil && subOn == nil ==> tr_len == old(tr_len)+2 && tr_kind[old(tr_len)] == 1 && tr_fn[old(tr_len)] == monadIOSelf.effect && tr_kind[old(tr_len)+1] == 1 && tr_fn[old(tr_len)+1] == s.OnNext && tr_arg[old(tr_len)+1] == tr_res[old(tr_len)]
//@   ensures inline-then-post: s.OnNext != nil && obOn == nil && subOn != nil ==> tr_len == old(tr_len)+2 && tr_kind[old(tr_len)] == 1 && tr_fn[old(tr_len)] == monadIOSelf.effect && tr_kind[old(tr_len)+1] == 5 && tr_obj[old(tr_len)+1] == subOn.ch
//@   ensures posted: s.OnNext != nil && obOn != nil ==> tr_len == old(tr_len)+1 && tr_kind[old(tr_len)] == 5 && tr_obj[old(tr_len)] == obOn.ch
//@ func (MonadIODef).doSubscribe lit doSub@0
//@   prop C11
//@   opt callbacks=effectful
//@   opt effects=trace
//@   requires s != nil && s.OnNext != nil
//@   ensures deliver: tr_len == old(tr_len)+1 && tr_kind[old(tr_len)] == 1 && tr_fn[old(tr_len)] == s.OnNext && tr_arg[old(tr_len)] == result
//@ func (MonadIODef).doSubscribe lit doOb@1
//@   prop C11
//@   opt callbacks=effectful
//@   opt effects=trace
//@   requires monadIOSelf != nil && monadIOSelf.effect != nil && doSub != nil && (subOn != nil ==> !subOn.isClosed)
//@   ensures effect-first: tr_len == old(tr_len)+2 && tr_kind[old(tr_len)] == 1 && tr_fn[old(tr_len)] == monadIOSelf.effect && result == tr_res[old(tr_len)]
//@   ensures then-post: subOn != nil ==> tr_kind[old(tr_len)+1] == 5 && tr_obj[old(tr_len)+1] == subOn.ch && tr_fn[old(tr_len)+1] == doSub
//@   ensures then-inline: subOn == nil ==> tr_kind[old(tr_len)+1] == 1 && tr_fn[old(tr_len)+1] == doSub

//@ func (MonadIODef).Subscribe
//@   prop C11
//@   opt callbacks=effectful
//@   opt effects=trace
//@   requires monadIOSelf != nil && monadIOSelf.effect != nil
//@   requires open-handlers: (monadIOSelf.obOn != nil ==> !monadIOSelf.obOn.isClosed) && (monadIOSelf.subOn != nil ==> !monadIOSelf.subOn.isClosed)
//@   ensures nothing: s.OnNext == nil ==> tr_len == old(tr_len)
//@   ensures inline: s.OnNext != nil && monadIOSelf.obOn == nil && monadIOSelf.subOn == nil ==> tr_len == old(tr_len)+2 && tr_fn[old(tr_len)] == monadIOSelf.effect && tr_fn[old(tr_len)+1] == s.OnNext && tr_arg[old(tr_len)+1] == tr_res[old(tr_len)]
//@   ensures posted: s.OnNext != nil && monadIOSelf.obOn != nil ==> tr_len == old(tr_len)+1 && tr_kind[old(tr_len)] == 5 && tr_obj[old(tr_len)] == monadIOSelf.obOn.ch

// ===================================================================================================
// C12 - Handler / Actor mailboxes: the per-goroutine facts (one consumer loop with a synchronous call per message,
// one send per Post/Send on an open object, Spawn bookkeeping). Schedules are not explored; the step to "serial, exactly
// once, per-sender order" uses the channel axioms (FIFO, each value received once) and is stated in DESIGN.md.

//@ func (HandlerDef).NewByCh
//@   prop C12
//@   opt callbacks=effectful
//@   opt effects=trace
//@   ensures one-consumer: tr_len == old(tr_len)+1 && tr_kind[old(tr_len)] == 4
//@   ensures made: r0 != nil && fresh(r0) && r0.ch == ioCh && !r0.isClosed

// the consumer loop: after k received functions the trace has grown by exactly k synchronous calls, of those functions, in order
//@ func (HandlerDef).run
//@   prop C12
//@   opt callbacks=effectful
//@   opt effects=trace
//@   opt recv-nonnil=true
//@   requires handlerSelf != nil
//@   ensures every-received-function-run: tr_len == old(tr_len) + _received
//@ func (HandlerDef).run loop 0
//@   invariant serial: tr_len == old(tr_len) + _i && forall(k, 0, _i, tr_kind[old(tr_len)+k] == 1 && tr_fn[old(tr_len)+k] == _rx[k])

//@ func (HandlerDef).Close
//@   prop C12
//@   opt callbacks=effectful
//@   opt effects=trace
//@   modifies handlerSelf
//@   requires handlerSelf != nil && handlerSelf.ch != nil
//@   ensures closed: handlerSelf.isClosed && tr_len == old(tr_len)+1 && tr_kind[old(tr_len)] == 6 && tr_obj[old(tr_len)] == handlerSelf.ch

//@ func ActorNewByOptionsGenerics
//@   prop C12,C13
//@   opt callbacks=effectful
//@   opt effects=trace
//@   ensures one-consumer: tr_len == old(tr_len)+1 && tr_kind[old(tr_len)] == 4
//@   ensures made: r0 != nil && fresh(r0) && r0.ch == ioCh && r0.effect == effect && !r0.isClosed && r0.parent == nil && r0.children != nil && fresh(r0.children)

// the actor's consumer loop: one synchronous call of the effect per message, with the actor itself as first argument
//@ func (ActorDef).run
//@   prop C12,C13
//@   opt callbacks=effectful
//@   opt effects=trace
//@   requires actorSelf != nil && actorSelf.effect != nil
//@   ensures every-received-message-processed: tr_len == old(tr_len) + _received
//@ func (ActorDef).run loop 0
//@   invariant serial: tr_len == old(tr_len) + _i && forall(k, 0, _i, tr_kind[old(tr_len)+k] == 1 && tr_fn[old(tr_len)+k] == actorSelf.effect && tr_arg[old(tr_len)+k] == boxed(actorSelf))

//@ func (ActorDef).Send
//@   prop C12,C13
//@   opt callbacks=effectful
//@   opt effects=trace
//@   requires actorSelf != nil
//@   ensures closed: old(actorSelf.isClosed) ==> tr_len == old(tr_len)
//@   ensures open: !old(actorSelf.isClosed) ==> tr_len == old(tr_len)+1 && tr_kind[old(tr_len)] == 5 && tr_obj[old(tr_len)] == actorSelf.ch && tr_arg[old(tr_len)] == message

//@ func (ActorDef).Close
//@   prop C12,C13
//@   opt callbacks=effectful
//@   opt effects=trace
//@   modifies actorSelf
//@   requires actorSelf != nil && actorSelf.ch != nil
//@   ensures closed: actorSelf.isClosed && tr_len == old(tr_len)+1 && tr_kind[old(tr_len)] == 6 && tr_obj[old(tr_len)] == actorSelf.ch

//@ func (ActorDef).IsClosed
//@   prop C12,C13
//@   requires actorSelf != nil
//@   ensures def: r0 == actorSelf.isClosed
//@ func (ActorDef).GetParent
//@   prop C12
//@   requires actorSelf != nil
//@   ensures def: r0 == actorSelf.parent
//@ func (ActorDef).GetChild
//@   prop C12
//@   requires actorSelf != nil
//@   ensures def: has(actorSelf.children, id) ==> r0 == actorSelf.children[id]

// Spawn: a fresh, independent actor (own channel, own consumer); registered under an open parent, unregistered under a closed one
//@ func (ActorDef).Spawn
//@   prop C12
//@   opt callbacks=effectful
//@   opt effects=trace
//@   modifies actorSelf, actorSelf.children
//@   requires actorSelf != nil && actorSelf.children != nil
//@   ensures child: r0 != nil && fresh(r0) && r0 != actorSelf && fresh(r0.ch) && r0.effect == effect && !r0.isClosed
//@   ensures one-consumer: tr_len == old(tr_len)+1 && tr_kind[old(tr_len)] == 4
//@   ensures registered: !old(actorSelf.isClosed) ==> r0.parent == actorSelf && has(actorSelf.children, r0.id) && actorSelf.children[r0.id] == r0
//@   ensures not-registered: old(actorSelf.isClosed) ==> r0.parent == nil && unchangedmap(actorSelf.children)

// ===================================================================================================
// C10 - Publisher: each value delivered exactly once per live subscription, in order; (un)subscribing never disturbs a
// delivery in progress.  view(p) = the sequence p.subscribers.
// Key fact ("old cells"): Subscribe and Unsubscribe never write a cell below the old length of the old backing array,
// so the snapshot a running Publish iterates is immutable - whether the change comes from a re-entrant callback or from
// another goroutine (both act only through these locked methods).

//@ define PUB_WF(p) = forall(k, 0, len(p.subscribers), p.subscribers[k] != nil)

//@ func (PublisherDef).Subscribe
//@   prop C10
//@   opt lockguard=subscribers:subscribeM
//@   modifies publisherSelf, publisherSelf.subscribers
//@   requires publisherSelf != nil && PUB_WF(publisherSelf)
//@   ensures appended: len(publisherSelf.subscribers) == old(len(publisherSelf.subscribers))+1 && publisherSelf.subscribers[old(len(publisherSelf.subscribers))] == r0 && forall(i, 0, old(len(publisherSelf.subscribers)), publisherSelf.subscribers[i] == old(publisherSelf.subscribers[i]))
//@   ensures new-subscription: r0 != nil && fresh(r0) && r0.OnNext == sub.OnNext
//@   ensures old-cells: forall(i, 0, old(len(publisherSelf.subscribers)), old(publisherSelf.subscribers)[i] == old(publisherSelf.subscribers[i]))
//@   ensures wf: PUB_WF(publisherSelf)

// Unsubscribe removes every occurrence of s and nothing else; what remains keeps its order (g: position in the old view)
//@ func (PublisherDef).Unsubscribe
//@   prop C10
//@   opt lockguard=subscribers:subscribeM
//@   modifies publisherSelf
//@   decreases len(publisherSelf.subscribers)
//@   opt recursive-ghosts=local
//@   ghost idx (Array Int Int)
//@   ghost cut Int
//@   ghostinit cut = 0
//@   ghostset idx = lami(j, j)
//@   ghostset idx = lami(j, ite(Unsubscribe_idx[j] < cut, Unsubscribe_idx[j], Unsubscribe_idx[j] + 1))
//@   ghost inv (Array Int Int)
//@   ghostset inv = lami(k, k)
//@   ghostset inv = lami(k, Unsubscribe_inv[ite(k < cut, k, k - 1)])
//@   requires publisherSelf != nil && PUB_WF(publisherSelf)
//@   hint cut-range: isAnyMatching ==> 0 <= cut && cut < old(len(publisherSelf.subscribers))
//@   hint cut-is-s: isAnyMatching ==> old(publisherSelf.subscribers)[cut] == s
//@   hint one-shorter: isAnyMatching ==> len(remaining) == old(len(publisherSelf.subscribers)) - 1
//@   hint intermediate-list: isAnyMatching ==> forall(m, 0, len(remaining), remaining[m] == old(publisherSelf.subscribers)[ite(m < cut, m, m + 1)])
//@   hint recursive-result: isAnyMatching ==> forall(j, 0, len(publisherSelf.subscribers), 0 <= Unsubscribe_idx[j] && Unsubscribe_idx[j] < len(remaining) && publisherSelf.subscribers[j] == remaining[Unsubscribe_idx[j]])
//@   ensures kept-in-order: forall(j, 0, len(publisherSelf.subscribers), 0 <= idx[j] && idx[j] < old(len(publisherSelf.subscribers)) && publisherSelf.subscribers[j] == old(publisherSelf.subscribers)[idx[j]]) && forall2(j, 0, len(publisherSelf.subscribers), k, 0, len(publisherSelf.subscribers), j < k ==> idx[j] < idx[k])
//@   ensures only-s-removed: forall(k, 0, old(len(publisherSelf.subscribers)), old(publisherSelf.subscribers)[k] != s ==> 0 <= inv[k] && inv[k] < len(publisherSelf.subscribers) && idx[inv[k]] == k)
//@   ensures gone: forall(j, 0, len(publisherSelf.subscribers), publisherSelf.subscribers[j] != s)
//@   ensures shorter: len(publisherSelf.subscribers) <= old(len(publisherSelf.subscribers))
//@   ensures old-cells: forall(i, 0, old(len(publisherSelf.subscribers)), old(publisherSelf.subscribers)[i] == old(publisherSelf.subscribers[i]))
//@   ensures wf: PUB_WF(publisherSelf)
//@ func (PublisherDef).Unsubscribe loop 0
//@   ghostset cut = _i + 1
//@   invariant first-match-position: cut == _i
//@   invariant searching: !isAnyMatching && subscribers == old(publisherSelf.subscribers) && publisherSelf.subscribers == old(publisherSelf.subscribers) && forall(k, 0, _i, subscribers[k] != s)

// Publish: the snapshot S taken under the lock is delivered to, one event per subscriber with an OnNext, in order:
// cnt[k] = number of deliveries before subscriber k
//@ func (PublisherDef).Publish
//@   prop C10
//@   opt callbacks=effectful
//@   opt effects=trace
//@   opt lit-calls=inline
//@   opt callback-havoc=publisherSelf
//@   opt lockguard=subscribers:subscribeM
//@   ghost cnt (Array Int Int)
//@   ghostinit cnt = store(cnt, 0, 0)
//@   requires publisherSelf != nil && PUB_WF(publisherSelf) && (publisherSelf.subOn != nil ==> !publisherSelf.subOn.isClosed)
//@   ensures counted: cnt[0] == 0 && forall(k, 0, old(len(publisherSelf.subscribers)), cnt[k+1] == cnt[k] + ite(old(publisherSelf.subscribers[k]).OnNext != nil, 1, 0)) && tr_len == old(tr_len) + cnt[old(len(publisherSelf.subscribers))]
//@   ensures delivered: forall(k, 0, old(len(publisherSelf.subscribers)), old(publisherSelf.subscribers[k]).OnNext != nil ==> (tr_kind[old(tr_len)+cnt[k]] == 1 && tr_fn[old(tr_len)+cnt[k]] == old(publisherSelf.subscribers[k]).OnNext && tr_arg[old(tr_len)+cnt[k]] == result) || tr_kind[old(tr_len)+cnt[k]] == 5)
//@ func (PublisherDef).Publish loop 0
//@   ghostset cnt = store(cnt, _i+1, cnt[_i] + ite(subscribers[_i].OnNext != nil, 1, 0))
//@   invariant snapshot: subscribers == old(publisherSelf.subscribers) && forall(k, 0, len(subscribers), subscribers[k] == old(publisherSelf.subscribers[k]) && subscribers[k] != nil && subscribers[k].OnNext == old(publisherSelf.subscribers[k].OnNext))
//@   invariant counted: cnt[0] == 0 && 0 <= cnt[_i] && forall(k, 0, _i, cnt[k+1] == cnt[k] + ite(subscribers[k].OnNext != nil, 1, 0) && 0 <= cnt[k]) && tr_len == old(tr_len) + cnt[_i]
//@   invariant mono: forall(k, 0, _i, cnt[k] + ite(subscribers[k].OnNext != nil, 1, 0) <= cnt[_i])
//@   invariant delivered: forall(k, 0, _i, subscribers[k].OnNext != nil ==> (tr_kind[old(tr_len)+cnt[k]] == 1 && tr_fn[old(tr_len)+cnt[k]] == subscribers[k].OnNext && tr_arg[old(tr_len)+cnt[k]] == result) || tr_kind[old(tr_len)+cnt[k]] == 5)
// the delivering closure (it may run later, on the handler): one call of this subscription's OnNext with the published value
//@ func (PublisherDef).Publish lit doSub@1
//@   prop C10
//@   opt callbacks=effectful
//@   opt effects=trace
//@   requires s != nil && s.OnNext != nil
//@   ensures deliver: tr_len == old(tr_len)+1 && tr_kind[old(tr_len)] == 1 && tr_fn[old(tr_len)] == s.OnNext && tr_arg[old(tr_len)] == result

//@ func (PublisherDef).SubscribeOn
//@   prop C10
//@   modifies publisherSelf
//@   requires publisherSelf != nil
//@   ensures set: r0 == publisherSelf && publisherSelf.subOn == h && publisherSelf.subscribers == old(publisherSelf.subscribers)

//@ func PublisherNewGenerics
//@   prop C10
//@   ensures made: r0 != nil && fresh(r0) && len(r0.subscribers) == 0 && r0.subOn == nil && r0.origin == nil

// Map: a fresh publisher whose origin is the receiver; the forwarding subscription calls fn once per value
//@ func (PublisherDef).Map
//@   prop C10
//@   modifies publisherSelf, publisherSelf.subscribers
//@   requires publisherSelf != nil && PUB_WF(publisherSelf)
//@   ensures derived: r0 != nil && fresh(r0) && r0.origin == publisherSelf
//@   ensures starts-empty-without-handler: r0.subOn == nil && len(r0.subscribers) == 0
//@   ensures subscribed: len(publisherSelf.subscribers) == old(len(publisherSelf.subscribers))+1 && forall(i, 0, old(len(publisherSelf.subscribers)), publisherSelf.subscribers[i] == old(publisherSelf.subscribers[i]))
//@ func (PublisherDef).Map lit 0
//@   prop C10
//@   opt callbacks=effectful
//@   opt effects=trace
//@   requires next != nil && fn != nil && PUB_WF(next) && (next.subOn != nil ==> !next.subOn.isClosed)
//@   ensures mapped-first: tr_len >= old(tr_len)+1 && tr_kind[old(tr_len)] == 1 && tr_fn[old(tr_len)] == fn && tr_arg[old(tr_len)] == in
//@   ensures then-published-downstream: Publish_arg_publisherSelf == next && Publish_arg_result == tr_res[old(tr_len)]

// YieldFromIO / DoNotation: the per-goroutine facts around the WaitGroup join (events 8 Add, 9 Done, 10 Wait).
// YieldFromIO: the caller announces one Done, subscribes exactly once to the given IO with the subscribe handler reset to nil
// (so that the delivery cannot be parked on a handler that is busy with this very coroutine), waits, and returns what the
// variable holds after the join.  The delivering callback stores its argument before it signals, and signals once.
// With C11's Subscribe (OnNext called exactly once with the value of the composition) and the WaitGroup's join this is
// "YieldFromIO returns the IO's value".
//@ func (CorDef).YieldFromIO
//@   prop C14
//@   opt callbacks=effectful
//@   opt effects=trace
//@   modifies target
//@   requires target != nil && target.effect != nil && (target.obOn != nil ==> !target.obOn.isClosed)
//@   ensures subscribed-inline: Subscribe_arg_monadIOSelf == target && target.subOn == nil && target.effect == old(target.effect) && target.obOn == old(target.obOn)
//@   ensures the-callback-is-the-subscription: Subscribe_arg_s.OnNext == _lit0
//@   ensures announce-first-wait-last: tr_len >= old(tr_len)+2 && tr_kind[old(tr_len)] == 8 && tr_arg[old(tr_len)] == boxed(1) && tr_kind[tr_len-1] == 10
//@   ensures returns-what-the-callback-stored: r0 == result
//@ func (CorDef).YieldFromIO lit 0
//@   prop C14
//@   opt callbacks=effectful
//@   opt effects=trace
//@   ensures@done stored-before-signalling: result == in
//@   ensures stored: result == in
//@   ensures signals-once: tr_len == old(tr_len)+1 && tr_kind[old(tr_len)] == 9

// DoNotation: one Done is announced, a NEW coroutine is made whose effect is the do-block's wrapper, started (exactly one
// goroutine, C14 Start), and the caller waits and returns what the variable holds after the join.  The wrapper runs the
// user's function exactly once, with that new coroutine, stores its result and only then signals.
//@ func (CorDef).DoNotation
//@   prop C14
//@   opt callbacks=effectful
//@   opt effects=trace
//@   requires effect != nil
//@   ensures new-coroutine-runs-the-wrapper: CorNewGenerics_arg_effect == _lit0 && Start_arg_corSelf == CorNewGenerics_r0 && cor == CorNewGenerics_r0
//@   ensures announce-start-wait: tr_len == old(tr_len)+3 && tr_kind[old(tr_len)] == 8 && tr_arg[old(tr_len)] == boxed(1) && tr_kind[old(tr_len)+1] == 4 && tr_kind[old(tr_len)+2] == 10
//@   ensures returns-what-the-wrapper-stored: r0 == result
//@ func (CorDef).DoNotation lit 0
//@   prop C14
//@   opt callbacks=effectful
//@   opt effects=trace
//@   requires effect != nil
//@   ensures@done result-stored-before-signalling: tr_len == old(tr_len)+1 && tr_kind[old(tr_len)] == 1 && tr_fn[old(tr_len)] == effect && tr_arg[old(tr_len)] == boxed(cor) && boxed(result) == tr_res[old(tr_len)]
//@   ensures once-then-signal: tr_len == old(tr_len)+2 && tr_kind[old(tr_len)] == 1 && tr_fn[old(tr_len)] == effect && tr_arg[old(tr_len)] == boxed(cor) && boxed(result) == tr_res[old(tr_len)] && tr_kind[old(tr_len)+1] == 9

// ===================================================================================================
// C13 - Ask/Reply: the per-goroutine facts.  Every request object carries its own reply channel (fresh, with room for one
// late reply when made by AskNewGenerics); asking is exactly one Send of the request object itself to the target; Reply is
// exactly one send of the response on that request's own channel; AskOnce returns exactly the value received on its own
// channel and closes it only after that; AskOnceWithTimeout returns (that value, nil) after receiving on its own channel (then
// closes it), or (zero, ErrActorAskTimeout) WITHOUT closing anything, so that a reply produced later finds the channel open
// and - for channels made by AskNewGenerics - with room, i.e. the late Reply neither panics nor blocks.
// Events: kind 2 = call through the ActorHandle interface, 5 = send, 6 = close, 7 = receive (tr_obj = the channel).
//@ func AskNewByOptionsGenerics
//@   prop C13
//@   ensures made: r0 != nil && fresh(r0) && r0.ch == ioCh && r0.Message == message
//@ func AskNewGenerics
//@   prop C13
//@   ensures own-channel: r0 != nil && fresh(r0) && r0.ch != nil && fresh(r0.ch) && chancap(r0.ch) >= 1 && r0.Message == message

//@ func (AskDef).AskChannel
//@   prop C12,C13
//@   opt callbacks=effectful
//@   opt effects=trace
//@   opt dispatch=ActorHandle:off
//@   requires askSelf != nil && !untyped(target)
//@   ensures one-send-of-this-request: tr_len == old(tr_len)+1 && tr_kind[old(tr_len)] == 2 && tr_recv[old(tr_len)] == target && tr_fn[old(tr_len)] == method("ActorHandle.Send") && tr_arg[old(tr_len)] == boxed(askSelf)
//@   ensures own-channel: r0 == askSelf.ch

//@ func (AskDef).Reply
//@   prop C13
//@   opt callbacks=effectful
//@   opt effects=trace
//@   requires askSelf != nil
//@   ensures one-reply-on-own-channel: tr_len == old(tr_len)+1 && tr_kind[old(tr_len)] == 5 && tr_obj[old(tr_len)] == askSelf.ch && tr_arg[old(tr_len)] == response

//@ func (AskDef).AskOnce
//@   prop C12,C13
//@   opt callbacks=effectful
//@   opt effects=trace
//@   opt dispatch=ActorHandle:off
//@   requires askSelf != nil && askSelf.ch != nil && !untyped(target)
//@   ensures asked: tr_len == old(tr_len)+3 && tr_kind[old(tr_len)] == 2 && tr_recv[old(tr_len)] == target && tr_fn[old(tr_len)] == method("ActorHandle.Send") && tr_arg[old(tr_len)] == boxed(askSelf)
//@   ensures own-answer: tr_kind[old(tr_len)+1] == 7 && tr_obj[old(tr_len)+1] == askSelf.ch && r0 == tr_res[old(tr_len)+1]
//@   ensures closed-after-the-answer: tr_kind[old(tr_len)+2] == 6 && tr_obj[old(tr_len)+2] == askSelf.ch

//@ func (AskDef).AskOnceWithTimeout
//@   prop C12,C13
//@   opt callbacks=effectful
//@   opt effects=trace
//@   opt dispatch=ActorHandle:off
//@   requires askSelf != nil && askSelf.ch != nil && !untyped(target)
//@   ensures asked: tr_len >= old(tr_len)+2 && tr_kind[old(tr_len)] == 2 && tr_recv[old(tr_len)] == target && tr_fn[old(tr_len)] == method("ActorHandle.Send") && tr_arg[old(tr_len)] == boxed(askSelf)
//@   ensures answered: r1 == nil ==> tr_len == old(tr_len)+3 && tr_kind[old(tr_len)+1] == 7 && tr_obj[old(tr_len)+1] == askSelf.ch && r0 == tr_res[old(tr_len)+1] && tr_kind[old(tr_len)+2] == 6 && tr_obj[old(tr_len)+2] == askSelf.ch
// the timer is armed with exactly the caller's timeout on every path (time.After is an opaque library call; After_arg0 is the
// argument of its latest call) - a variant that waits without a timer for some timeouts does not bind this clause there
//@   ensures@body timer-armed-with-the-given-timeout: After_arg0 == timeout
//@   ensures timed-out-clean: r1 != nil ==> r1 == ErrActorAskTimeout && r0 == zeroof(r0) && tr_len == old(tr_len)+2 && forall(k, old(tr_len), tr_len, tr_kind[k] != 6)

// ===================================================================================================
// C14 - coroutines: the per-goroutine routing facts.  A request is a fresh CorOp{cor: the requester, val: the value sent};
// YieldFrom/StartWithVal put exactly one request into the TARGET's opCh (under the target's closedM, when it is not done);
// YieldRef takes exactly one request from ITS OWN opCh, answers on THE REQUESTER's resultCh (under the requester's
// closedM, when that one is not done) with exactly the value it yields, and returns exactly the request's value; YieldFrom
// then returns what it receives on ITS OWN resultCh.  Start spawns exactly one goroutine running effect() then close();
// close sets the flag and closes both channels under closedM.  (doCloseSafe is inlined into its callers.)
// Events: 4 = go, 5 = send, 6 = close, 7 = receive (tr_obj = channel, tr_arg = value sent, tr_res = value received).
//@ func CorNewGenerics
//@   prop C14
//@   opt holds-callbacks=true
//@   ensures made: r0 != nil && fresh(r0) && r0.effect == effect && r0.opCh != nil && fresh(r0.opCh) && r0.resultCh != nil && fresh(r0.resultCh) && chancap(r0.opCh) == 5 && chancap(r0.resultCh) == 5 && !r0.isStarted && !r0.isClosed
//@ func (CorDef).IsDone
//@   prop C14
//@   requires corSelf != nil
//@   ensures def: r0 == corSelf.isClosed
//@ func (CorDef).IsStarted
//@   prop C14
//@   requires corSelf != nil
//@   ensures def: r0 == corSelf.isStarted

//@ func (CorDef).receive
//@   prop C14
//@   opt callbacks=effectful
//@   opt effects=trace
//@   opt lockguard=opCh:closedM
//@   requires corSelf != nil
//@   ensures done-drops: old(corSelf.isClosed) || corSelf.opCh == nil ==> tr_len == old(tr_len)
//@   ensures one-request: !old(corSelf.isClosed) && corSelf.opCh != nil ==> tr_len == old(tr_len)+1 && tr_kind[old(tr_len)] == 5 && tr_obj[old(tr_len)] == corSelf.opCh && asptr(tr_arg[old(tr_len)], CorOp) != nil && fresh(asptr(tr_arg[old(tr_len)], CorOp)) && asptr(tr_arg[old(tr_len)], CorOp).cor == cor && asptr(tr_arg[old(tr_len)], CorOp).val == in

//@ func (CorDef).YieldRef
//@   prop C14
//@   opt callbacks=effectful
//@   opt effects=trace
//@   opt recv-nonnil=true
//@   requires corSelf != nil
//@   ensures done: old(corSelf.isClosed) ==> tr_len == old(tr_len) && r0 == zeroof(r0)
//@   ensures takes-own-request: !old(corSelf.isClosed) ==> tr_len >= old(tr_len)+1 && tr_kind[old(tr_len)] == 7 && tr_obj[old(tr_len)] == corSelf.opCh && r0 == asptr(tr_res[old(tr_len)], CorOp).val
//@   ensures answers-the-requester: !old(corSelf.isClosed) && asptr(tr_res[old(tr_len)], CorOp).cor != nil && !asptr(tr_res[old(tr_len)], CorOp).cor.isClosed ==> tr_len == old(tr_len)+2 && tr_kind[old(tr_len)+1] == 5 && tr_obj[old(tr_len)+1] == asptr(tr_res[old(tr_len)], CorOp).cor.resultCh && tr_arg[old(tr_len)+1] == out
//@   ensures nobody-to-answer: !old(corSelf.isClosed) && (asptr(tr_res[old(tr_len)], CorOp).cor == nil || asptr(tr_res[old(tr_len)], CorOp).cor.isClosed) ==> tr_len == old(tr_len)+1

//@ func (CorDef).YieldFrom
//@   prop C14
//@   opt callbacks=effectful
//@   opt effects=trace
//@   requires corSelf != nil && target != nil
//@   ensures done: old(corSelf.isClosed) ==> tr_len == old(tr_len) && r0 == zeroof(r0)
//@   ensures request-to-target: !old(corSelf.isClosed) && !old(target.isClosed) && target.opCh != nil ==> tr_len == old(tr_len)+2 && tr_kind[old(tr_len)] == 5 && tr_obj[old(tr_len)] == target.opCh && asptr(tr_arg[old(tr_len)], CorOp).cor == corSelf && asptr(tr_arg[old(tr_len)], CorOp).val == in
//@   ensures own-answer: !old(corSelf.isClosed) ==> tr_kind[tr_len-1] == 7 && tr_obj[tr_len-1] == corSelf.resultCh && r0 == tr_res[tr_len-1]

//@ func (CorDef).Start
//@   prop C14
//@   opt callbacks=effectful
//@   opt effects=trace
//@   modifies corSelf
//@   requires corSelf != nil
//@   ensures already: old(corSelf.isClosed) || old(corSelf.isStarted) ==> tr_len == old(tr_len) && corSelf.isStarted == old(corSelf.isStarted)
//@   ensures started-once: !old(corSelf.isClosed) && !old(corSelf.isStarted) ==> corSelf.isStarted && tr_len == old(tr_len)+1 && tr_kind[old(tr_len)] == 4
//@   ensures fields-kept: corSelf.effect == old(corSelf.effect) && corSelf.opCh == old(corSelf.opCh) && corSelf.resultCh == old(corSelf.resultCh) && corSelf.isClosed == old(corSelf.isClosed)
//@ func (CorDef).Start lit 0
//@   prop C14
//@   opt callbacks=effectful
//@   opt effects=trace
//@   modifies corSelf
//@   requires corSelf != nil && corSelf.effect != nil
//@   ensures effect-then-close: tr_len >= old(tr_len)+1 && tr_kind[old(tr_len)] == 1 && tr_fn[old(tr_len)] == old(corSelf.effect) && corSelf.isClosed && forall(k, old(tr_len)+1, tr_len, tr_kind[k] == 6)

//@ func (CorDef).StartWithVal
//@   prop C14
//@   opt callbacks=effectful
//@   opt effects=trace
//@   modifies corSelf
//@   requires corSelf != nil && corSelf.opCh != nil
//@   ensures already: old(corSelf.isClosed) || old(corSelf.isStarted) ==> tr_len == old(tr_len)
//@   ensures value-first: !old(corSelf.isClosed) && !old(corSelf.isStarted) ==> tr_len == old(tr_len)+2 && tr_kind[old(tr_len)] == 5 && tr_obj[old(tr_len)] == corSelf.opCh && asptr(tr_arg[old(tr_len)], CorOp).cor == nil && asptr(tr_arg[old(tr_len)], CorOp).val == in && tr_kind[old(tr_len)+1] == 4 && corSelf.isStarted

//@ func (CorDef).close
//@   prop C14
//@   opt callbacks=effectful
//@   opt effects=trace
//@   opt lockguard=opCh:closedM;resultCh:closedM
// the done flag is published BEFORE closedM is taken: a sender may be parked in receive() holding closedM on a full opCh,
// and IsDone / doCloseSafe must see "done" without waiting for it
//@   opt set-outside-lock=isClosed:closedM
//@   modifies corSelf
//@   requires corSelf != nil
//@   ensures closed: corSelf.isClosed && forall(k, old(tr_len), tr_len, tr_kind[k] == 6 && (tr_obj[k] == corSelf.resultCh || tr_obj[k] == corSelf.opCh)) && tr_len == old(tr_len) + ite(corSelf.resultCh != nil, 1, 0) + ite(corSelf.opCh != nil, 1, 0)
//@   ensures fields-kept: corSelf.effect == old(corSelf.effect) && corSelf.opCh == old(corSelf.opCh) && corSelf.resultCh == old(corSelf.resultCh) && corSelf.isStarted == old(corSelf.isStarted)

// thin constructors delegating to the ones above
//@ func (HandlerDef).New
//@   prop C12
//@   opt callbacks=effectful
//@   opt effects=trace
//@   ensures one-consumer: tr_len == old(tr_len)+1 && tr_kind[old(tr_len)] == 4
//@   ensures made: r0 != nil && fresh(r0) && r0.ch != nil && fresh(r0.ch) && !r0.isClosed
//@ func ActorNewGenerics
//@   prop C12
//@   opt callbacks=effectful
//@   opt effects=trace
//@   ensures one-consumer: tr_len == old(tr_len)+1 && tr_kind[old(tr_len)] == 4
//@   ensures made: r0 != nil && fresh(r0) && r0.ch != nil && fresh(r0.ch) && r0.effect == effect && !r0.isClosed && r0.parent == nil
//@ func (ActorDef).New
//@   prop C12
//@   opt callbacks=effectful
//@   opt effects=trace
//@   ensures one-consumer: tr_len == old(tr_len)+1 && tr_kind[old(tr_len)] == 4
//@   ensures made: r0 != nil && fresh(r0) && r0.ch != nil && fresh(r0.ch) && r0.effect == effect && !r0.isClosed && r0.parent == nil
//@ func (ActorDef).NewByOptions
//@   prop C12
//@   opt callbacks=effectful
//@   opt effects=trace
//@   ensures one-consumer: tr_len == old(tr_len)+1 && tr_kind[old(tr_len)] == 4
//@   ensures made: r0 != nil && fresh(r0) && r0.ch == ioCh && r0.effect == effect && !r0.isClosed && r0.parent == nil
//@ func (AskDef).New
//@   prop C13
//@   ensures own-channel: r0 != nil && fresh(r0) && r0.ch != nil && fresh(r0.ch) && chancap(r0.ch) >= 1 && r0.Message == message
//@ func (AskDef).NewByOptions
//@   prop C13
//@   ensures made: r0 != nil && fresh(r0) && r0.ch == ioCh && r0.Message == message
//@ func (CorDef).NewAndStart
//@   prop C14
//@   opt callbacks=effectful
//@   opt effects=trace
//@   ensures started: r0 != nil && fresh(r0) && r0.effect == effect && r0.isStarted && !r0.isClosed && tr_len == old(tr_len)+1 && tr_kind[old(tr_len)] == 4
//@ func (MonadIODef).Just
//@   prop C11
//@   opt callbacks=effectful
//@   opt effects=trace
//@   ensures lazy: tr_len == old(tr_len)
//@   ensures made: r0 != nil && fresh(r0) && r0.obOn == nil && r0.subOn == nil && r0.effect != nil
