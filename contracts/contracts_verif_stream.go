//go:build verif

// Contracts for package fpgo, part 2: Stream / Set / StreamSet (C04 persistence, C05 twins).
package fpgo

// ===================================================================================================
// C04 - Stream / MapSet / StreamSet are persistent.  view(s) = the sequence *s.
// Every method: the result's view is the one its definition prescribes; the receiver's and the arguments' views are
// unchanged; and - proved by the automatic "frame" obligations on every store and by the (empty) modifies sets of the
// callees - nothing that existed before the call is written, so every earlier collection keeps its elements.
// A result is either the receiver itself or owns storage allocated by the call.
// Methods marked "prop C04,C05" are also the generic halves of twin pairs: the interface{} family gets the SAME contract
// text through the "twin" lines below and is verified against its own bodies.

//@ define SV_SAME(s) = *s == old(*s) && unchanged(*s)

//@ func StreamFromArray
//@   prop C04
//@   ensures view: r0 != nil && fresh(r0) && *r0 == list

//@ func StreamFrom
//@   prop C04
//@   ensures view: r0 != nil && fresh(r0) && *r0 == list

//@ func (StreamForInterfaceDef).FromArray
//@   prop C04,C05
//@   ensures view: r0 != nil && fresh(r0) && *r0 == list

//@ func (StreamDef).ToArray
//@   prop C04,C05
//@   requires streamSelf != nil
//@   ensures copy: seqeq(r0, *streamSelf) && fresh(r0)
//@   ensures same: SV_SAME(streamSelf)
//@ twin (StreamDef).ToArray (StreamForInterfaceDef).ToArray prop C04,C05

//@ func (StreamDef).Len
//@   prop C04,C05
//@   pure
//@   requires streamSelf != nil
//@   ensures def: r0 == len(*streamSelf)
//@ twin (StreamDef).Len (StreamForInterfaceDef).Len prop C04,C05

//@ func (StreamDef).Get
//@   prop C04,C05
//@   pure
//@   requires streamSelf != nil && 0 <= i && i < len(*streamSelf)
//@   ensures def: r0 == (*streamSelf)[i]
//@ twin (StreamDef).Get (StreamForInterfaceDef).Get prop C04,C05

//@ func (StreamDef).Contains
//@   prop C04,C05
//@   requires streamSelf != nil
//@   ensures def: r0 == exists(i, 0, len(*streamSelf), (*streamSelf)[i] == input)
//@   ensures same: SV_SAME(streamSelf)
//@ twin (StreamDef).Contains (StreamForInterfaceDef).Contains prop C04,C05

//@ func (StreamDef).Clone
//@   prop C04,C05
//@   requires streamSelf != nil
//@   ensures view: r0 != nil && fresh(r0) && fresh(*r0) && seqeq(*r0, *streamSelf)
//@   ensures same: SV_SAME(streamSelf)
//@ twin (StreamDef).Clone (StreamForInterfaceDef).Clone prop C04,C05

//@ func (StreamDef).Map
//@   prop C04,C05
//@   requires streamSelf != nil
//@   ensures view: r0 != nil && fresh(r0) && fresh(*r0) && len(*r0) == len(*streamSelf) && forall(i, 0, len(*streamSelf), (*r0)[i] == fn((*streamSelf)[i], i))
//@   ensures same: SV_SAME(streamSelf)
//@ twin (StreamDef).Map (StreamForInterfaceDef).Map prop C04,C05

//@ func (StreamDef).Filter
//@   prop C04,C05
//@   ghost g (Array Int Int)
//@   ghost pos (Array Int Int)
//@   ghostset g = Filter_g
//@   ghostset pos = Filter_pos
//@   requires streamSelf != nil
//@   ensures owned: r0 != nil && fresh(r0) && fresh(*r0)
//@   ensures sub: forall(j, 0, len(*r0), 0 <= g[j] && g[j] < len(*streamSelf) && (*r0)[j] == (*streamSelf)[g[j]] && fn((*streamSelf)[g[j]], g[j]))
//@   ensures mono: forall(j, 0, len(*r0), forall(l, 0, j, g[l] < g[j]))
//@   ensures all: forall(k, 0, len(*streamSelf), fn((*streamSelf)[k], k) ==> 0 <= pos[k] && pos[k] < len(*r0) && g[pos[k]] == k)
//@   ensures same: SV_SAME(streamSelf)
//@ twin (StreamDef).Filter (StreamForInterfaceDef).Filter prop C04,C05

//@ func (StreamDef).Reject
//@   prop C04,C05
//@   ghost g (Array Int Int)
//@   ghost pos (Array Int Int)
//@   ghostset g = Reject_g
//@   ghostset pos = Reject_pos
//@   requires streamSelf != nil
//@   ensures owned: r0 != nil && fresh(r0) && fresh(*r0)
//@   ensures sub: forall(j, 0, len(*r0), 0 <= g[j] && g[j] < len(*streamSelf) && (*r0)[j] == (*streamSelf)[g[j]] && !fn((*streamSelf)[g[j]], g[j]))
//@   ensures mono: forall(j, 0, len(*r0), forall(l, 0, j, g[l] < g[j]))
//@   ensures all: forall(k, 0, len(*streamSelf), !fn((*streamSelf)[k], k) ==> 0 <= pos[k] && pos[k] < len(*r0) && g[pos[k]] == k)
//@   ensures same: SV_SAME(streamSelf)
//@ twin (StreamDef).Reject (StreamForInterfaceDef).Reject prop C04,C05

//@ func (StreamDef).Distinct
//@   prop C04,C05
//@   ghost g (Array Int Int)
//@   ghost pos (Array Int Int)
//@   ghostset g = Distinct_g
//@   ghostset pos = Distinct_pos
//@   requires streamSelf != nil
//@   ensures owned: r0 != nil && fresh(r0) && fresh(*r0)
//@   ensures sub: forall(j, 0, len(*r0), 0 <= g[j] && g[j] < len(*streamSelf) && (*r0)[j] == (*streamSelf)[g[j]] && forall(l, 0, g[j], (*streamSelf)[l] != (*streamSelf)[g[j]]))
//@   ensures mono: forall(j, 0, len(*r0), forall(l, 0, j, g[l] < g[j]))
//@   ensures all: forall(k, 0, len(*streamSelf), forall(l, 0, k, (*streamSelf)[l] != (*streamSelf)[k]) ==> 0 <= pos[k] && pos[k] < len(*r0) && g[pos[k]] == k)
//@   ensures same: SV_SAME(streamSelf)
//@ twin (StreamDef).Distinct (StreamForInterfaceDef).Distinct prop C04,C05

//@ func (StreamDef).Minus
//@   prop C04,C05
//@   ensures shorter: len(*r0) <= len(*streamSelf)
//@   ghost g (Array Int Int)
//@   ghost pos (Array Int Int)
//@   ghostset g = Minus_g
//@   ghostset pos = Minus_pos
//@   requires streamSelf != nil
//@   ensures none: !(input != nil && len(*input) > 0) ==> r0 == streamSelf
//@   ensures owned: input != nil && len(*input) > 0 ==> r0 != nil && fresh(r0) && fresh(*r0)
//@   ensures sub: input != nil && len(*input) > 0 ==> forall(j, 0, len(*r0), 0 <= g[j] && g[j] < len(*streamSelf) && (*r0)[j] == (*streamSelf)[g[j]] && !CONTAINS(*input, (*streamSelf)[g[j]]))
//@   ensures mono: input != nil && len(*input) > 0 ==> forall(j, 0, len(*r0), forall(l, 0, j, g[l] < g[j]))
//@   ensures all: input != nil && len(*input) > 0 ==> forall(k, 0, len(*streamSelf), !CONTAINS(*input, (*streamSelf)[k]) ==> 0 <= pos[k] && pos[k] < len(*r0) && g[pos[k]] == k)
//@   ensures same: SV_SAME(streamSelf) && (input != nil ==> SV_SAME(input))
//@ twin (StreamDef).Minus (StreamForInterfaceDef).Minus prop C04,C05

//@ func (StreamDef).RemoveItem
//@   prop C04,C05
//@   ensures shorter: len(*r0) <= len(*streamSelf)
//@   ghost g (Array Int Int)
//@   ghost pos (Array Int Int)
//@   ghostset g = Minus_g
//@   ghostset pos = Minus_pos
//@   requires streamSelf != nil
//@   ensures none: !(len(input) > 0) ==> r0 == streamSelf
//@   ensures owned: len(input) > 0 ==> r0 != nil && fresh(r0) && fresh(*r0)
//@   ensures sub: len(input) > 0 ==> forall(j, 0, len(*r0), 0 <= g[j] && g[j] < len(*streamSelf) && (*r0)[j] == (*streamSelf)[g[j]] && !CONTAINS(input, (*streamSelf)[g[j]]))
//@   ensures mono: len(input) > 0 ==> forall(j, 0, len(*r0), forall(l, 0, j, g[l] < g[j]))
//@   ensures all: len(input) > 0 ==> forall(k, 0, len(*streamSelf), !CONTAINS(input, (*streamSelf)[k]) ==> 0 <= pos[k] && pos[k] < len(*r0) && g[pos[k]] == k)
//@   ensures same: SV_SAME(streamSelf) && unchanged(input)
//@ twin (StreamDef).RemoveItem (StreamForInterfaceDef).RemoveItem prop C04,C05

//@ func (StreamDef).Reverse
//@   prop C04,C05
//@   requires streamSelf != nil
//@   ensures view: r0 != nil && fresh(r0) && fresh(*r0) && len(*r0) == len(*streamSelf) && forall(i, 0, len(*streamSelf), (*r0)[i] == (*streamSelf)[len(*streamSelf)-1-i])
//@   ensures same: SV_SAME(streamSelf)
//@ twin (StreamDef).Reverse (StreamForInterfaceDef).Reverse prop C04,C05

//@ func (StreamDef).Concat
//@   prop C04,C05
//@   ghost start (Array Int Int)
//@   ghostset start = Concat_start
//@   requires streamSelf != nil
//@   ensures none: len(slices) == 0 ==> r0 == streamSelf
//@   ensures owned: len(slices) > 0 ==> r0 != nil && fresh(r0) && fresh(*r0)
//@   ensures offsets: len(slices) > 0 ==> start[0] == len(*streamSelf) && forall(k, 0, len(slices), start[k+1] == start[k] + len(slices[k])) && len(*r0) == start[len(slices)]
//@   ensures mine: len(slices) > 0 ==> forall(i, 0, len(*streamSelf), (*r0)[i] == (*streamSelf)[i])
//@   ensures rest: len(slices) > 0 ==> forall2(k, 0, len(slices), j, 0, len(slices[k]), (*r0)[start[k]+j] == slices[k][j])
//@   ensures same: SV_SAME(streamSelf)
//@ twin (StreamDef).Concat (StreamForInterfaceDef).Concat prop C04,C05

//@ func (StreamDef).Append
//@   prop C04,C05
//@   requires streamSelf != nil
//@   ensures view: r0 != nil && (r0 == streamSelf || (fresh(r0) && fresh(*r0))) && len(*r0) == len(*streamSelf) + len(item) && forall(i, 0, len(*streamSelf), (*r0)[i] == (*streamSelf)[i]) && forall(j, 0, len(item), (*r0)[len(*streamSelf)+j] == item[j])
//@   ensures same: SV_SAME(streamSelf) && unchanged(item)
//@ twin (StreamDef).Append (StreamForInterfaceDef).Append prop C04,C05

//@ func (StreamDef).IsSubset
//@   prop C04,C05
//@   requires streamSelf != nil
//@   ensures empty: input == nil || len(*input) == 0 || len(*streamSelf) == 0 ==> r0 == false
//@   ensures def: input != nil && len(*input) > 0 && len(*streamSelf) > 0 ==> r0 == forall(i, 0, len(*streamSelf), CONTAINS(*input, (*streamSelf)[i]))
//@   ensures same: SV_SAME(streamSelf)
//@ twin (StreamDef).IsSubset (StreamForInterfaceDef).IsSubset prop C04,C05

//@ func (StreamDef).IsSuperset
//@   prop C04,C05
//@   requires streamSelf != nil
//@   ensures empty-input: input == nil || len(*input) == 0 ==> r0 == true
//@   ensures empty-self: input != nil && len(*input) > 0 && len(*streamSelf) == 0 ==> r0 == false
//@   ensures def: input != nil && len(*input) > 0 && len(*streamSelf) > 0 ==> r0 == forall(i, 0, len(*input), CONTAINS(*streamSelf, (*input)[i]))
//@   ensures same: SV_SAME(streamSelf)
//@ twin (StreamDef).IsSuperset (StreamForInterfaceDef).IsSuperset prop C04,C05

//@ func (StreamDef).Intersection
//@   prop C04,C05
//@   ghost g (Array Int Int)
//@   ghost pos (Array Int Int)
//@   ghostset g = Intersection_g
//@   ghostset pos = Intersection_pos
//@   requires streamSelf != nil
//@   ensures empty: input == nil || len(*input) == 0 ==> r0 != nil && fresh(r0) && len(*r0) == 0
//@   ensures owned: input != nil && len(*input) > 0 ==> r0 != nil && fresh(r0) && freshOrNil(*r0)
//@   ensures sub: input != nil && len(*input) > 0 ==> forall(j, 0, len(*r0), 0 <= g[j] && g[j] < len(*streamSelf) && (*r0)[j] == (*streamSelf)[g[j]] && CONTAINS(*input, (*streamSelf)[g[j]]) && forall(l, 0, g[j], (*streamSelf)[l] != (*streamSelf)[g[j]]))
//@   ensures mono: input != nil && len(*input) > 0 ==> forall(j, 0, len(*r0), forall(l, 0, j, g[l] < g[j]))
//@   ensures all: input != nil && len(*input) > 0 ==> forall(k, 0, len(*streamSelf), CONTAINS(*input, (*streamSelf)[k]) && forall(l, 0, k, (*streamSelf)[l] != (*streamSelf)[k]) ==> 0 <= pos[k] && pos[k] < len(*r0) && g[pos[k]] == k)
//@   ensures same: SV_SAME(streamSelf) && (input != nil ==> SV_SAME(input))
//@ twin (StreamDef).Intersection (StreamForInterfaceDef).Intersection prop C04,C05

// the generic Remove builds a new stream; the interface{} Remove is the documented in-place mutator (returns the receiver)
//@ func (StreamDef).Remove
//@   prop C04
//@   requires streamSelf != nil
//@   ensures out-of-range: index < 0 || index >= len(*streamSelf) ==> r0 == streamSelf
//@   ensures removed: 0 <= index && index < len(*streamSelf) ==> r0 != nil && fresh(r0) && fresh(*r0) && len(*r0) == len(*streamSelf)-1 && forall(i, 0, index, (*r0)[i] == (*streamSelf)[i]) && forall(i, index, len(*r0), (*r0)[i] == (*streamSelf)[i+1])
//@   ensures same: SV_SAME(streamSelf)

//@ func (StreamForInterfaceDef).Remove
//@   prop C04
//@   modifies streamSelf, *streamSelf
//@   requires streamSelf != nil
//@   ensures same-object: r0 == streamSelf
//@   ensures out-of-range: index < 0 || index >= old(len(*streamSelf)) ==> *streamSelf == old(*streamSelf) && unchanged(*streamSelf)
//@   ensures removed: 0 <= index && index < old(len(*streamSelf)) ==> len(*streamSelf) == old(len(*streamSelf))-1 && forall(i, 0, index, (*streamSelf)[i] == old((*streamSelf)[i])) && forall(i, index, len(*streamSelf), (*streamSelf)[i] == old((*streamSelf)[i+1]))

// ===================================================================================================
// C04 / C05 - MapSetDef (a map behind the SetDef interface): operations that "change" a set return a fresh map - the receiver's
// map is never written (frame) - whose keys and values are the definition's; with nothing to do they return the receiver itself.
// MSR(v) = the map behind a SetDef value v whose dynamic type is *MapSetDef.
//@ define MSR(v) = *asptr(v, MapSetDef)
//@ define MS_FRESH(v) = isptr(v, MapSetDef) && asptr(v, MapSetDef) != nil && fresh(asptr(v, MapSetDef)) && fresh(MSR(v)) && MSR(v) != nil

//@ func (MapSetDef).AsMap
//@   prop C04,C05
//@   requires mapSetSelf != nil
//@   ensures def: r0 == *mapSetSelf
//@ func (MapSetDef).AsMapSet
//@   prop C04,C05
//@   ensures def: r0 == mapSetSelf
//@ func (MapSetDef).Size
//@   prop C04,C05
//@   requires mapSetSelf != nil
//@   ensures def: r0 == len(*mapSetSelf)
//@ func (MapSetDef).ContainsKey
//@   prop C04,C05
//@   requires mapSetSelf != nil
//@   ensures def: r0 == has(*mapSetSelf, input)
//@ func (MapSetDef).Get
//@   prop C04,C05
//@   requires mapSetSelf != nil
//@   ensures def: r0 == (*mapSetSelf)[key]

//@ func (MapSetDef).Clone
//@   prop C04,C05
//@   requires mapSetSelf != nil
//@   ensures copy: MS_FRESH(r0) && forallv(x, has(MSR(r0), x) == has(*mapSetSelf, x)) && forallv(x, has(*mapSetSelf, x) ==> MSR(r0)[x] == (*mapSetSelf)[x])

//@ func (MapSetDef).Add
//@   prop C04,C05
//@   requires mapSetSelf != nil
//@   ensures nothing-to-add: len(input) == 0 ==> r0 == boxed(mapSetSelf)
//@   ensures fresh-result: len(input) > 0 ==> MS_FRESH(r0)
//@   ensures keys: len(input) > 0 ==> forallv(x, has(MSR(r0), x) == (has(*mapSetSelf, x) || exists(i, 0, len(input), input[i] == x)))
//@   ensures old-values-kept: len(input) > 0 ==> forallv(x, has(*mapSetSelf, x) ==> MSR(r0)[x] == (*mapSetSelf)[x])
//@   ensures new-values-zero: len(input) > 0 ==> forallv(x, !has(*mapSetSelf, x) && has(MSR(r0), x) ==> MSR(r0)[x] == zeroof((*mapSetSelf)[x]))
//@ func (MapSetDef).Add loop 0
//@   invariant result: MS_FRESH(result)
//@   invariant keys: forallv(x, has(MSR(result), x) == (has(*mapSetSelf, x) || exists(i, 0, _i, input[i] == x)))
//@   invariant old-values-kept: forallv(x, has(*mapSetSelf, x) ==> MSR(result)[x] == (*mapSetSelf)[x])
//@   invariant new-values-zero: forallv(x, !has(*mapSetSelf, x) && has(MSR(result), x) ==> MSR(result)[x] == zeroof((*mapSetSelf)[x]))

//@ func (MapSetDef).RemoveKeys
//@   prop C04,C05
//@   requires mapSetSelf != nil
//@   ensures nothing-to-remove: len(input) == 0 ==> r0 == boxed(mapSetSelf)
//@   ensures fresh-result: len(input) > 0 ==> MS_FRESH(r0)
//@   ensures keys: len(input) > 0 ==> forallv(x, has(MSR(r0), x) == (has(*mapSetSelf, x) && !exists(i, 0, len(input), input[i] == x)))
//@   ensures values-kept: len(input) > 0 ==> forallv(x, has(MSR(r0), x) ==> MSR(r0)[x] == (*mapSetSelf)[x])
//@ func (MapSetDef).RemoveKeys loop 0
//@   invariant result: MS_FRESH(result)
//@   invariant keys: forallv(x, has(MSR(result), x) == (has(*mapSetSelf, x) && !exists(i, 0, _i, input[i] == x)))
//@   invariant values-kept: forallv(x, has(MSR(result), x) ==> MSR(result)[x] == (*mapSetSelf)[x])

//@ func (MapSetDef).Set
//@   prop C04,C05
//@   modifies *mapSetSelf
//@   requires mapSetSelf != nil && *mapSetSelf != nil
//@   ensures stored: has(*mapSetSelf, key) && (*mapSetSelf)[key] == value && forallv(x, x != key ==> has(*mapSetSelf, x) == old(has(*mapSetSelf, x)) && (*mapSetSelf)[x] == old((*mapSetSelf)[x]))

//@ func (MapSetDef).Minus
//@   prop C04,C05
//@   opt dispatch=force
//@   requires mapSetSelf != nil && (untyped(input) || isptr(input, MapSetDef) && asptr(input, MapSetDef) != nil)
//@   ensures nothing-to-remove: untyped(input) || len(MSR(input)) == 0 ==> r0 == boxed(mapSetSelf)
//@   ensures fresh-result: !untyped(input) && len(MSR(input)) > 0 ==> MS_FRESH(r0)
//@   ensures keys: !untyped(input) && len(MSR(input)) > 0 ==> forallv(x, has(MSR(r0), x) == (has(*mapSetSelf, x) && !has(MSR(input), x)))
//@   ensures values-kept: !untyped(input) && len(MSR(input)) > 0 ==> forallv(x, has(MSR(r0), x) ==> MSR(r0)[x] == (*mapSetSelf)[x])
//@ func (MapSetDef).Minus loop 0
//@   invariant result: MS_FRESH(result) && MSR(result) == _m
//@   invariant keys: forallv(x, has(MSR(result), x) == (has(*mapSetSelf, x) && !(_visited(x) && has(MSR(input), x))))
//@   invariant iterating-the-copy: forall(j, 0, _n, has(*mapSetSelf, _keyat(j)))
//@   invariant values-kept: forallv(x, has(MSR(result), x) ==> MSR(result)[x] == (*mapSetSelf)[x])

//@ func (MapSetDef).Union
//@   prop C04,C05
//@   opt dispatch=force
//@   requires mapSetSelf != nil && (untyped(input) || isptr(input, MapSetDef) && asptr(input, MapSetDef) != nil)
//@   ensures nothing-to-add: untyped(input) || len(MSR(input)) == 0 ==> r0 == boxed(mapSetSelf)
//@   ensures fresh-result: !untyped(input) && len(MSR(input)) > 0 ==> MS_FRESH(r0)
//@   ensures keys: !untyped(input) && len(MSR(input)) > 0 ==> forallv(x, has(MSR(r0), x) == (has(*mapSetSelf, x) || has(MSR(input), x)))
//@   ensures values: !untyped(input) && len(MSR(input)) > 0 ==> forallv(x, (has(MSR(input), x) ==> MSR(r0)[x] == MSR(input)[x]) && (has(*mapSetSelf, x) && !has(MSR(input), x) ==> MSR(r0)[x] == (*mapSetSelf)[x]))

//@ func SetFromMap
//@   prop C04,C05
//@   ensures wraps: r0 != nil && fresh(r0) && *r0 == theMap
//@ func SetFromArray
//@   prop C04,C05
//@   ensures made: r0 != nil && fresh(r0) && fresh(*r0) && forallv(x, has(*r0, x) == exists(i, 0, len(list), list[i] == x))
//@ func SetFrom
//@   prop C04,C05
//@   ensures made: r0 != nil && fresh(r0) && fresh(*r0) && forallv(x, has(*r0, x) == exists(i, 0, len(list), list[i] == x))

// ===================================================================================================
// C04 / C05 - StreamSetDef (key -> *StreamDef).  SS(s) = the map of s.  Clone is deep: the same keys, nil stays nil, every
// stream is a fresh copy with the same items.  MinusStreams (non-empty operand): the receiver's keys, unchanged; under each key
// that the operand maps to a non-empty stream, the receiver's stream minus the operand's (nil counts as empty); otherwise a
// copy of the receiver's stream.  Nothing that existed before is written (frame).
//@ define SS(s) = s.MapSetDef

//@ func NewStreamSet
//@   prop C04,C05
//@   ensures empty: r0 != nil && fresh(r0) && SS(r0) != nil && fresh(SS(r0)) && len(SS(r0)) == 0 && forallv(x, !has(SS(r0), x))

//@ func StreamSetFromMap
//@   prop C04,C05
//@   ensures copy: r0 != nil && fresh(r0) && SS(r0) != nil && fresh(SS(r0)) && forallv(x, has(SS(r0), x) == has(theMap, x)) && forallv(x, has(theMap, x) ==> SS(r0)[x] == theMap[x])

//@ func StreamSetFromArray
//@   prop C04,C05
//@   ensures made: r0 != nil && fresh(r0) && SS(r0) != nil && fresh(SS(r0)) && forallv(x, has(SS(r0), x) == exists(i, 0, len(list), list[i] == x))
//@   ensures empty-streams: forallv(x, has(SS(r0), x) ==> SS(r0)[x] != nil && fresh(SS(r0)[x]) && len(*SS(r0)[x]) == 0)
//@ func StreamSetFromArray loop 0
//@   invariant made: newOne != nil && fresh(newOne) && SS(newOne) != nil && fresh(SS(newOne)) && forallv(x, has(SS(newOne), x) == exists(i, 0, _i, list[i] == x))
//@   invariant empty-streams: forallv(x, has(SS(newOne), x) ==> SS(newOne)[x] != nil && fresh(SS(newOne)[x]) && len(*SS(newOne)[x]) == 0)
//@ func StreamSetFrom
//@   prop C04,C05
//@   ensures made: r0 != nil && fresh(r0) && SS(r0) != nil && fresh(SS(r0)) && forallv(x, has(SS(r0), x) == exists(i, 0, len(list), list[i] == x))
//@   ensures empty-streams: forallv(x, has(SS(r0), x) ==> SS(r0)[x] != nil && fresh(SS(r0)[x]) && len(*SS(r0)[x]) == 0)

//@ func (StreamSetDef).Clone
//@   prop C04,C05
//@   requires streamSetSelf != nil
//@   ensures fresh-result: r0 != nil && fresh(r0) && SS(r0) != nil && fresh(SS(r0))
//@   ensures same-keys: forallv(x, has(SS(r0), x) == has(SS(streamSetSelf), x))
//@   ensures deep: forallv(x, has(SS(r0), x) ==> (SS(streamSetSelf)[x] == nil ==> SS(r0)[x] == nil) && (SS(streamSetSelf)[x] != nil ==> SS(r0)[x] != nil && fresh(SS(r0)[x]) && fresh(*SS(r0)[x]) && seqeq(*SS(r0)[x], *SS(streamSetSelf)[x])))
//@ func (StreamSetDef).Clone loop 0
//@   invariant result: result != nil && fresh(result) && SS(result) != nil && fresh(SS(result)) && SS(result) == _m
//@   invariant same-keys: forallv(x, has(SS(result), x) == has(SS(streamSetSelf), x))
//@   invariant visited-deep: forallv(x, _visited(x) ==> (SS(streamSetSelf)[x] == nil ==> SS(result)[x] == nil) && (SS(streamSetSelf)[x] != nil ==> SS(result)[x] != nil && fresh(SS(result)[x]) && fresh(*SS(result)[x]) && seqeq(*SS(result)[x], *SS(streamSetSelf)[x])))
//@   invariant rest-shared: forallv(x, has(SS(result), x) && !_visited(x) ==> SS(result)[x] == SS(streamSetSelf)[x])

//@ define SUBTRACTS(k) = has(SS(input), k) && SS(input)[k] != nil && len(*SS(input)[k]) > 0
//@ func (StreamSetDef).MinusStreams
//@   prop C04,C05
//@   requires streamSetSelf != nil
//@   ensures empty-operand: input == nil || len(SS(input)) == 0 ==> r0 != nil && fresh(r0) && len(SS(r0)) == 0
//@   ensures fresh-result: input != nil && len(SS(input)) > 0 ==> r0 != nil && fresh(r0) && SS(r0) != nil && fresh(SS(r0))
//@   ensures keys-unchanged: input != nil && len(SS(input)) > 0 ==> forallv(x, has(SS(r0), x) == has(SS(streamSetSelf), x))
//@   ensures untouched-keys-copied: input != nil && len(SS(input)) > 0 ==> forallv(x, has(SS(r0), x) && !SUBTRACTS(x) ==> (SS(streamSetSelf)[x] == nil ==> SS(r0)[x] == nil) && (SS(streamSetSelf)[x] != nil ==> SS(r0)[x] != nil && fresh(SS(r0)[x]) && seqeq(*SS(r0)[x], *SS(streamSetSelf)[x])))
//@   ensures subtracted: input != nil && len(SS(input)) > 0 ==> forallv(x, has(SS(r0), x) && SUBTRACTS(x) ==> SS(r0)[x] != nil && fresh(SS(r0)[x]) && (SS(streamSetSelf)[x] == nil ==> len(*SS(r0)[x]) == 0) && (SS(streamSetSelf)[x] != nil ==> len(*SS(r0)[x]) <= len(*SS(streamSetSelf)[x]) && forall(j, 0, len(*SS(r0)[x]), CONTAINS(*SS(streamSetSelf)[x], (*SS(r0)[x])[j]) && !CONTAINS(*SS(input)[x], (*SS(r0)[x])[j]))))
//@ func (StreamSetDef).MinusStreams loop 0
//@   invariant result: result != nil && fresh(result) && SS(result) != nil && fresh(SS(result)) && SS(result) == _m
//@   invariant keys-unchanged: forallv(x, has(SS(result), x) == has(SS(streamSetSelf), x))
//@   invariant untouched-keys-copied: forallv(x, has(SS(result), x) && (!SUBTRACTS(x) || !_visited(x)) ==> (SS(streamSetSelf)[x] == nil ==> SS(result)[x] == nil) && (SS(streamSetSelf)[x] != nil ==> SS(result)[x] != nil && fresh(SS(result)[x]) && fresh(*SS(result)[x]) && seqeq(*SS(result)[x], *SS(streamSetSelf)[x])))
//@   invariant subtracted: forallv(x, has(SS(result), x) && SUBTRACTS(x) && _visited(x) ==> SS(result)[x] != nil && fresh(SS(result)[x]) && (SS(streamSetSelf)[x] == nil ==> len(*SS(result)[x]) == 0) && (SS(streamSetSelf)[x] != nil ==> len(*SS(result)[x]) <= len(*SS(streamSetSelf)[x]) && forall(j, 0, len(*SS(result)[x]), CONTAINS(*SS(streamSetSelf)[x], (*SS(result)[x])[j]) && !CONTAINS(*SS(input)[x], (*SS(result)[x])[j]))))

// ===================================================================================================
// C04 / C05 - SetForInterfaceDef, the interface{} twin of MapSetDef: the same characterisations as the generic family above
// (fresh result map, receiver and arguments never written, keys and values as defined; the receiver itself when there is
// nothing to do), by key: the value stored under a key that is merely "present" is not specified for this family (the generic twin stores the zero
// value of its value type, which an interface{} set cannot know; the twins agree on keys).
//@ func (SetForInterfaceDef).Size
//@   prop C04,C05
//@   requires setSelf != nil
//@   ensures def: r0 == len(*setSelf)
//@ func (SetForInterfaceDef).ContainsKey
//@   prop C04,C05
//@   requires setSelf != nil
//@   ensures def: r0 == has(*setSelf, input)
//@ func (SetForInterfaceDef).Get
//@   prop C04,C05
//@   requires setSelf != nil
//@   ensures def: r0 == (*setSelf)[key]
//@ func (SetForInterfaceDef).Set
//@   prop C04,C05
//@   modifies *setSelf
//@   requires setSelf != nil && *setSelf != nil
//@   ensures stored: has(*setSelf, key) && (*setSelf)[key] == value && forallv(x, x != key ==> has(*setSelf, x) == old(has(*setSelf, x)) && (*setSelf)[x] == old((*setSelf)[x]))

//@ func (SetForInterfaceDef).Clone
//@   prop C04,C05
//@   requires setSelf != nil
//@   ensures copy: r0 != nil && fresh(r0) && *r0 != nil && fresh(*r0) && forallv(x, has(*r0, x) == has(*setSelf, x)) && forallv(x, has(*setSelf, x) ==> (*r0)[x] == (*setSelf)[x])

//@ func (SetForInterfaceDef).Add
//@   prop C04,C05
//@   requires setSelf != nil
//@   ensures nothing-to-add: len(input) == 0 ==> r0 == setSelf
//@   ensures fresh-result: len(input) > 0 ==> r0 != nil && fresh(r0) && *r0 != nil && fresh(*r0)
//@   ensures keys: len(input) > 0 ==> forallv(x, has(*r0, x) == (has(*setSelf, x) || exists(i, 0, len(input), input[i] == x)))
//@   ensures old-values-kept: len(input) > 0 ==> forallv(x, has(*setSelf, x) ==> (*r0)[x] == (*setSelf)[x])
//@ func (SetForInterfaceDef).Add loop 0
//@   invariant result: result != nil && fresh(result) && *result != nil && fresh(*result)
//@   invariant keys: forallv(x, has(*result, x) == (has(*setSelf, x) || exists(i, 0, _i, input[i] == x)))
//@   invariant old-values-kept: forallv(x, has(*setSelf, x) ==> (*result)[x] == (*setSelf)[x])

//@ func (SetForInterfaceDef).RemoveKeys
//@   prop C04,C05
//@   requires setSelf != nil
//@   ensures nothing-to-remove: len(input) == 0 ==> r0 == setSelf
//@   ensures fresh-result: len(input) > 0 ==> r0 != nil && fresh(r0) && *r0 != nil && fresh(*r0)
//@   ensures keys: len(input) > 0 ==> forallv(x, has(*r0, x) == (has(*setSelf, x) && !exists(i, 0, len(input), input[i] == x)))
//@   ensures values-kept: len(input) > 0 ==> forallv(x, has(*r0, x) ==> (*r0)[x] == (*setSelf)[x])
//@ func (SetForInterfaceDef).RemoveKeys loop 0
//@   invariant result: result != nil && fresh(result) && *result != nil && fresh(*result)
//@   invariant keys: forallv(x, has(*result, x) == (has(*setSelf, x) && !exists(i, 0, _i, input[i] == x)))
//@   invariant values-kept: forallv(x, has(*result, x) ==> (*result)[x] == (*setSelf)[x])

//@ func (SetForInterfaceDef).Minus
//@   prop C04,C05
//@   requires setSelf != nil
//@   ensures nothing-to-remove: input == nil || len(*input) == 0 ==> r0 == setSelf
//@   ensures fresh-result: input != nil && len(*input) > 0 ==> r0 != nil && fresh(r0) && *r0 != nil && fresh(*r0)
//@   ensures keys: input != nil && len(*input) > 0 ==> forallv(x, has(*r0, x) == (has(*setSelf, x) && !has(*input, x)))
//@   ensures values-kept: input != nil && len(*input) > 0 ==> forallv(x, has(*r0, x) ==> (*r0)[x] == (*setSelf)[x])
//@ func (SetForInterfaceDef).Minus loop 0
//@   invariant result: result != nil && fresh(result) && *result != nil && fresh(*result) && *result == _m
//@   invariant keys: forallv(x, has(*result, x) == (has(*setSelf, x) && !(_visited(x) && has(*input, x))))
//@   invariant iterating-the-copy: forall(j, 0, _n, has(*setSelf, _keyat(j)))
//@   invariant values-kept: forallv(x, has(*result, x) ==> (*result)[x] == (*setSelf)[x])

//@ func (SetForInterfaceDef).Union
//@   prop C04,C05
//@   requires setSelf != nil
//@   ensures nothing-to-add: input == nil || len(*input) == 0 ==> r0 == setSelf
//@   ensures fresh-result: input != nil && len(*input) > 0 ==> r0 != nil && fresh(r0) && *r0 != nil && fresh(*r0)
//@   ensures keys: input != nil && len(*input) > 0 ==> forallv(x, has(*r0, x) == (has(*setSelf, x) || has(*input, x)))
//@   ensures values: input != nil && len(*input) > 0 ==> forallv(x, (has(*input, x) ==> (*r0)[x] == (*input)[x]) && (has(*setSelf, x) && !has(*input, x) ==> (*r0)[x] == (*setSelf)[x]))

//@ func SetForInterfaceFromArray
//@   prop C04,C05
//@   ensures made: r0 != nil && fresh(r0) && fresh(*r0) && forallv(x, has(*r0, x) == exists(i, 0, len(list), list[i] == x))
//@ func SetForInterfaceFrom
//@   prop C04,C05
//@   ensures made: r0 != nil && fresh(r0) && fresh(*r0) && forallv(x, has(*r0, x) == exists(i, 0, len(list), list[i] == x))
//@ func SetForInterfaceFromMap
//@   prop C04,C05
//@   ensures made: r0 != nil && fresh(r0) && fresh(*r0) && forallv(x, has(*r0, x) == has(theMap, x))

// StreamSetForInterfaceDef: key -> interface{} holding nil or a non-nil *StreamForInterfaceDef (SSI_WF); STI(s, x) is that stream.
//@ define SSI(s) = s.SetForInterfaceDef
//@ define STI(s, x) = asptr(SSI(s)[x], StreamForInterfaceDef)
//@ define SSI_WF(s) = forallv(x, has(SSI(s), x) ==> untyped(SSI(s)[x]) || (isptr(SSI(s)[x], StreamForInterfaceDef) && STI(s, x) != nil))
//@ define SUBTRACTSI(k) = has(SSI(input), k) && !untyped(SSI(input)[k]) && len(*STI(input, k)) > 0

//@ func NewStreamSetForInterface
//@   prop C04,C05
//@   ensures empty: r0 != nil && fresh(r0) && SSI(r0) != nil && fresh(SSI(r0)) && len(SSI(r0)) == 0 && forallv(x, !has(SSI(r0), x))

//@ define SSI_MADE(r) = r != nil && fresh(r) && SSI(r) != nil && fresh(SSI(r)) && forallv(x, has(SSI(r), x) == exists(i, 0, len(list), list[i] == x))
//@ define SSI_EMPTY_STREAMS(r) = forallv(x, has(SSI(r), x) ==> isptr(SSI(r)[x], StreamForInterfaceDef) && STI(r, x) != nil && fresh(STI(r, x)) && len(*STI(r, x)) == 0)
//@ func StreamSetForInterfaceFromArray
//@   prop C04,C05
//@   ensures made: SSI_MADE(r0)
//@   ensures empty-streams: SSI_EMPTY_STREAMS(r0)
//@ func StreamSetForInterfaceFromArray loop 0
//@   invariant made: newOne != nil && fresh(newOne) && SSI(newOne) != nil && fresh(SSI(newOne)) && forallv(x, has(SSI(newOne), x) == exists(i, 0, _i, list[i] == x))
//@   invariant empty-streams: SSI_EMPTY_STREAMS(newOne)
//@ func StreamSetForInterfaceFrom
//@   prop C04,C05
//@   ensures made: SSI_MADE(r0)
//@   ensures empty-streams: SSI_EMPTY_STREAMS(r0)
//@ func StreamSetFromInterface
//@   prop C04,C05
//@   ensures made: SSI_MADE(r0)
//@   ensures empty-streams: SSI_EMPTY_STREAMS(r0)
//@ func StreamSetFromArrayInterface
//@   prop C04,C05
//@   ensures made: SSI_MADE(r0)
//@   ensures empty-streams: SSI_EMPTY_STREAMS(r0)
// the map is copied; each value is the given stream pointer itself, boxed (a nil pointer is boxed as a typed nil)
//@ func StreamSetForInterfaceFromMap
//@   prop C04,C05
//@   ensures copy: r0 != nil && fresh(r0) && SSI(r0) != nil && fresh(SSI(r0)) && forallv(x, has(SSI(r0), x) == has(theMap, x)) && forallv(x, has(theMap, x) ==> isptr(SSI(r0)[x], StreamForInterfaceDef) && STI(r0, x) == theMap[x])
//@ func StreamSetForInterfaceFromMap loop 0
//@   invariant copy: resultMap != nil && fresh(resultMap) && forallv(x, has(resultMap, x) == (has(theMap, x) && _visited(x))) && forallv(x, has(resultMap, x) ==> isptr(resultMap[x], StreamForInterfaceDef) && asptr(resultMap[x], StreamForInterfaceDef) == theMap[x])

// the typed-slice converters: a new stream whose i-th item is the i-th element, boxed; the input is only read
//@ func (StreamForInterfaceDef).FromArrayString
//@   prop C04,C05
//@   ensures boxed-copy: r0 != nil && fresh(r0) && fresh(*r0) && len(*r0) == len(old) && forall(i, 0, len(old), (*r0)[i] == boxed(old[i]))
//@ func (StreamForInterfaceDef).FromArrayString loop 0
//@   invariant boxed-so-far: new != nil && fresh(new) && len(new) == len(old) && forall(i, 0, _i, new[i] == boxed(old[i]))
//@ twin (StreamForInterfaceDef).FromArrayString (StreamForInterfaceDef).FromArrayMaybe prop C04,C05
//@ twin (StreamForInterfaceDef).FromArrayString (StreamForInterfaceDef).FromArrayBool prop C04,C05
//@ twin (StreamForInterfaceDef).FromArrayString (StreamForInterfaceDef).FromArrayInt prop C04,C05
//@ twin (StreamForInterfaceDef).FromArrayString (StreamForInterfaceDef).FromArrayByte prop C04,C05
//@ twin (StreamForInterfaceDef).FromArrayString (StreamForInterfaceDef).FromArrayInt8 prop C04,C05
//@ twin (StreamForInterfaceDef).FromArrayString (StreamForInterfaceDef).FromArrayInt16 prop C04,C05
//@ twin (StreamForInterfaceDef).FromArrayString (StreamForInterfaceDef).FromArrayInt32 prop C04,C05
//@ twin (StreamForInterfaceDef).FromArrayString (StreamForInterfaceDef).FromArrayInt64 prop C04,C05
//@ twin (StreamForInterfaceDef).FromArrayString (StreamForInterfaceDef).FromArrayFloat32 prop C04,C05
//@ twin (StreamForInterfaceDef).FromArrayString (StreamForInterfaceDef).FromArrayFloat64 prop C04,C05

//@ func (StreamForInterfaceDef).From
//@   prop C04,C05
//@   ensures view: r0 != nil && fresh(r0) && *r0 == list

//@ func (StreamSetForInterfaceDef).Clone
//@   prop C04,C05
//@   requires streamSetSelf != nil && SSI_WF(streamSetSelf)
//@   ensures fresh-result: r0 != nil && fresh(r0) && SSI(r0) != nil && fresh(SSI(r0))
//@   ensures same-keys: forallv(x, has(SSI(r0), x) == has(SSI(streamSetSelf), x))
//@   ensures deep: forallv(x, has(SSI(r0), x) ==> (untyped(SSI(streamSetSelf)[x]) ==> untyped(SSI(r0)[x])) && (!untyped(SSI(streamSetSelf)[x]) ==> isptr(SSI(r0)[x], StreamForInterfaceDef) && STI(r0, x) != nil && fresh(STI(r0, x)) && fresh(*STI(r0, x)) && seqeq(*STI(r0, x), *STI(streamSetSelf, x))))
//@ func (StreamSetForInterfaceDef).Clone loop 0
//@   invariant result: result != nil && fresh(result) && SSI(result) != nil && fresh(SSI(result)) && SSI(result) == _m
//@   invariant same-keys: forallv(x, has(SSI(result), x) == has(SSI(streamSetSelf), x))
//@   invariant visited-deep: forallv(x, _visited(x) ==> (untyped(SSI(streamSetSelf)[x]) ==> untyped(SSI(result)[x])) && (!untyped(SSI(streamSetSelf)[x]) ==> isptr(SSI(result)[x], StreamForInterfaceDef) && STI(result, x) != nil && fresh(STI(result, x)) && fresh(*STI(result, x)) && seqeq(*STI(result, x), *STI(streamSetSelf, x))))
//@   invariant rest-shared: forallv(x, has(SSI(result), x) && !_visited(x) ==> SSI(result)[x] == SSI(streamSetSelf)[x])

//@ func (StreamSetForInterfaceDef).MinusStreams
//@   prop C04,C05
//@   requires streamSetSelf != nil && SSI_WF(streamSetSelf) && (input != nil ==> SSI_WF(input))
//@   ensures empty-operand: input == nil || len(SSI(input)) == 0 ==> r0 != nil && fresh(r0) && len(SSI(r0)) == 0
//@   ensures fresh-result: input != nil && len(SSI(input)) > 0 ==> r0 != nil && fresh(r0) && SSI(r0) != nil && fresh(SSI(r0))
//@   ensures keys-unchanged: input != nil && len(SSI(input)) > 0 ==> forallv(x, has(SSI(r0), x) == has(SSI(streamSetSelf), x))
//@   ensures untouched-keys-copied: input != nil && len(SSI(input)) > 0 ==> forallv(x, has(SSI(r0), x) && !SUBTRACTSI(x) ==> (untyped(SSI(streamSetSelf)[x]) ==> untyped(SSI(r0)[x])) && (!untyped(SSI(streamSetSelf)[x]) ==> isptr(SSI(r0)[x], StreamForInterfaceDef) && STI(r0, x) != nil && fresh(STI(r0, x)) && seqeq(*STI(r0, x), *STI(streamSetSelf, x))))
//@   ensures subtracted: input != nil && len(SSI(input)) > 0 ==> forallv(x, has(SSI(r0), x) && SUBTRACTSI(x) ==> isptr(SSI(r0)[x], StreamForInterfaceDef) && STI(r0, x) != nil && fresh(STI(r0, x)) && (untyped(SSI(streamSetSelf)[x]) ==> len(*STI(r0, x)) == 0) && (!untyped(SSI(streamSetSelf)[x]) ==> len(*STI(r0, x)) <= len(*STI(streamSetSelf, x)) && forall(j, 0, len(*STI(r0, x)), CONTAINS(*STI(streamSetSelf, x), (*STI(r0, x))[j]) && !CONTAINS(*STI(input, x), (*STI(r0, x))[j]))))
//@ func (StreamSetForInterfaceDef).MinusStreams loop 0
//@   invariant result: result != nil && fresh(result) && SSI(result) != nil && fresh(SSI(result)) && SSI(result) == _m
//@   invariant keys-unchanged: forallv(x, has(SSI(result), x) == has(SSI(streamSetSelf), x))
//@   invariant untouched-keys-copied: forallv(x, has(SSI(result), x) && (!SUBTRACTSI(x) || !_visited(x)) ==> (untyped(SSI(streamSetSelf)[x]) ==> untyped(SSI(result)[x])) && (!untyped(SSI(streamSetSelf)[x]) ==> isptr(SSI(result)[x], StreamForInterfaceDef) && STI(result, x) != nil && fresh(STI(result, x)) && fresh(*STI(result, x)) && seqeq(*STI(result, x), *STI(streamSetSelf, x))))
//@   invariant subtracted: forallv(x, has(SSI(result), x) && SUBTRACTSI(x) && _visited(x) ==> isptr(SSI(result)[x], StreamForInterfaceDef) && STI(result, x) != nil && fresh(STI(result, x)) && (untyped(SSI(streamSetSelf)[x]) ==> len(*STI(result, x)) == 0) && (!untyped(SSI(streamSetSelf)[x]) ==> len(*STI(result, x)) <= len(*STI(streamSetSelf, x)) && forall(j, 0, len(*STI(result, x)), CONTAINS(*STI(streamSetSelf, x), (*STI(result, x))[j]) && !CONTAINS(*STI(input, x), (*STI(result, x))[j]))))

// FilterNotNil: Filter with "is present" (C01's notion of absence) as the predicate
//@ func (StreamDef).FilterNotNil
//@   prop C04,C05
//@   ghost g (Array Int Int)
//@   ghost pos (Array Int Int)
//@   ghostset g = Filter_g
//@   ghostset pos = Filter_pos
//@   requires streamSelf != nil
//@   ensures owned: r0 != nil && fresh(r0) && fresh(*r0)
//@   ensures sub: forall(j, 0, len(*r0), 0 <= g[j] && g[j] < len(*streamSelf) && (*r0)[j] == (*streamSelf)[g[j]] && !absent((*streamSelf)[g[j]]))
//@   ensures mono: forall(j, 0, len(*r0), forall(l, 0, j, g[l] < g[j]))
//@   ensures all: forall(k, 0, len(*streamSelf), !absent((*streamSelf)[k]) ==> 0 <= pos[k] && pos[k] < len(*r0) && g[pos[k]] == k)
//@   ensures same: SV_SAME(streamSelf)
//@ twin (StreamDef).FilterNotNil (StreamForInterfaceDef).FilterNotNil prop C04,C05

// Extend: a fresh stream holding the receiver's items followed by the items of every non-nil argument, in argument order
// (off[k] = where argument k's items start); with no arguments the receiver itself.  Nothing that existed is written.
//@ func (StreamDef).Extend
//@   prop C04,C05
//@   ghost off (Array Int Int)
//@   ghostinit off = store(off, 0, len(*streamSelf))
//@   requires streamSelf != nil
//@   ensures nothing-to-add: len(streams) == 0 ==> r0 == streamSelf
//@   ensures owned: len(streams) > 0 ==> r0 != nil && fresh(r0) && fresh(*r0)
//@   ensures layout: len(streams) > 0 ==> off[0] == len(*streamSelf) && forall(k, 0, len(streams), off[k+1] == off[k] + ite(streams[k] == nil, 0, len(*streams[k]))) && len(*r0) == off[len(streams)]
//@   ensures own-items-first: len(streams) > 0 ==> forall(i, 0, len(*streamSelf), (*r0)[i] == (*streamSelf)[i])
//@   ensures then-each-argument: len(streams) > 0 ==> forall(k, 0, len(streams), streams[k] != nil ==> forall(j, 0, len(*streams[k]), (*r0)[off[k]+j] == (*streams[k])[j]))
//@   ensures same: SV_SAME(streamSelf)
//@ func (StreamDef).Extend loop 0
//@   ghostset off = store(off, _i+1, off[_i] + ite(streams[_i] == nil, 0, len(*streams[_i])))
//@   invariant total: totalLen == off[_i] && mineLen == len(*streamSelf) && mine == *streamSelf && off[0] == len(*streamSelf) && forall(k, 0, _i, off[k+1] == off[k] + ite(streams[k] == nil, 0, len(*streams[k])) && off[k] <= off[k+1]) && off[0] <= off[_i] && forall2(a, 0, _i+1, b, 0, _i+1, a <= b ==> off[a] <= off[b])
//@ func (StreamDef).Extend loop 1
//@   invariant mono: true && forall2(a, 0, len(streams)+1, b, 0, len(streams)+1, a <= b ==> off[a] <= off[b])
//@   invariant copied: fresh(newOne) && len(newOne) == totalLen && mine == *streamSelf && forall(i, 0, _i, newOne[i] == mine[i]) && totalLen == off[len(streams)] && off[0] == len(*streamSelf) && forall(k, 0, len(streams), off[k+1] == off[k] + ite(streams[k] == nil, 0, len(*streams[k])) && off[k] <= off[k+1])
//@ func (StreamDef).Extend loop 2
//@   invariant mono: true && forall2(a, 0, len(streams)+1, b, 0, len(streams)+1, a <= b ==> off[a] <= off[b])
//@   invariant placed: fresh(newOne) && len(newOne) == off[len(streams)] && mine == *streamSelf && totalIndex == off[_i] && off[0] == len(*streamSelf) && forall(k, 0, len(streams), off[k+1] == off[k] + ite(streams[k] == nil, 0, len(*streams[k])) && off[k] <= off[k+1]) && forall(i, 0, len(mine), newOne[i] == mine[i]) && forall(k, 0, _i, streams[k] != nil ==> forall(j, 0, len(*streams[k]), newOne[off[k]+j] == (*streams[k])[j]))
//@ func (StreamDef).Extend loop 3
//@   invariant mono: true && forall2(a, 0, len(streams)+1, b, 0, len(streams)+1, a <= b ==> off[a] <= off[b]) && _i2 < len(streams)
//@   invariant placing: fresh(newOne) && len(newOne) == off[len(streams)] && target == *stream && targetLen == len(target) && totalIndex == off[_i2] && stream == streams[_i2] && off[0] == len(*streamSelf) && forall(k, 0, len(streams), off[k+1] == off[k] + ite(streams[k] == nil, 0, len(*streams[k])) && off[k] <= off[k+1]) && forall(i, 0, len(mine), newOne[i] == mine[i]) && forall(k, 0, _i2, streams[k] != nil ==> forall(j, 0, len(*streams[k]), newOne[off[k]+j] == (*streams[k])[j])) && forall(j, 0, _i, newOne[totalIndex+j] == target[j]) && mine == *streamSelf
//@ twin (StreamDef).Extend (StreamForInterfaceDef).Extend prop C04,C05

// MapValue / MapKey / RemoveValues of the generic MapSetDef: fresh result, receiver unwritten (frame)
//@ func (MapSetDef).MapValue
//@   prop C04,C05
//@   requires mapSetSelf != nil
//@   ensures fresh-result: MS_FRESH(r0)
//@   ensures same-keys: forallv(x, has(MSR(r0), x) == has(*mapSetSelf, x))
//@   ensures mapped-values: forallv(x, has(*mapSetSelf, x) ==> MSR(r0)[x] == fn((*mapSetSelf)[x]))
//@ func (MapSetDef).MapValue loop 0
//@   invariant result: result != nil && fresh(result)
//@   invariant keys: forallv(x, has(result, x) == _visited(x))
//@   invariant values: forallv(x, _visited(x) ==> result[x] == fn((*mapSetSelf)[x]))

//@ func (MapSetDef).MapKey
//@   prop C04,C05
//@   requires mapSetSelf != nil
//@   ensures fresh-result: MS_FRESH(r0)
//@   ensures image-keys: forallv(y, has(MSR(r0), y) == existsv(x, has(*mapSetSelf, x) && fn(x) == y))
//@   ensures values-from-a-preimage: forallv(y, has(MSR(r0), y) ==> existsv(x, has(*mapSetSelf, x) && fn(x) == y && MSR(r0)[y] == (*mapSetSelf)[x]))
//@ func (MapSetDef).MapKey loop 0
//@   invariant result: result != nil && fresh(result)
//@   invariant image-keys: forallv(y, has(result, y) == existsv(x, _visited(x) && fn(x) == y))
//@   invariant values-from-a-preimage: forallv(y, has(result, y) ==> existsv(x, _visited(x) && fn(x) == y && result[y] == (*mapSetSelf)[x]))

//@ func (MapSetDef).RemoveValues
//@   prop C04,C05
//@   opt dispatch=force
//@   requires mapSetSelf != nil
//@   ensures nothing-to-remove: len(input) == 0 ==> r0 == boxed(mapSetSelf)
//@   ensures fresh-result: len(input) > 0 ==> MS_FRESH(r0)
//@   ensures keys: len(input) > 0 ==> forallv(x, has(MSR(r0), x) == (has(*mapSetSelf, x) && !exists(i, 0, len(input), input[i] == (*mapSetSelf)[x])))
//@   ensures values-kept: len(input) > 0 ==> forallv(x, has(MSR(r0), x) ==> MSR(r0)[x] == (*mapSetSelf)[x])
//@ func (MapSetDef).RemoveValues loop 0
//@   invariant result: MS_FRESH(result)
//@   invariant value-set: fresh(valueMap) && valueMap != MSR(result) && valueMap != *mapSetSelf && forallv(y, has(valueMap, y) == exists(i, 0, len(input), input[i] == y))
//@   invariant keys: forallv(x, has(MSR(result), x) == (has(*mapSetSelf, x) && !(_visited(x) && exists(i, 0, len(input), input[i] == (*mapSetSelf)[x]))))
//@   invariant values-kept: forallv(x, has(MSR(result), x) ==> MSR(result)[x] == (*mapSetSelf)[x])

//@ func (SetForInterfaceDef).MapValue
//@   prop C04,C05
//@   requires setSelf != nil
//@   ensures fresh-result: r0 != nil && fresh(r0) && *r0 != nil && fresh(*r0)
//@   ensures same-keys: forallv(x, has(*r0, x) == has(*setSelf, x))
//@   ensures mapped-values: forallv(x, has(*setSelf, x) ==> (*r0)[x] == fn((*setSelf)[x]))
//@ func (SetForInterfaceDef).MapValue loop 0
//@   invariant result: result != nil && fresh(result)
//@   invariant keys: forallv(x, has(result, x) == _visited(x))
//@   invariant values: forallv(x, _visited(x) ==> result[x] == fn((*setSelf)[x]))

//@ func (SetForInterfaceDef).MapKey
//@   prop C04,C05
//@   requires setSelf != nil
//@   ensures fresh-result: r0 != nil && fresh(r0) && *r0 != nil && fresh(*r0)
//@   ensures image-keys: forallv(y, has(*r0, y) == existsv(x, has(*setSelf, x) && fn(x) == y))
//@   ensures values-from-a-preimage: forallv(y, has(*r0, y) ==> existsv(x, has(*setSelf, x) && fn(x) == y && (*r0)[y] == (*setSelf)[x]))
//@ func (SetForInterfaceDef).MapKey loop 0
//@   invariant result: result != nil && fresh(result)
//@   invariant image-keys: forallv(y, has(result, y) == existsv(x, _visited(x) && fn(x) == y))
//@   invariant values-from-a-preimage: forallv(y, has(result, y) ==> existsv(x, _visited(x) && fn(x) == y && result[y] == (*setSelf)[x]))

//@ func (SetForInterfaceDef).RemoveValues
//@   prop C04,C05
//@   requires setSelf != nil
//@   ensures nothing-to-remove: len(input) == 0 ==> r0 == setSelf
//@   ensures fresh-result: len(input) > 0 ==> r0 != nil && fresh(r0) && *r0 != nil && fresh(*r0)
//@   ensures keys: len(input) > 0 ==> forallv(x, has(*r0, x) == (has(*setSelf, x) && !exists(i, 0, len(input), input[i] == (*setSelf)[x])))
//@   ensures values-kept: len(input) > 0 ==> forallv(x, has(*r0, x) ==> (*r0)[x] == (*setSelf)[x])
//@ func (SetForInterfaceDef).RemoveValues loop 0
//@   invariant result: result != nil && fresh(result) && *result != nil && fresh(*result)
//@   invariant value-set: fresh(valueMap) && valueMap != *result && valueMap != *setSelf && forallv(y, has(valueMap, y) == exists(i, 0, len(input), input[i] == y))
//@   invariant keys: forallv(x, has(*result, x) == (has(*setSelf, x) && !(_visited(x) && exists(i, 0, len(input), input[i] == (*setSelf)[x]))))
//@   invariant values-kept: forallv(x, has(*result, x) ==> (*result)[x] == (*setSelf)[x])

// StreamSetDef.Union (non-empty operand): the keys of both; under a key of the receiver that the operand maps to a non-empty
// stream, the receiver's stream extended by the operand's (a fresh stream: own items, then the operand's); under every other key
// the stream object of the receiver, or - for keys only the operand has - of the operand (shared, not copied: Merge copies the
// map, not the streams).  Nothing that existed is written.
//@ func (StreamSetDef).Union
//@   prop C04,C05
//@   requires streamSetSelf != nil
//@   ensures nothing-to-add: input == nil || len(SS(input)) == 0 ==> r0 == streamSetSelf
//@   ensures fresh-result: input != nil && len(SS(input)) > 0 ==> r0 != nil && fresh(r0) && SS(r0) != nil && fresh(SS(r0))
//@   ensures keys-of-both: input != nil && len(SS(input)) > 0 ==> forallv(x, has(SS(r0), x) == (has(SS(streamSetSelf), x) || has(SS(input), x)))
//@   ensures extended: input != nil && len(SS(input)) > 0 ==> forallv(x, has(SS(streamSetSelf), x) && SUBTRACTS(x) ==> SS(r0)[x] != nil && fresh(SS(r0)[x]) && len(*SS(r0)[x]) == ite(SS(streamSetSelf)[x] == nil, 0, len(*SS(streamSetSelf)[x])) + len(*SS(input)[x]) && forall(j, 0, len(*SS(input)[x]), (*SS(r0)[x])[ite(SS(streamSetSelf)[x] == nil, 0, len(*SS(streamSetSelf)[x])) + j] == (*SS(input)[x])[j]) && (SS(streamSetSelf)[x] != nil ==> forall(j, 0, len(*SS(streamSetSelf)[x]), (*SS(r0)[x])[j] == (*SS(streamSetSelf)[x])[j])))
//@   ensures others-shared: input != nil && len(SS(input)) > 0 ==> forallv(x, has(SS(r0), x) && !(has(SS(streamSetSelf), x) && SUBTRACTS(x)) ==> SS(r0)[x] == ite(has(SS(input), x), SS(input)[x], SS(streamSetSelf)[x]))
//@ func (StreamSetDef).Union loop 0
//@   invariant result: result != nil && fresh(result) && SS(result) != nil && fresh(SS(result)) && SS(streamSetSelf) == _m
//@   invariant keys-of-both: forallv(x, has(SS(result), x) == (has(SS(streamSetSelf), x) || has(SS(input), x)))
//@   invariant extended: forallv(x, _visited(x) && SUBTRACTS(x) ==> SS(result)[x] != nil && fresh(SS(result)[x]) && len(*SS(result)[x]) == ite(SS(streamSetSelf)[x] == nil, 0, len(*SS(streamSetSelf)[x])) + len(*SS(input)[x]) && forall(j, 0, len(*SS(input)[x]), (*SS(result)[x])[ite(SS(streamSetSelf)[x] == nil, 0, len(*SS(streamSetSelf)[x])) + j] == (*SS(input)[x])[j]) && (SS(streamSetSelf)[x] != nil ==> forall(j, 0, len(*SS(streamSetSelf)[x]), (*SS(result)[x])[j] == (*SS(streamSetSelf)[x])[j])))
//@   invariant others-shared: forallv(x, has(SS(result), x) && !(_visited(x) && SUBTRACTS(x)) ==> SS(result)[x] == ite(has(SS(input), x), SS(input)[x], SS(streamSetSelf)[x]))

// Intersection by key (empty or nil operand: an empty set)
//@ func (MapSetDef).Intersection
//@   prop C04,C05
//@   opt dispatch=force
//@   requires mapSetSelf != nil && (untyped(input) || isptr(input, MapSetDef) && asptr(input, MapSetDef) != nil)
//@   ensures empty-operand: untyped(input) || len(MSR(input)) == 0 ==> isptr(r0, MapSetDef) && asptr(r0, MapSetDef) != nil && fresh(asptr(r0, MapSetDef)) && forallv(x, !has(MSR(r0), x))
//@   ensures fresh-result: !untyped(input) && len(MSR(input)) > 0 ==> MS_FRESH(r0)
//@   ensures keys-of-both: !untyped(input) && len(MSR(input)) > 0 ==> forallv(x, has(MSR(r0), x) == (has(*mapSetSelf, x) && has(MSR(input), x)))
//@   ensures own-values: !untyped(input) && len(MSR(input)) > 0 ==> forallv(x, has(MSR(r0), x) ==> MSR(r0)[x] == (*mapSetSelf)[x])
//@ func (SetForInterfaceDef).Intersection
//@   prop C04,C05
//@   requires setSelf != nil
//@   ensures empty-operand: input == nil || len(*input) == 0 ==> r0 != nil && fresh(r0) && forallv(x, !has(*r0, x))
//@   ensures fresh-result: input != nil && len(*input) > 0 ==> r0 != nil && fresh(r0) && *r0 != nil && fresh(*r0)
//@   ensures keys-of-both: input != nil && len(*input) > 0 ==> forallv(x, has(*r0, x) == (has(*setSelf, x) && has(*input, x)))
//@   ensures own-values: input != nil && len(*input) > 0 ==> forallv(x, has(*r0, x) ==> (*r0)[x] == (*setSelf)[x])

// StreamSetDef.Intersection (non-empty operand): the keys of both; under a key the operand maps to a non-empty stream, a fresh
// stream whose items all occur in the receiver's stream and in the operand's (nil counts as empty); under the other common keys
// the receiver's stream object (shared).  Nothing that existed is written.
//@ define SS_ORDERED(res, x) = forall(j, 0, len(*SS(res)[x]), 0 <= gk[x][j] && gk[x][j] < len(*SS(streamSetSelf)[x]) && (*SS(res)[x])[j] == (*SS(streamSetSelf)[x])[gk[x][j]]) && forall(j, 0, len(*SS(res)[x]), forall(l, 0, j, gk[x][l] < gk[x][j]))
//@ func (StreamSetDef).Intersection
//@   prop C04,C05
//@   ghost gk (Array Val (Array Int Int))
//@   requires streamSetSelf != nil
//@   ensures order-follows-the-receiver: input != nil && len(SS(input)) > 0 ==> forallv(x, has(SS(r0), x) && SUBTRACTS(x) && SS(streamSetSelf)[x] != nil ==> SS_ORDERED(r0, x))
//@   ensures empty-operand: input == nil || len(SS(input)) == 0 ==> r0 != nil && fresh(r0) && len(SS(r0)) == 0
//@   ensures fresh-result: input != nil && len(SS(input)) > 0 ==> r0 != nil && fresh(r0) && SS(r0) != nil && fresh(SS(r0))
//@   ensures keys-of-both: input != nil && len(SS(input)) > 0 ==> forallv(x, has(SS(r0), x) == (has(SS(streamSetSelf), x) && has(SS(input), x)))
//@   ensures intersected: input != nil && len(SS(input)) > 0 ==> forallv(x, has(SS(r0), x) && SUBTRACTS(x) ==> SS(r0)[x] != nil && fresh(SS(r0)[x]) && (SS(streamSetSelf)[x] == nil ==> len(*SS(r0)[x]) == 0) && (SS(streamSetSelf)[x] != nil ==> forall(j, 0, len(*SS(r0)[x]), CONTAINS(*SS(streamSetSelf)[x], (*SS(r0)[x])[j]) && CONTAINS(*SS(input)[x], (*SS(r0)[x])[j]))))
//@   ensures others-shared: input != nil && len(SS(input)) > 0 ==> forallv(x, has(SS(r0), x) && !SUBTRACTS(x) ==> SS(r0)[x] == SS(streamSetSelf)[x])
//@ func (StreamSetDef).Intersection loop 0
//@   ghostset gk = store(gk, k, Intersection_g)
//@   invariant order-follows-the-receiver: forallv(x, has(SS(result), x) && _visited(x) && SUBTRACTS(x) && SS(streamSetSelf)[x] != nil ==> SS_ORDERED(result, x))
//@   invariant result: result != nil && fresh(result) && SS(result) != nil && fresh(SS(result)) && SS(result) == _m
//@   invariant keys-of-both: forallv(x, has(SS(result), x) == (has(SS(streamSetSelf), x) && has(SS(input), x)))
//@   invariant intersected: forallv(x, has(SS(result), x) && _visited(x) && SUBTRACTS(x) ==> SS(result)[x] != nil && fresh(SS(result)[x]) && (SS(streamSetSelf)[x] == nil ==> len(*SS(result)[x]) == 0) && (SS(streamSetSelf)[x] != nil ==> forall(j, 0, len(*SS(result)[x]), CONTAINS(*SS(streamSetSelf)[x], (*SS(result)[x])[j]) && CONTAINS(*SS(input)[x], (*SS(result)[x])[j]))))
//@   invariant others-shared: forallv(x, has(SS(result), x) && !(_visited(x) && SUBTRACTS(x)) ==> SS(result)[x] == SS(streamSetSelf)[x])

// one-line delegations of the set families
//@ func (MapSetDef).ContainsValue
//@   prop C04,C05
//@   requires mapSetSelf != nil
//@   ensures def: r0 == existsv(x, has(*mapSetSelf, x) && (*mapSetSelf)[x] == input)
//@ func (MapSetDef).ContainsValue loop 0
//@   invariant not-yet: forallv(x, _visited(x) ==> (*mapSetSelf)[x] != input)
//@ func (SetForInterfaceDef).ContainsValue
//@   prop C04,C05
//@   requires setSelf != nil
//@   ensures def: r0 == existsv(x, has(*setSelf, x) && (*setSelf)[x] == input)
//@ func (SetForInterfaceDef).ContainsValue loop 0
//@   invariant not-yet: forallv(x, _visited(x) ==> (*setSelf)[x] != input)

//@ func (MapSetDef).Keys
//@   prop C04,C05
//@   requires mapSetSelf != nil
//@   ensures keys: len(r0) == len(*mapSetSelf) && fresh(r0) && forall(i, 0, len(r0), has(*mapSetSelf, r0[i])) && forall(i, 0, len(r0), forall(j, 0, i, r0[j] != r0[i])) && forallv(x, has(*mapSetSelf, x) ==> exists(i, 0, len(r0), r0[i] == x))
//@ func (SetForInterfaceDef).Keys
//@   prop C04,C05
//@   requires setSelf != nil
//@   ensures keys: len(r0) == len(*setSelf) && fresh(r0) && forall(i, 0, len(r0), has(*setSelf, r0[i])) && forall(i, 0, len(r0), forall(j, 0, i, r0[j] != r0[i])) && forallv(x, has(*setSelf, x) ==> exists(i, 0, len(r0), r0[i] == x))
//@ func (MapSetDef).Values
//@   prop C04,C05
//@   requires mapSetSelf != nil
//@   ensures values: len(r0) == len(*mapSetSelf) && fresh(r0) && forallv(x, has(*mapSetSelf, x) ==> exists(i, 0, len(r0), r0[i] == (*mapSetSelf)[x]))
//@ func (SetForInterfaceDef).Values
//@   prop C04,C05
//@   requires setSelf != nil
//@   ensures values: len(r0) == len(*setSelf) && fresh(r0) && forallv(x, has(*setSelf, x) ==> exists(i, 0, len(r0), r0[i] == (*setSelf)[x]))

//@ func (MapSetDef).IsSubsetByKey
//@   prop C05
//@   opt dispatch=force
//@   requires mapSetSelf != nil && isptr(input, MapSetDef) && asptr(input, MapSetDef) != nil
//@   ensures empty: len(*mapSetSelf) == 0 || len(MSR(input)) == 0 ==> r0 == false
//@   ensures def: len(*mapSetSelf) > 0 && len(MSR(input)) > 0 ==> r0 == forallv(x, has(*mapSetSelf, x) ==> has(MSR(input), x))
//@ func (MapSetDef).IsSupersetByKey
//@   prop C05
//@   opt dispatch=force
//@   requires mapSetSelf != nil && isptr(input, MapSetDef) && asptr(input, MapSetDef) != nil
//@   ensures empty: len(*mapSetSelf) == 0 || len(MSR(input)) == 0 ==> r0 == false
//@   ensures def: len(*mapSetSelf) > 0 && len(MSR(input)) > 0 ==> r0 == forallv(x, has(MSR(input), x) ==> has(*mapSetSelf, x))
//@ func (SetForInterfaceDef).IsSubsetByKey
//@   prop C05
//@   requires setSelf != nil && input != nil
//@   ensures empty: len(*setSelf) == 0 || len(*input) == 0 ==> r0 == false
//@   ensures def: len(*setSelf) > 0 && len(*input) > 0 ==> r0 == forallv(x, has(*setSelf, x) ==> has(*input, x))
//@ func (SetForInterfaceDef).IsSupersetByKey
//@   prop C05
//@   requires setSelf != nil && input != nil
//@   ensures empty: len(*setSelf) == 0 || len(*input) == 0 ==> r0 == false
//@   ensures def: len(*setSelf) > 0 && len(*input) > 0 ==> r0 == forallv(x, has(*input, x) ==> has(*setSelf, x))

// StreamSetForInterfaceDef: the "duplicated zone" delegations; an empty or nil operand gives false / the receiver, exactly like
// the base set and the generic twin
//@ func (StreamSetForInterfaceDef).IsSubsetByKey
//@   prop C05
//@   requires streamSetSelf != nil
//@   ensures empty-operand: input == nil || len(SSI(input)) == 0 || len(SSI(streamSetSelf)) == 0 ==> r0 == false
//@   ensures def: input != nil && len(SSI(input)) > 0 && len(SSI(streamSetSelf)) > 0 ==> r0 == forallv(x, has(SSI(streamSetSelf), x) ==> has(SSI(input), x))
//@ func (StreamSetForInterfaceDef).IsSupersetByKey
//@   prop C05
//@   requires streamSetSelf != nil
//@   ensures empty-operand: input == nil || len(SSI(input)) == 0 || len(SSI(streamSetSelf)) == 0 ==> r0 == false
//@   ensures def: input != nil && len(SSI(input)) > 0 && len(SSI(streamSetSelf)) > 0 ==> r0 == forallv(x, has(SSI(input), x) ==> has(SSI(streamSetSelf), x))
//@ func (StreamSetForInterfaceDef).Minus
//@   prop C04,C05
//@   requires streamSetSelf != nil
//@   ensures nothing-to-remove: input == nil || len(SSI(input)) == 0 ==> r0 == streamSetSelf
//@   ensures fresh-result: input != nil && len(SSI(input)) > 0 ==> r0 != nil && fresh(r0) && SSI(r0) != nil && fresh(SSI(r0))
//@   ensures keys: input != nil && len(SSI(input)) > 0 ==> forallv(x, has(SSI(r0), x) == (has(SSI(streamSetSelf), x) && !has(SSI(input), x)))
//@   ensures values-kept: input != nil && len(SSI(input)) > 0 ==> forallv(x, has(SSI(r0), x) ==> SSI(r0)[x] == SSI(streamSetSelf)[x])

// StreamSetForInterfaceDef.Union / Intersection: the interface{} twins of StreamSetDef.Union / Intersection (same characterisations)
//@ func (StreamSetForInterfaceDef).Union
//@   prop C04,C05
//@   requires streamSetSelf != nil && SSI_WF(streamSetSelf) && (input != nil ==> SSI_WF(input))
//@   ensures nothing-to-add: input == nil || len(SSI(input)) == 0 ==> r0 == streamSetSelf
//@   ensures fresh-result: input != nil && len(SSI(input)) > 0 ==> r0 != nil && fresh(r0) && SSI(r0) != nil && fresh(SSI(r0))
//@   ensures keys-of-both: input != nil && len(SSI(input)) > 0 ==> forallv(x, has(SSI(r0), x) == (has(SSI(streamSetSelf), x) || has(SSI(input), x)))
//@   ensures extended: input != nil && len(SSI(input)) > 0 ==> forallv(x, has(SSI(streamSetSelf), x) && SUBTRACTSI(x) ==> isptr(SSI(r0)[x], StreamForInterfaceDef) && STI(r0, x) != nil && fresh(STI(r0, x)) && len(*STI(r0, x)) == ite(untyped(SSI(streamSetSelf)[x]), 0, len(*STI(streamSetSelf, x))) + len(*STI(input, x)) && forall(j, 0, len(*STI(input, x)), (*STI(r0, x))[ite(untyped(SSI(streamSetSelf)[x]), 0, len(*STI(streamSetSelf, x))) + j] == (*STI(input, x))[j]) && (!untyped(SSI(streamSetSelf)[x]) ==> forall(j, 0, len(*STI(streamSetSelf, x)), (*STI(r0, x))[j] == (*STI(streamSetSelf, x))[j])))
//@   ensures others-shared: input != nil && len(SSI(input)) > 0 ==> forallv(x, has(SSI(r0), x) && !(has(SSI(streamSetSelf), x) && SUBTRACTSI(x)) ==> SSI(r0)[x] == ite(has(SSI(input), x), SSI(input)[x], SSI(streamSetSelf)[x]))
//@ func (StreamSetForInterfaceDef).Union loop 0
//@   invariant result: result != nil && fresh(result) && SSI(result) != nil && fresh(SSI(result)) && SSI(streamSetSelf) == _m
//@   invariant keys-of-both: forallv(x, has(SSI(result), x) == (has(SSI(streamSetSelf), x) || has(SSI(input), x)))
//@   invariant extended: forallv(x, _visited(x) && SUBTRACTSI(x) ==> isptr(SSI(result)[x], StreamForInterfaceDef) && STI(result, x) != nil && fresh(STI(result, x)) && len(*STI(result, x)) == ite(untyped(SSI(streamSetSelf)[x]), 0, len(*STI(streamSetSelf, x))) + len(*STI(input, x)) && forall(j, 0, len(*STI(input, x)), (*STI(result, x))[ite(untyped(SSI(streamSetSelf)[x]), 0, len(*STI(streamSetSelf, x))) + j] == (*STI(input, x))[j]) && (!untyped(SSI(streamSetSelf)[x]) ==> forall(j, 0, len(*STI(streamSetSelf, x)), (*STI(result, x))[j] == (*STI(streamSetSelf, x))[j])))
//@   invariant others-shared: forallv(x, has(SSI(result), x) && !(_visited(x) && SUBTRACTSI(x)) ==> SSI(result)[x] == ite(has(SSI(input), x), SSI(input)[x], SSI(streamSetSelf)[x]))

//@ define SSI_ORDERED(res, x) = forall(j, 0, len(*STI(res, x)), 0 <= gk[x][j] && gk[x][j] < len(*STI(streamSetSelf, x)) && (*STI(res, x))[j] == (*STI(streamSetSelf, x))[gk[x][j]]) && forall(j, 0, len(*STI(res, x)), forall(l, 0, j, gk[x][l] < gk[x][j]))
//@ func (StreamSetForInterfaceDef).Intersection
//@   prop C04,C05
//@   ghost gk (Array Val (Array Int Int))
//@   ensures order-follows-the-receiver: input != nil && len(SSI(input)) > 0 ==> forallv(x, has(SSI(r0), x) && SUBTRACTSI(x) && !untyped(SSI(streamSetSelf)[x]) ==> SSI_ORDERED(r0, x))
//@   requires streamSetSelf != nil && SSI_WF(streamSetSelf) && (input != nil ==> SSI_WF(input))
//@   ensures empty-operand: input == nil || len(SSI(input)) == 0 ==> r0 != nil && fresh(r0) && len(SSI(r0)) == 0
//@   ensures fresh-result: input != nil && len(SSI(input)) > 0 ==> r0 != nil && fresh(r0) && SSI(r0) != nil && fresh(SSI(r0))
//@   ensures keys-of-both: input != nil && len(SSI(input)) > 0 ==> forallv(x, has(SSI(r0), x) == (has(SSI(streamSetSelf), x) && has(SSI(input), x)))
//@   ensures intersected: input != nil && len(SSI(input)) > 0 ==> forallv(x, has(SSI(r0), x) && SUBTRACTSI(x) ==> isptr(SSI(r0)[x], StreamForInterfaceDef) && STI(r0, x) != nil && fresh(STI(r0, x)) && (untyped(SSI(streamSetSelf)[x]) ==> len(*STI(r0, x)) == 0) && (!untyped(SSI(streamSetSelf)[x]) ==> forall(j, 0, len(*STI(r0, x)), CONTAINS(*STI(streamSetSelf, x), (*STI(r0, x))[j]) && CONTAINS(*STI(input, x), (*STI(r0, x))[j]))))
//@   ensures others-shared: input != nil && len(SSI(input)) > 0 ==> forallv(x, has(SSI(r0), x) && !SUBTRACTSI(x) ==> SSI(r0)[x] == SSI(streamSetSelf)[x])
//@ func (StreamSetForInterfaceDef).Intersection loop 0
//@   ghostset gk = store(gk, k, Intersection_g)
//@   invariant order-follows-the-receiver: forallv(x, has(SSI(result), x) && _visited(x) && SUBTRACTSI(x) && !untyped(SSI(streamSetSelf)[x]) ==> SSI_ORDERED(result, x))
//@   invariant result: result != nil && fresh(result) && SSI(result) != nil && fresh(SSI(result)) && SSI(result) == _m
//@   invariant keys-of-both: forallv(x, has(SSI(result), x) == (has(SSI(streamSetSelf), x) && has(SSI(input), x)))
//@   invariant intersected: forallv(x, has(SSI(result), x) && _visited(x) && SUBTRACTSI(x) ==> isptr(SSI(result)[x], StreamForInterfaceDef) && STI(result, x) != nil && fresh(STI(result, x)) && (untyped(SSI(streamSetSelf)[x]) ==> len(*STI(result, x)) == 0) && (!untyped(SSI(streamSetSelf)[x]) ==> forall(j, 0, len(*STI(result, x)), CONTAINS(*STI(streamSetSelf, x), (*STI(result, x))[j]) && CONTAINS(*STI(input, x), (*STI(result, x))[j]))))
//@   invariant others-shared: forallv(x, has(SSI(result), x) && !(_visited(x) && SUBTRACTSI(x)) ==> SSI(result)[x] == SSI(streamSetSelf)[x])
