//go:build verif

// Contracts for package fpgo, part 3: Maybe (C01).
package fpgo

// ===================================================================================================
// C01 - Maybe: one notion of absence.  absent(v) := v is the untyped nil, or v is a pointer and it is nil
// (reflect is axiomatised on the observers untyped / rkind / nilref / relem; every reflect call carries its panic
// precondition as an obligation).  wf(m) := m.isNil == absent(m.ref) && m.isPresent == !m.isNil.

//@ define MB_WF(m) = m.isNil == absent(m.ref) && m.isPresent == !m.isNil

//@ func IsNil
//@   prop C01
//@   ensures def: r0 == absent(obj)

//@ func IsPtr
//@   prop C01
//@   ensures def: r0 == (rkind(obj) == 22)

//@ func Kind
//@   prop C01
//@   ensures def: r0 == rkind(obj)

// every observer of a well-formed Maybe is a function of absent(ref) and ref
//@ func (someDef).IsNil
//@   prop C01
//@   pure
//@   requires MB_WF(maybeSelf)
//@   ensures def: r0 == absent(maybeSelf.ref)

//@ func (someDef).IsPresent
//@   prop C01
//@   pure
//@   requires MB_WF(maybeSelf)
//@   ensures def: r0 == !absent(maybeSelf.ref)

//@ func (someDef).Or
//@   prop C01
//@   requires MB_WF(maybeSelf)
//@   ensures absent: absent(maybeSelf.ref) ==> r0 == or
//@   ensures present: !absent(maybeSelf.ref) ==> r0 == maybeSelf.ref

//@ func (someDef).Unwrap
//@   prop C01
//@   ensures def: r0 == maybeSelf.ref

//@ func (someDef).UnwrapInterface
//@   prop C01
//@   requires MB_WF(maybeSelf)
//@   ensures absent: absent(maybeSelf.ref) ==> untyped(r0)
//@   ensures present: !absent(maybeSelf.ref) ==> r0 == maybeSelf.ref

//@ func (someDef).IsValid
//@   prop C01
//@   ensures def: r0 == !untyped(maybeSelf.ref)

//@ func (someDef).IsPtr
//@   prop C01
//@   ensures def: r0 == (rkind(maybeSelf.ref) == 22)

//@ func (someDef).Kind
//@   prop C01
//@   ensures def: r0 == rkind(maybeSelf.ref)

//@ func (someDef).Type
//@   prop C01
//@   requires MB_WF(maybeSelf)
//@   ensures absent: absent(maybeSelf.ref) ==> r0 == 0
//@   ensures present: !absent(maybeSelf.ref) ==> r0 == rtype(maybeSelf.ref) && r0 != 0

//@ func (someDef).IsKind
//@   prop C01
//@   ensures def: r0 == (rkind(maybeSelf.ref) == t)

//@ func (someDef).FlatMap
//@   prop C01
//@   ensures def: r0 == fn(maybeSelf.ref)

//@ func (someDef).ToString
//@   prop C01
//@   requires MB_WF(maybeSelf)
//@   ensures absent: absent(maybeSelf.ref) ==> r0 == "<nil>"
//@   ensures string: !absent(maybeSelf.ref) && convIsString(maybeSelf.ref) ==> r0 == strof(maybeSelf.ref)

// ToPtr never panics (the reflect preconditions inside it are the obligations)
//@ func (someDef).ToPtr
//@   prop C01
//@   requires MB_WF(maybeSelf)
//@   ensures not-a-live-pointer: !(rkind(maybeSelf.ref) == 22 && !absent(maybeSelf.ref)) ==> r0 != nil && fresh(r0) && *r0 == maybeSelf.ref

// the None value: every observer answers "absent"
//@ func (noneDef).Or
//@   prop C01
//@   ensures def: r0 == or
// None's embedded someDef is what the methods None INHERITS (the conversions that noneDef does not override) read: the
// declaration of None must establish the well-formedness invariant those methods assume (absent, flags set accordingly)
//@ func (noneDef).IsNil
//@   prop C01
//@   globalinit None: None.someDef.isNil && !None.someDef.isPresent && absent(None.someDef.ref)
//@   ensures def: r0 == true
//@ func (noneDef).IsPresent
//@   prop C01
//@   ensures def: r0 == false
//@ func (noneDef).Unwrap
//@   prop C01
//@   ensures def: untyped(r0)
//@ func (noneDef).UnwrapInterface
//@   prop C01
//@   ensures def: untyped(r0)
//@ func (noneDef).ToString
//@   prop C01
//@   ensures def: r0 == "<nil>"
//@ func (noneDef).ToPtr
//@   prop C01
//@   ensures def: r0 == nil
//@ func (noneDef).Type
//@   prop C01
//@   ensures def: r0 == 0
//@ func (noneDef).Kind
//@   prop C01
//@   ensures def: r0 == 0
//@ func (noneDef).IsPtr
//@   prop C01
//@   ensures def: r0 == false
//@ func (noneDef).ToFloat64
//@   prop C01
//@   ensures def: r1 == ErrConversionNil
//@ func (noneDef).ToFloat32
//@   prop C01
//@   ensures def: r1 == ErrConversionNil
//@ func (noneDef).ToInt
//@   prop C01
//@   ensures def: r0 == 0 && r1 == ErrConversionNil
//@ func (noneDef).ToInt32
//@   prop C01
//@   ensures def: r0 == 0 && r1 == ErrConversionNil
//@ func (noneDef).ToInt64
//@   prop C01
//@   ensures def: r0 == 0 && r1 == ErrConversionNil
//@ func (noneDef).ToBool
//@   prop C01
//@   ensures def: r0 == false && r1 == ErrConversionNil

// constructors establish wf; Just maps every absent value to None
//@ func JustGenerics
//@   prop C01
//@   ensures some: isa(r0, someDef) && as(r0, someDef).ref == in && MB_WF(as(r0, someDef))

//@ func (someDef).Just
//@   prop C01
//@   ensures absent: absent(in) ==> isa(r0, noneDef)
//@   ensures present: !absent(in) ==> isa(r0, someDef) && as(r0, someDef).ref == in && MB_WF(as(r0, someDef))

// ToMaybe flattens exactly one level: a wrapped value that is itself a Maybe is returned as it is, once
//@ func (someDef).ToMaybe
//@   prop C01
//@   requires MB_WF(maybeSelf)
//@   ensures absent: absent(maybeSelf.ref) ==> r0 == boxed(maybeSelf)
//@   ensures nested: !absent(maybeSelf.ref) && impl(maybeSelf.ref, MaybeDef) ==> r0 == maybeSelf.ref
//@   ensures plain: !absent(maybeSelf.ref) && !impl(maybeSelf.ref, MaybeDef) ==> r0 == boxed(maybeSelf)

// interface-level observers of a MaybeDef value m: munwrap(m) is what m wraps; every implementation answers IsNil by absent(munwrap)
// (someDef: proved above as (someDef).IsNil / (someDef).Unwrap; None: IsNil true, Unwrap nil)
//@ func (MaybeDef).IsNil
//@   prop C01
//@   opt interface=true
//@   pure
//@   ensures def: r0 == absent(ufv("munwrap", self))
//@ func (MaybeDef).Unwrap
//@   prop C01
//@   opt interface=true
//@   pure
//@   ensures def: r0 == ufv("munwrap", self)

// CloneTo: never panics when the destination is absent (Clone's case) or a non-nil pointer; the result is a well-formed Maybe
//@ func CloneTo
//@   prop C01
//@   requires dest-usable: !absent(ufv("munwrap", maybeSelf)) && rkind(ufv("munwrap", maybeSelf)) == 22 ==> absent(dest) || (rkind(dest) == 22 && !nilref(dest))
//@   ensures some: isa(r0, someDef) && MB_WF(as(r0, someDef))
//@   ensures absent: absent(ufv("munwrap", maybeSelf)) ==> as(r0, someDef).ref == ufv("munwrap", maybeSelf)

//@ func (someDef).Clone
//@   prop C01
//@   requires MB_WF(maybeSelf)
//@   assume dispatch: ufv("munwrap", boxed(maybeSelf)) == maybeSelf.ref
//@   assume zero-of-pointer-type-is-nil: rkind(maybeSelf.ref) == 22 ==> absent(zeroof(maybeSelf.ref))
//@   ensures some: isa(r0, someDef) && MB_WF(as(r0, someDef))
//@   ensures absent: absent(maybeSelf.ref) ==> as(r0, someDef).ref == maybeSelf.ref

//@ func (noneDef).Clone
//@   prop C01
//@   ensures def: isa(r0, noneDef)
//@ func (noneDef).CloneTo
//@   prop C01
//@   ensures def: isa(r0, noneDef)
//@ func (noneDef).ToMaybe
//@   prop C01
//@   ensures def: isa(r0, noneDef)

// Let: the callback runs exactly once when a value is present and not at all when it is absent (event trace)
//@ func (someDef).Let
//@   prop C01
//@   opt callbacks=effectful
//@   opt effects=trace
//@   requires MB_WF(maybeSelf) && fn != nil
//@   ensures absent-never: absent(maybeSelf.ref) ==> tr_len == old(tr_len)
//@   ensures present-once: !absent(maybeSelf.ref) ==> tr_len == old(tr_len)+1 && tr_kind[old(tr_len)] == 1 && tr_fn[old(tr_len)] == fn
//@ func (noneDef).Let
//@   prop C01
//@   opt callbacks=effectful
//@   opt effects=trace
//@   ensures never: tr_len == old(tr_len)
//@ func (someDef).IsType
//@   prop C01
//@   requires MB_WF(maybeSelf)
//@   ensures def: r0 == (ite(absent(maybeSelf.ref), 0, rtype(maybeSelf.ref)) == t)
