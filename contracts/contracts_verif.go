//go:build verif

// Contracts for package fpgo (comment-only file; compiled only under the build tag "verif", and then it is empty).
// Read by /verif/bin/govc; see /verif/DESIGN.md section 3 for the clause language.
package fpgo

// ===================================================================================================
// C02 - numeric conversions of Maybe are value-preserving or fail (bit-vector / IEEE-754 semantics)
//
// self.ref is the wrapped value; the clauses are checked once per source kind ("from=<kind>").
//   N  absent                      => (zero, ErrConversionNil)
//   S  supported and nil error     => the result is the mathematically same number (never wrapped/truncated)
//   F  value fits the target type  => nil error          (int/uint: portable 32-bit range)
//   O  value outside the target    => non-nil error
//   U  unsupported kind            => ErrConversionUnsupported

//@ func (someDef).ToInt
//@   prop C01,C02
//@   arith bv
//@   opt split=convkinds
//@   opt split-only.C01=unsupported
//@   requires wf: self.isNil == absent(self.ref) && self.isPresent == !self.isNil
//@   ensures N: self.isNil ==> r0 == 0 && r1 == ErrConversionNil
//@   ensures S: !self.isNil && convSupported(self.ref) && r1 == nil ==> convExact(r0, self.ref)
//@   ensures F: !self.isNil && convFits(self.ref, r0) ==> r1 == nil
//@   ensures O: !self.isNil && convOutside(self.ref, r0) ==> r1 != nil
//@   ensures U: !self.isNil && !convSupported(self.ref) ==> r1 == ErrConversionUnsupported
//@   ensures I: !self.isNil && convSameType(self.ref, r0) ==> r1 == nil

//@ func (someDef).ToInt8
//@   prop C01,C02
//@   arith bv
//@   opt split=convkinds
//@   opt split-only.C01=unsupported
//@   requires wf: self.isNil == absent(self.ref) && self.isPresent == !self.isNil
//@   ensures N: self.isNil ==> r0 == 0 && r1 == ErrConversionNil
//@   ensures S: !self.isNil && convSupported(self.ref) && r1 == nil ==> convExact(r0, self.ref)
//@   ensures F: !self.isNil && convFits(self.ref, r0) ==> r1 == nil
//@   ensures O: !self.isNil && convOutside(self.ref, r0) ==> r1 != nil
//@   ensures U: !self.isNil && !convSupported(self.ref) ==> r1 == ErrConversionUnsupported
//@   ensures I: !self.isNil && convSameType(self.ref, r0) ==> r1 == nil

//@ func (someDef).ToInt16
//@   prop C01,C02
//@   arith bv
//@   opt split=convkinds
//@   opt split-only.C01=unsupported
//@   requires wf: self.isNil == absent(self.ref) && self.isPresent == !self.isNil
//@   ensures N: self.isNil ==> r0 == 0 && r1 == ErrConversionNil
//@   ensures S: !self.isNil && convSupported(self.ref) && r1 == nil ==> convExact(r0, self.ref)
//@   ensures F: !self.isNil && convFits(self.ref, r0) ==> r1 == nil
//@   ensures O: !self.isNil && convOutside(self.ref, r0) ==> r1 != nil
//@   ensures U: !self.isNil && !convSupported(self.ref) ==> r1 == ErrConversionUnsupported
//@   ensures I: !self.isNil && convSameType(self.ref, r0) ==> r1 == nil

//@ func (someDef).ToInt32
//@   prop C01,C02
//@   arith bv
//@   opt split=convkinds
//@   opt split-only.C01=unsupported
//@   requires wf: self.isNil == absent(self.ref) && self.isPresent == !self.isNil
//@   ensures N: self.isNil ==> r0 == 0 && r1 == ErrConversionNil
//@   ensures S: !self.isNil && convSupported(self.ref) && r1 == nil ==> convExact(r0, self.ref)
//@   ensures F: !self.isNil && convFits(self.ref, r0) ==> r1 == nil
//@   ensures O: !self.isNil && convOutside(self.ref, r0) ==> r1 != nil
//@   ensures U: !self.isNil && !convSupported(self.ref) ==> r1 == ErrConversionUnsupported
//@   ensures I: !self.isNil && convSameType(self.ref, r0) ==> r1 == nil

//@ func (someDef).ToInt64
//@   prop C01,C02
//@   arith bv
//@   opt split=convkinds
//@   opt split-only.C01=unsupported
//@   requires wf: self.isNil == absent(self.ref) && self.isPresent == !self.isNil
//@   ensures N: self.isNil ==> r0 == 0 && r1 == ErrConversionNil
//@   ensures S: !self.isNil && convSupported(self.ref) && r1 == nil ==> convExact(r0, self.ref)
//@   ensures F: !self.isNil && convFits(self.ref, r0) ==> r1 == nil
//@   ensures O: !self.isNil && convOutside(self.ref, r0) ==> r1 != nil
//@   ensures U: !self.isNil && !convSupported(self.ref) ==> r1 == ErrConversionUnsupported
//@   ensures I: !self.isNil && convSameType(self.ref, r0) ==> r1 == nil

//@ func (someDef).ToByte
//@   prop C01,C02
//@   arith bv
//@   opt split=convkinds
//@   opt split-only.C01=unsupported
//@   requires wf: self.isNil == absent(self.ref) && self.isPresent == !self.isNil
//@   ensures N: self.isNil ==> r0 == 0 && r1 == ErrConversionNil
//@   ensures S: !self.isNil && convSupported(self.ref) && r1 == nil ==> convExact(r0, self.ref)
//@   ensures F: !self.isNil && convFits(self.ref, r0) ==> r1 == nil
//@   ensures O: !self.isNil && convOutside(self.ref, r0) ==> r1 != nil
//@   ensures U: !self.isNil && !convSupported(self.ref) ==> r1 == ErrConversionUnsupported
//@   ensures I: !self.isNil && convSameType(self.ref, r0) ==> r1 == nil

//@ func (someDef).ToUint8
//@   prop C01,C02
//@   arith bv
//@   opt split=convkinds
//@   opt split-only.C01=unsupported
//@   requires wf: self.isNil == absent(self.ref) && self.isPresent == !self.isNil
//@   ensures N: self.isNil ==> r0 == 0 && r1 == ErrConversionNil
//@   ensures S: !self.isNil && convSupported(self.ref) && r1 == nil ==> convExact(r0, self.ref)
//@   ensures F: !self.isNil && convFits(self.ref, r0) ==> r1 == nil
//@   ensures O: !self.isNil && convOutside(self.ref, r0) ==> r1 != nil
//@   ensures U: !self.isNil && !convSupported(self.ref) ==> r1 == ErrConversionUnsupported
//@   ensures I: !self.isNil && convSameType(self.ref, r0) ==> r1 == nil

//@ func (someDef).ToUint
//@   prop C01,C02
//@   arith bv
//@   opt split=convkinds
//@   opt split-only.C01=unsupported
//@   requires wf: self.isNil == absent(self.ref) && self.isPresent == !self.isNil
//@   ensures N: self.isNil ==> r0 == 0 && r1 == ErrConversionNil
//@   ensures S: !self.isNil && convSupported(self.ref) && r1 == nil ==> convExact(r0, self.ref)
//@   ensures F: !self.isNil && convFits(self.ref, r0) ==> r1 == nil
//@   ensures O: !self.isNil && convOutside(self.ref, r0) ==> r1 != nil
//@   ensures U: !self.isNil && !convSupported(self.ref) ==> r1 == ErrConversionUnsupported
//@   ensures I: !self.isNil && convSameType(self.ref, r0) ==> r1 == nil

//@ func (someDef).ToUint16
//@   prop C01,C02
//@   arith bv
//@   opt split=convkinds
//@   opt split-only.C01=unsupported
//@   requires wf: self.isNil == absent(self.ref) && self.isPresent == !self.isNil
//@   ensures N: self.isNil ==> r0 == 0 && r1 == ErrConversionNil
//@   ensures S: !self.isNil && convSupported(self.ref) && r1 == nil ==> convExact(r0, self.ref)
//@   ensures F: !self.isNil && convFits(self.ref, r0) ==> r1 == nil
//@   ensures O: !self.isNil && convOutside(self.ref, r0) ==> r1 != nil
//@   ensures U: !self.isNil && !convSupported(self.ref) ==> r1 == ErrConversionUnsupported
//@   ensures I: !self.isNil && convSameType(self.ref, r0) ==> r1 == nil

//@ func (someDef).ToUint32
//@   prop C01,C02
//@   arith bv
//@   opt split=convkinds
//@   opt split-only.C01=unsupported
//@   requires wf: self.isNil == absent(self.ref) && self.isPresent == !self.isNil
//@   ensures N: self.isNil ==> r0 == 0 && r1 == ErrConversionNil
//@   ensures S: !self.isNil && convSupported(self.ref) && r1 == nil ==> convExact(r0, self.ref)
//@   ensures F: !self.isNil && convFits(self.ref, r0) ==> r1 == nil
//@   ensures O: !self.isNil && convOutside(self.ref, r0) ==> r1 != nil
//@   ensures U: !self.isNil && !convSupported(self.ref) ==> r1 == ErrConversionUnsupported
//@   ensures I: !self.isNil && convSameType(self.ref, r0) ==> r1 == nil

//@ func (someDef).ToUint64
//@   prop C01,C02
//@   arith bv
//@   opt split=convkinds
//@   opt split-only.C01=unsupported
//@   requires wf: self.isNil == absent(self.ref) && self.isPresent == !self.isNil
//@   ensures N: self.isNil ==> r0 == 0 && r1 == ErrConversionNil
//@   ensures S: !self.isNil && convSupported(self.ref) && r1 == nil ==> convExact(r0, self.ref)
//@   ensures F: !self.isNil && convFits(self.ref, r0) ==> r1 == nil
//@   ensures O: !self.isNil && convOutside(self.ref, r0) ==> r1 != nil
//@   ensures U: !self.isNil && !convSupported(self.ref) ==> r1 == ErrConversionUnsupported
//@   ensures I: !self.isNil && convSameType(self.ref, r0) ==> r1 == nil

//@ func (someDef).ToUintptr
//@   prop C01,C02
//@   arith bv
//@   opt split=convkinds
//@   opt split-only.C01=unsupported
//@   requires wf: self.isNil == absent(self.ref) && self.isPresent == !self.isNil
//@   ensures N: self.isNil ==> r0 == 0 && r1 == ErrConversionNil
//@   ensures S: !self.isNil && convSupported(self.ref) && r1 == nil ==> convExact(r0, self.ref)
//@   ensures F: !self.isNil && convFits(self.ref, r0) ==> r1 == nil
//@   ensures O: !self.isNil && convOutside(self.ref, r0) ==> r1 != nil
//@   ensures U: !self.isNil && !convSupported(self.ref) ==> r1 == ErrConversionUnsupported
//@   ensures I: !self.isNil && convSameType(self.ref, r0) ==> r1 == nil

//@ func (someDef).ToFloat32
//@   prop C01,C02
//@   arith bv
//@   opt split=convkinds
//@   opt split-only.C01=unsupported
//@   requires wf: self.isNil == absent(self.ref) && self.isPresent == !self.isNil
//@   ensures N: self.isNil ==> r0 == 0 && r1 == ErrConversionNil
//@   ensures S: !self.isNil && convSupported(self.ref) && r1 == nil ==> convExact(r0, self.ref)
//@   ensures F: !self.isNil && convFits(self.ref, r0) ==> r1 == nil
//@   ensures O: !self.isNil && convOutside(self.ref, r0) ==> r1 != nil
//@   ensures U: !self.isNil && !convSupported(self.ref) ==> r1 == ErrConversionUnsupported
//@   ensures I: !self.isNil && convSameType(self.ref, r0) ==> r1 == nil

//@ func (someDef).ToFloat64
//@   prop C01,C02
//@   arith bv
//@   opt split=convkinds
//@   opt split-only.C01=unsupported
//@   requires wf: self.isNil == absent(self.ref) && self.isPresent == !self.isNil
//@   ensures N: self.isNil ==> r0 == 0 && r1 == ErrConversionNil
//@   ensures S: !self.isNil && convSupported(self.ref) && r1 == nil ==> convExact(r0, self.ref)
//@   ensures F: !self.isNil && convFits(self.ref, r0) ==> r1 == nil
//@   ensures O: !self.isNil && convOutside(self.ref, r0) ==> r1 != nil
//@   ensures U: !self.isNil && !convSupported(self.ref) ==> r1 == ErrConversionUnsupported
//@   ensures I: !self.isNil && convSameType(self.ref, r0) ==> r1 == nil

//@ func (someDef).ToBool
//@   prop C01,C02
//@   arith bv
//@   opt split=convkinds
//@   opt split-only.C01=unsupported
//@   requires wf: self.isNil == absent(self.ref) && self.isPresent == !self.isNil
//@   ensures N: self.isNil ==> r0 == false && r1 == ErrConversionNil
//@   ensures B: !self.isNil && convSupported(self.ref) && r1 == nil ==> convBool(r0, self.ref)
//@   ensures F: !self.isNil && convSupported(self.ref) && !convIsString(self.ref) ==> r1 == nil
//@   ensures U: !self.isNil && !convSupported(self.ref) ==> r1 == ErrConversionUnsupported
//@   ensures I: !self.isNil && convSameType(self.ref, r0) ==> r1 == nil

// ===================================================================================================
// C03 - slice / map helpers equal their definitions (mathematical integers; element type abstract)
//
// Conventions: seq-valued results are described index by index; "fresh(r0)" = storage allocated by this call;
// "unchanged(x)" = the input sequence reads the same afterwards. Callbacks are pure functions.

//@ func Map
//@   prop C03
//@   ensures len: len(r0) == len(values)
//@   ensures elems: forall(i, 0, len(values), r0[i] == fn(values[i]))
//@   ensures fresh: fresh(r0)
//@   ensures unchanged: unchanged(values)
//@ func Map loop 0
//@   invariant len: len(result) == len(values)
//@   invariant fresh: fresh(result)
//@   invariant prefix: forall(j, 0, _i, result[j] == fn(values[j]))

//@ func MapIndexed
//@   prop C03
//@   ensures len: len(r0) == len(values)
//@   ensures elems: forall(i, 0, len(values), r0[i] == fn(values[i], i))
//@   ensures fresh: fresh(r0)
//@   ensures unchanged: unchanged(values)
//@ func MapIndexed loop 0
//@   invariant len: len(result) == len(values)
//@   invariant fresh: fresh(result)
//@   invariant prefix: forall(j, 0, _i, result[j] == fn(values[j], j))

//@ func Reverse
//@   prop C03
//@   ensures len: len(r0) == len(list)
//@   ensures elems: forall(i, 0, len(list), r0[i] == list[len(list)-1-i])
//@   ensures fresh: fresh(r0)
//@   ensures unchanged: unchanged(list)
//@ func Reverse loop 0
//@   invariant range: 0 <= i && i <= len(list)
//@   invariant len: len(newList) == len(list)
//@   invariant fresh: fresh(newList)
//@   invariant prefix: forall(j, 0, i, newList[j] == list[len(list)-1-j])

//@ func Drop
//@   prop C03
//@   ensures none: count <= 0 ==> r0 == list
//@   ensures all: count >= len(list) && count > 0 ==> len(r0) == 0
//@   ensures some: count > 0 && count < len(list) ==> len(r0) == len(list) - count && forall(i, 0, len(r0), r0[i] == list[count+i])
//@   ensures unchanged: unchanged(list)

//@ func DropLast
//@   prop C03
//@   ensures none: count <= 0 ==> r0 == list
//@   ensures all: count >= len(list) && count > 0 ==> len(r0) == 0
//@   ensures some: count > 0 && count < len(list) ==> len(r0) == len(list) - count && forall(i, 0, len(r0), r0[i] == list[i])
//@   ensures unchanged: unchanged(list)

//@ func Take
//@   prop C03
//@   ensures some: count > 0 && count < len(list) ==> len(r0) == count && forall(i, 0, count, r0[i] == list[i])
//@   ensures all: count >= len(list) ==> r0 == list
//@   ensures corner: count <= 0 ==> r0 == list || len(r0) == 0
//@   ensures unchanged: unchanged(list)

//@ func TakeLast
//@   prop C03
//@   ensures some: count > 0 && count < len(list) ==> len(r0) == count && forall(i, 0, count, r0[i] == list[len(list)-count+i])
//@   ensures all: count >= len(list) ==> r0 == list
//@   ensures corner: count <= 0 ==> r0 == list || len(r0) == 0
//@   ensures unchanged: unchanged(list)

//@ func Head
//@   prop C03
//@   ensures some: len(list) > 0 ==> r0 == list[0]
//@   ensures unchanged: unchanged(list)

//@ func Tail
//@   prop C03
//@   ensures empty: len(list) <= 1 ==> len(r0) == 0
//@   ensures some: len(list) > 1 ==> len(r0) == len(list) - 1 && forall(i, 0, len(r0), r0[i] == list[i+1])
//@   ensures unchanged: unchanged(list)

// Filter-like results are characterised by two ghost index maps (existential witnesses):
//   g[j]   = index in the input of the j-th element of the result (strictly increasing),
//   pos[k] = position in the result of input element k, for every k that is kept.
// Together the three clauses sub/mono/all determine the result uniquely: it is the subsequence of exactly the kept elements, in order.

//@ func Filter
//@   prop C03
//@   ghost g (Array Int Int)
//@   ghost pos (Array Int Int)
//@   ensures sub: forall(j, 0, len(r0), 0 <= g[j] && g[j] < len(input) && r0[j] == input[g[j]] && fn(input[g[j]], g[j]))
//@   ensures mono: forall(j, 0, len(r0), forall(l, 0, j, g[l] < g[j]))
//@   ensures all: forall(k, 0, len(input), fn(input[k], k) ==> 0 <= pos[k] && pos[k] < len(r0) && g[pos[k]] == k)
//@   ensures fresh: fresh(r0)
//@   ensures unchanged: unchanged(input)
//@ func Filter loop 0
//@   ghostset g = ite(fn(input[_i], _i), store(g, newLen-1, _i), g)
//@   ghostset pos = ite(fn(input[_i], _i), store(pos, _i, newLen-1), pos)
//@   invariant n: 0 <= newLen && newLen <= _i
//@   invariant len: len(list) == len(input) && fresh(list)
//@   invariant sub: forall(j, 0, newLen, 0 <= g[j] && g[j] < _i && list[j] == input[g[j]] && fn(input[g[j]], g[j]))
//@   invariant mono: forall(j, 0, newLen, forall(l, 0, j, g[l] < g[j]))
//@   invariant all: forall(k, 0, _i, fn(input[k], k) ==> 0 <= pos[k] && pos[k] < newLen && g[pos[k]] == k)

// Reduce: the ghost sequence m of intermediate accumulators witnesses the left fold.
//@ func Reduce
//@   prop C03
//@   ghost m (Array Int Val)
//@   ghostinit m = store(m, 0, memo)
//@   ensures fold: m[0] == old(memo) && forall(k, 0, len(input), m[k+1] == fn(m[k], input[k])) && r0 == m[len(input)]
//@   ensures unchanged: unchanged(input)
//@ func Reduce loop 0
//@   ghostset m = store(m, i+1, memo)
//@   invariant range: 0 <= i && i <= len(input)
//@   invariant acc: m[0] == old(memo) && memo == m[i]
//@   invariant steps: forall(k, 0, i, m[k+1] == fn(m[k], input[k]))

//@ func ReduceIndexed
//@   prop C03
//@   ghost m (Array Int Val)
//@   ghostinit m = store(m, 0, memo)
//@   ensures fold: m[0] == old(memo) && forall(k, 0, len(input), m[k+1] == fn(m[k], input[k], k)) && r0 == m[len(input)]
//@   ensures unchanged: unchanged(input)
//@ func ReduceIndexed loop 0
//@   ghostset m = store(m, i+1, memo)
//@   invariant range: 0 <= i && i <= len(input)
//@   invariant acc: m[0] == old(memo) && memo == m[i]
//@   invariant steps: forall(k, 0, i, m[k+1] == fn(m[k], input[k], k))

//@ func Reject
//@   prop C03
//@   ghost g (Array Int Int)
//@   ghost pos (Array Int Int)
//@   ghostset g = Filter_g
//@   ghostset pos = Filter_pos
//@   ensures sub: forall(j, 0, len(r0), 0 <= g[j] && g[j] < len(input) && r0[j] == input[g[j]] && !fn(input[g[j]], g[j]))
//@   ensures mono: forall(j, 0, len(r0), forall(l, 0, j, g[l] < g[j]))
//@   ensures all: forall(k, 0, len(input), !fn(input[k], k) ==> 0 <= pos[k] && pos[k] < len(r0) && g[pos[k]] == k)
//@   ensures fresh: fresh(r0)
//@   ensures unchanged: unchanged(input)

//@ func Exists
//@   prop C03
//@   ensures def: r0 == exists(i, 0, len(list), list[i] == input)
//@   ensures unchanged: unchanged(list)
//@ func Exists loop 0
//@   invariant none: forall(j, 0, _i, list[j] != input)

//@ func Every
//@   prop C03
//@   ensures def: r0 == (f != nil && len(list) > 0 && forall(i, 0, len(list), f(list[i])))
//@   ensures unchanged: unchanged(list)
//@ func Every loop 0
//@   invariant all: forall(j, 0, _i, f(list[j]))

//@ func Some
//@   prop C03
//@   ensures def: r0 == (f != nil && exists(i, 0, len(list), f(list[i])))
//@   ensures unchanged: unchanged(list)
//@ func Some loop 0
//@   invariant none: forall(j, 0, _i, !f(list[j]))

//@ func IsEqual
//@   prop C03
//@   ensures def: len(list1) > 0 || len(list2) > 0 ==> r0 == (len(list1) == len(list2) && forall(i, 0, len(list1), list1[i] == list2[i]))
//@   ensures unchanged: unchanged(list1) && unchanged(list2)
//@ func IsEqual loop 0
//@   invariant range: 0 <= i && i <= len1
//@   invariant same: forall(j, 0, i, list1[j] == list2[j])

//@ func Min
//@   prop C03
//@   ensures empty: len(list) == 0 ==> r0 == 0
//@   ensures member: len(list) > 0 ==> exists(i, 0, len(list), list[i] == r0)
//@   ensures bound: forall(i, 0, len(list), r0 <= list[i])
//@   ensures unchanged: unchanged(list)
//@ func Min loop 0
//@   invariant member: exists(j, 0, len(list), list[j] == result)
//@   invariant bound: forall(j, 0, _i, result <= list[j])

//@ func Max
//@   prop C03
//@   ensures empty: len(list) == 0 ==> r0 == 0
//@   ensures member: len(list) > 0 ==> exists(i, 0, len(list), list[i] == r0)
//@   ensures bound: forall(i, 0, len(list), r0 >= list[i])
//@   ensures unchanged: unchanged(list)
//@ func Max loop 0
//@   invariant member: exists(j, 0, len(list), list[j] == result)
//@   invariant bound: forall(j, 0, _i, result >= list[j])

//@ func MinMax
//@   prop C03
//@   ensures empty: len(list) == 0 ==> r0 == 0 && r1 == 0
//@   ensures member: len(list) > 0 ==> exists(i, 0, len(list), list[i] == r0) && exists(i, 0, len(list), list[i] == r1)
//@   ensures bound: forall(i, 0, len(list), r0 <= list[i] && list[i] <= r1)
//@   ensures unchanged: unchanged(list)
//@ func MinMax loop 0
//@   invariant member: exists(j, 0, len(list), list[j] == min) && exists(j, 0, len(list), list[j] == max)
//@   invariant bound: forall(j, 0, _i, min <= list[j] && list[j] <= max)
//@   invariant order: min <= max

//@ func DropEq
//@   prop C03
//@   ghost g (Array Int Int)
//@   ghost pos (Array Int Int)
//@   ensures sub: forall(j, 0, len(r0), 0 <= g[j] && g[j] < len(list) && r0[j] == list[g[j]] && list[g[j]] != num)
//@   ensures mono: forall(j, 0, len(r0), forall(l, 0, j, g[l] < g[j]))
//@   ensures all: forall(k, 0, len(list), list[k] != num ==> 0 <= pos[k] && pos[k] < len(r0) && g[pos[k]] == k)
//@   ensures fresh: freshOrNil(r0)
//@   ensures unchanged: unchanged(list)
//@ func DropEq loop 0
//@   ghostset g = ite(list[_i] != num, store(g, len(newList)-1, _i), g)
//@   ghostset pos = ite(list[_i] != num, store(pos, _i, len(newList)-1), pos)
//@   invariant n: len(newList) <= _i && freshOrNil(newList)
//@   invariant sub: forall(j, 0, len(newList), 0 <= g[j] && g[j] < _i && newList[j] == list[g[j]] && list[g[j]] != num)
//@   invariant mono: forall(j, 0, len(newList), forall(l, 0, j, g[l] < g[j]))
//@   invariant all: forall(k, 0, _i, list[k] != num ==> 0 <= pos[k] && pos[k] < len(newList) && g[pos[k]] == k)

//@ func Dedupe
//@   prop C03
//@   ghost g (Array Int Int)
//@   ghost pos (Array Int Int)
//@   ensures sub: forall(j, 0, len(r0), 0 <= g[j] && g[j] < len(list) && r0[j] == list[g[j]] && !(g[j]+1 < len(list) && list[g[j]] == list[g[j]+1]))
//@   ensures mono: forall(j, 0, len(r0), forall(l, 0, j, g[l] < g[j]))
//@   ensures all: forall(k, 0, len(list), !(k+1 < len(list) && list[k] == list[k+1]) ==> 0 <= pos[k] && pos[k] < len(r0) && g[pos[k]] == k)
//@   ensures fresh: freshOrNil(r0)
//@   ensures unchanged: unchanged(list)
//@ func Dedupe loop 0
//@   ghostset g = ite(!(i+1 < lenList && list[i] == list[i+1]), store(g, len(newList)-1, i), g)
//@   ghostset pos = ite(!(i+1 < lenList && list[i] == list[i+1]), store(pos, i, len(newList)-1), pos)
//@   invariant range: 0 <= i && i <= lenList && lenList == len(list)
//@   invariant n: len(newList) <= i && freshOrNil(newList)
//@   invariant sub: forall(j, 0, len(newList), 0 <= g[j] && g[j] < i && newList[j] == list[g[j]] && !(g[j]+1 < len(list) && list[g[j]] == list[g[j]+1]))
//@   invariant mono: forall(j, 0, len(newList), forall(l, 0, j, g[l] < g[j]))
//@   invariant all: forall(k, 0, i, !(k+1 < len(list) && list[k] == list[k+1]) ==> 0 <= pos[k] && pos[k] < len(newList) && g[pos[k]] == k)

//@ func DropWhile
//@   prop C03
//@   ensures nilf: f == nil ==> len(r0) == 0
//@   ensures cut: f != nil ==> len(r0) <= len(list) && forall(j, 0, len(list)-len(r0), f(list[j])) && (len(r0) > 0 ==> !f(list[len(list)-len(r0)]))
//@   ensures suffix: f != nil ==> forall(j, 0, len(r0), r0[j] == list[len(list)-len(r0)+j])
//@   ensures fresh: freshOrNil(r0)
//@   ensures unchanged: unchanged(list)
//@ func DropWhile loop 0
//@   invariant prefix: forall(j, 0, _i, f(list[j]))
//@   invariant nothing: len(newList) == 0 && newList == nil
//@ func DropWhile loop 1
//@   invariant shape: 0 <= j && j <= len(newList) && len(newList) <= listLen && listLen == len(list) && i == listLen - len(newList) + j && fresh(newList) && len(newList) > 0
//@   invariant prefix: forall(l, 0, listLen - len(newList), f(list[l])) && !f(list[listLen - len(newList)])
//@   invariant copied: forall(l, 0, j, newList[l] == list[listLen - len(newList) + l])

//@ func Prepend
//@   prop C03
//@   ensures len: len(r0) == len(list) + 1
//@   ensures head: r0[0] == element
//@   ensures tail: forall(i, 0, len(list), r0[i+1] == list[i])
//@   ensures fresh: fresh(r0)
//@   ensures unchanged: unchanged(list)

//@ func DuplicateSlice
//@   prop C03
//@   ensures same: seqeq(r0, list)
//@   ensures fresh: fresh(r0)
//@   ensures unchanged: unchanged(list)

// ---- map-based helpers. In a range-over-map loop: _i = number of keys visited so far, _visited(x) = "x has been visited",
//      _keyat(j) = j-th key visited, _n = number of keys at loop entry.

//@ func SliceToMap
//@   prop C03
//@   ensures dom: forallv(x, has(r0, x) == exists(i, 0, len(input), input[i] == x))
//@   ensures val: forallv(x, has(r0, x) ==> r0[x] == defaultValue)
//@   ensures fresh: fresh(r0)
//@   ensures unchanged: unchanged(input)
//@ func SliceToMap loop 0
//@   invariant dom: forallv(x, has(resultMap, x) == exists(i, 0, _i, input[i] == x))
//@   invariant val: forallv(x, has(resultMap, x) ==> resultMap[x] == defaultValue)
//@   invariant fresh: fresh(resultMap)

//@ func Keys
//@   prop C03
//@   ensures len: len(r0) == len(m)
//@   ensures members: forall(i, 0, len(r0), has(m, r0[i]))
//@   ensures injective: forall(i, 0, len(r0), forall(j, 0, i, r0[j] != r0[i]))
//@   ensures onto: forallv(x, has(m, x) ==> exists(i, 0, len(r0), r0[i] == x))
//@   ensures fresh: fresh(r0)
//@   ensures unchanged: unchangedmap(m)
//@ func Keys loop 0
//@   invariant count: i == _i && len(keys) == _n && _n == len(m) && fresh(keys)
//@   invariant prefix: forall(j, 0, _i, keys[j] == _keyat(j))

//@ func Values
//@   prop C03
//@   ensures len: len(r0) == len(m)
//@   ensures members: forall(i, 0, len(r0), existsv(x, has(m, x) && m[x] == r0[i]))
//@   ensures onto: forallv(x, has(m, x) ==> exists(i, 0, len(r0), r0[i] == m[x]))
//@   ensures fresh: fresh(r0)
//@   ensures unchanged: unchangedmap(m)
//@ func Values loop 0
//@   invariant count: i == _i && len(keys) == _n && _n == len(m) && fresh(keys)
//@   invariant prefix: forall(j, 0, _i, keys[j] == m[_keyat(j)])

//@ func DuplicateMap
//@   prop C03
//@   ensures dom: forallv(x, has(r0, x) == has(input, x))
//@   ensures val: forallv(x, has(input, x) ==> r0[x] == input[x])
//@   ensures fresh: fresh(r0)
//@   ensures unchanged: unchangedmap(input)
//@ func DuplicateMap loop 0
//@   invariant dom: forallv(x, has(newOne, x) == _visited(x))
//@   invariant val: forallv(x, has(newOne, x) ==> newOne[x] == input[x])
//@   invariant fresh: fresh(newOne)

//@ func Merge
//@   prop C03
//@   ensures dom: forallv(x, has(r0, x) == (has(map1, x) || has(map2, x)))
//@   ensures second-wins: forallv(x, has(map2, x) ==> r0[x] == map2[x])
//@   ensures first: forallv(x, has(map1, x) && !has(map2, x) ==> r0[x] == map1[x])
//@   ensures fresh: fresh(r0)
//@   ensures unchanged: unchangedmap(map1) && unchangedmap(map2)
//@ func Merge loop 0
//@   invariant dom: forallv(x, has(newMap, x) == _visited(x))
//@   invariant val: forallv(x, has(newMap, x) ==> newMap[x] == map2[x])
//@   invariant fresh: fresh(newMap)
//@ func Merge loop 1
//@   invariant dom: forallv(x, has(newMap, x) == _visited(x))
//@   invariant val: forallv(x, has(newMap, x) ==> newMap[x] == map1[x])
//@   invariant fresh: fresh(newMap)
//@ func Merge loop 2
//@   invariant dom: forallv(x, has(newMap, x) == _visited(x))
//@   invariant val: forallv(x, has(newMap, x) ==> newMap[x] == map1[x])
//@   invariant fresh: fresh(newMap)
//@ func Merge loop 3
//@   invariant dom: forallv(x, has(newMap, x) == (has(map1, x) || _visited(x)))
//@   invariant val2: forallv(x, _visited(x) ==> newMap[x] == map2[x])
//@   invariant val1: forallv(x, has(map1, x) && !_visited(x) ==> newMap[x] == map1[x])
//@   invariant fresh: fresh(newMap)

//@ func Zip
//@   prop C03
//@   ensures empty: len(list1) == 0 || len(list2) == 0 ==> forallv(x, !has(r0, x))
//@   ensures dom: len(list1) > 0 && len(list2) > 0 ==> forallv(x, has(r0, x) == exists(i, 0, ite(len(list1) < len(list2), len(list1), len(list2)), list1[i] == x))
//@   ensures val: len(list1) > 0 && len(list2) > 0 ==> forall(i, 0, ite(len(list1) < len(list2), len(list1), len(list2)), forall(j, i+1, ite(len(list1) < len(list2), len(list1), len(list2)), list1[j] != list1[i]) ==> r0[list1[i]] == list2[i])
//@   ensures fresh: fresh(r0)
//@   ensures unchanged: unchanged(list1) && unchanged(list2)
//@ func Zip loop 0
//@   invariant range: 0 <= i && i <= minLen && minLen <= len1 && minLen <= len2 && len1 == len(list1) && len2 == len(list2) && (minLen == len1 || minLen == len2)
//@   invariant dom: forallv(x, has(newMap, x) == exists(k, 0, i, list1[k] == x))
//@   invariant val: forall(k, 0, i, forall(j, k+1, i, list1[j] != list1[k]) ==> newMap[list1[k]] == list2[k])
//@   invariant fresh: fresh(newMap)

//@ func IsDistinct
//@   prop C03
//@   ensures def: len(list) > 0 ==> r0 == forall(i, 0, len(list), forall(j, 0, i, list[j] != list[i]))
//@   ensures unchanged: unchanged(list)
//@ func IsDistinct loop 0
//@   invariant seen: forallv(x, has(s, x) == exists(j, 0, _i, list[j] == x))
//@   invariant only-true-is-stored: forallv(x, s[x] == has(s, x))
//@   invariant distinct: forall(i, 0, _i, forall(j, 0, i, list[j] != list[i]))
//@   invariant fresh: fresh(s)

//@ func IsEqualMap
//@   prop C03
//@   ensures def: len(map1) > 0 || len(map2) > 0 ==> r0 == (len(map1) == len(map2) && forallv(x, has(map1, x) ==> has(map2, x) && map2[x] == map1[x]))
//@   ensures unchanged: unchangedmap(map1) && unchangedmap(map2)
//@ func IsEqualMap loop 0
//@   invariant all: forallv(x, _visited(x) ==> has(map2, x) && map2[x] == map1[x])
//@ func IsEqualMap loop 1
//@   invariant notyet: !found ==> forallv(x, _visited(x) ==> !(x == k1 && map2[x] == v1))
//@   invariant found: found ==> has(map2, k1) && map2[k1] == v1

//@ func Distinct
//@   prop C03
//@   ghost g (Array Int Int)
//@   ghost pos (Array Int Int)
//@   ensures sub: forall(j, 0, len(r0), 0 <= g[j] && g[j] < len(list) && r0[j] == list[g[j]] && forall(l, 0, g[j], list[l] != list[g[j]]))
//@   ensures mono: forall(j, 0, len(r0), forall(l, 0, j, g[l] < g[j]))
//@   ensures all: forall(k, 0, len(list), forall(l, 0, k, list[l] != list[k]) ==> 0 <= pos[k] && pos[k] < len(r0) && g[pos[k]] == k)
//@   ensures fresh: fresh(r0)
//@   ensures unchanged: unchanged(list)
//@ func Distinct loop 0
//@   ghostset g = ite(forall(l, 0, _i, list[l] != list[_i]), store(g, resultIndex-1, _i), g)
//@   ghostset pos = ite(forall(l, 0, _i, list[l] != list[_i]), store(pos, _i, resultIndex-1), pos)
//@   invariant n: 0 <= resultIndex && resultIndex <= _i && len(result) == len(list) && maxLen == len(list) && fresh(result) && fresh(s)
//@   invariant seen: forallv(x, s[x] == exists(j, 0, _i, list[j] == x))
//@   invariant sub: forall(j, 0, resultIndex, 0 <= g[j] && g[j] < _i && result[j] == list[g[j]] && forall(l, 0, g[j], list[l] != list[g[j]]))
//@   invariant mono: forall(j, 0, resultIndex, forall(l, 0, j, g[l] < g[j]))
//@   invariant all: forall(k, 0, _i, forall(l, 0, k, list[l] != list[k]) ==> 0 <= pos[k] && pos[k] < resultIndex && g[pos[k]] == k)

//@ func UniqBy
//@   prop C03
//@   ghost g (Array Int Int)
//@   ghost pos (Array Int Int)
//@   ensures sub: forall(j, 0, len(r0), 0 <= g[j] && g[j] < len(list) && r0[j] == list[g[j]] && forall(l, 0, g[j], identify(list[l]) != identify(list[g[j]])))
//@   ensures mono: forall(j, 0, len(r0), forall(l, 0, j, g[l] < g[j]))
//@   ensures all: forall(k, 0, len(list), forall(l, 0, k, identify(list[l]) != identify(list[k])) ==> 0 <= pos[k] && pos[k] < len(r0) && g[pos[k]] == k)
//@   ensures fresh: fresh(r0)
//@   ensures unchanged: unchanged(list)
//@ func UniqBy loop 0
//@   ghostset g = ite(forall(l, 0, _i, identify(list[l]) != identify(list[_i])), store(g, len(result)-1, _i), g)
//@   ghostset pos = ite(forall(l, 0, _i, identify(list[l]) != identify(list[_i])), store(pos, _i, len(result)-1), pos)
//@   invariant n: len(result) <= _i && fresh(result) && fresh(identifiers)
//@   invariant seen: forallv(x, has(identifiers, x) == exists(j, 0, _i, identify(list[j]) == x))
//@   invariant sub: forall(j, 0, len(result), 0 <= g[j] && g[j] < _i && result[j] == list[g[j]] && forall(l, 0, g[j], identify(list[l]) != identify(list[g[j]])))
//@   invariant mono: forall(j, 0, len(result), forall(l, 0, j, g[l] < g[j]))
//@   invariant all: forall(k, 0, _i, forall(l, 0, k, identify(list[l]) != identify(list[k])) ==> 0 <= pos[k] && pos[k] < len(result) && g[pos[k]] == k)

//@ func Partition
//@   prop C03
//@   ghost g1 (Array Int Int)
//@   ghost pos1 (Array Int Int)
//@   ghost g2 (Array Int Int)
//@   ghost pos2 (Array Int Int)
//@   ensures two: len(r0) == 2 && fresh(r0) && fresh(r0[0]) && fresh(r0[1])
//@   ensures sub1: forall(j, 0, len(r0[0]), 0 <= g1[j] && g1[j] < len(list) && r0[0][j] == list[g1[j]] && predicate(list[g1[j]]))
//@   ensures mono1: forall(j, 0, len(r0[0]), forall(l, 0, j, g1[l] < g1[j]))
//@   ensures all1: forall(k, 0, len(list), predicate(list[k]) ==> 0 <= pos1[k] && pos1[k] < len(r0[0]) && g1[pos1[k]] == k)
//@   ensures sub2: forall(j, 0, len(r0[1]), 0 <= g2[j] && g2[j] < len(list) && r0[1][j] == list[g2[j]] && !predicate(list[g2[j]]))
//@   ensures mono2: forall(j, 0, len(r0[1]), forall(l, 0, j, g2[l] < g2[j]))
//@   ensures all2: forall(k, 0, len(list), !predicate(list[k]) ==> 0 <= pos2[k] && pos2[k] < len(r0[1]) && g2[pos2[k]] == k)
//@   ensures unchanged: unchanged(list)
//@ func Partition loop 0
//@   ghostset g1 = ite(predicate(list[_i]), store(g1, len(resultTrue)-1, _i), g1)
//@   ghostset pos1 = ite(predicate(list[_i]), store(pos1, _i, len(resultTrue)-1), pos1)
//@   ghostset g2 = ite(!predicate(list[_i]), store(g2, len(resultFalse)-1, _i), g2)
//@   ghostset pos2 = ite(!predicate(list[_i]), store(pos2, _i, len(resultFalse)-1), pos2)
//@   invariant n: len(resultTrue) <= _i && len(resultFalse) <= _i && fresh(resultTrue) && fresh(resultFalse) && base(resultTrue) != base(resultFalse)
//@   invariant sub1: forall(j, 0, len(resultTrue), 0 <= g1[j] && g1[j] < _i && resultTrue[j] == list[g1[j]] && predicate(list[g1[j]]))
//@   invariant mono1: forall(j, 0, len(resultTrue), forall(l, 0, j, g1[l] < g1[j]))
//@   invariant all1: forall(k, 0, _i, predicate(list[k]) ==> 0 <= pos1[k] && pos1[k] < len(resultTrue) && g1[pos1[k]] == k)
//@   invariant sub2: forall(j, 0, len(resultFalse), 0 <= g2[j] && g2[j] < _i && resultFalse[j] == list[g2[j]] && !predicate(list[g2[j]]))
//@   invariant mono2: forall(j, 0, len(resultFalse), forall(l, 0, j, g2[l] < g2[j]))
//@   invariant all2: forall(k, 0, _i, !predicate(list[k]) ==> 0 <= pos2[k] && pos2[k] < len(resultFalse) && g2[pos2[k]] == k)

// Concat: the ghost array start holds the offset at which each argument slice begins in the result.
//@ func Concat
//@   prop C03
//@   ghost start (Array Int Int)
//@   ghostinit start = store(start, 0, len(mine))
//@   ensures offsets: start[0] == len(mine) && forall(k, 0, len(slices), start[k+1] == start[k] + len(slices[k]))
//@   ensures len: len(r0) == start[len(slices)]
//@   ensures mine: forall(i, 0, len(mine), r0[i] == mine[i])
//@   ensures rest: forall2(k, 0, len(slices), j, 0, len(slices[k]), r0[start[k]+j] == slices[k][j])
//@   ensures fresh: fresh(r0)
//@   ensures unchanged: unchanged(mine)
//@ func Concat loop 0
//@   ghostset start = store(start, _i+1, totalLen)
//@   invariant sums: start[0] == len(mine) && mineLen == len(mine) && totalLen == start[_i] && forall(k, 0, _i, start[k+1] == start[k] + len(slices[k]))
//@   invariant mono: forall2(a, 0, _i+1, b, a, _i+1, start[a] <= start[b])
//@ func Concat loop 1
//@   invariant shape: len(newOne) == totalLen && fresh(newOne)
//@   invariant copied: forall(j, 0, _i, newOne[j] == mine[j])
//@ func Concat loop 2
//@   invariant shape: len(newOne) == totalLen && fresh(newOne) && totalIndex == start[_i]
//@   invariant mine: forall(j, 0, len(mine), newOne[j] == mine[j])
//@   invariant rest: forall2(k, 0, _i, j, 0, len(slices[k]), newOne[start[k]+j] == slices[k][j])
//@ func Concat loop 3
//@   invariant shape: len(newOne) == totalLen && fresh(newOne) && targetLen == len(target) && target == slices[_i2] && totalIndex == start[_i2]
//@   invariant mine: forall(l, 0, len(mine), newOne[l] == mine[l])
//@   invariant rest: forall2(k, 0, _i2, l, 0, len(slices[k]), newOne[start[k]+l] == slices[k][l])
//@   invariant cur: forall(l, 0, _i, newOne[totalIndex+l] == target[l])

//@ func Flatten
//@   prop C03
//@   ghost start (Array Int Int)
//@   ghostset start = Concat_start
//@   ensures offsets: start[0] == 0 && forall(k, 0, len(list), start[k+1] == start[k] + len(list[k]))
//@   ensures len: len(r0) == start[len(list)]
//@   ensures elems: forall2(k, 0, len(list), j, 0, len(list[k]), r0[start[k]+j] == list[k][j])
//@   ensures fresh: fresh(r0)

// Range (integer instantiations; T is modelled as a mathematical integer, so "higher+hop is representable" is assumed)
//@ func Range
//@   prop C03
//@   ensures badhop: len(hops) > 0 && hops[0] <= 0 ==> len(r0) == 0
//@   ensures empty: lower >= higher ==> len(r0) == 0
//@   ensures first: lower < higher && !(len(hops) > 0 && hops[0] <= 0) ==> len(r0) > 0 && r0[0] == lower
//@   ensures step: forall(k, 0, len(r0)-1, r0[k+1] == r0[k] + ite(len(hops) > 0, hops[0], 1))
//@   ensures last: len(r0) > 0 ==> r0[len(r0)-1] < higher && r0[len(r0)-1] + ite(len(hops) > 0, hops[0], 1) >= higher
//@   ensures fresh: freshOrNil(r0)
//@ func Range loop 0
//@   invariant hop: hop > 0 && hop == ite(len(hops) > 0, hops[0], 1) && lower < higher && freshOrNil(l)
//@   invariant first: (len(l) == 0 ==> v == lower) && (len(l) > 0 ==> l[0] == lower && v == l[len(l)-1] + hop && l[len(l)-1] < higher)
//@   invariant step: forall(k, 0, len(l)-1, l[k+1] == l[k] + hop)

// SplitEvery and GroupBy: safety (no panic, inputs untouched) and the guarded corner only; the grouping itself is not specified here.
//@ func SplitEvery
//@   prop C03
//@   ghost starts (Array Int Int)
//@   ghostinit starts = store(starts, 0, 0)
//@   ensures corner: size <= 0 || len(list) <= 1 ==> len(r0) == 1 && r0[0] == list
//@   ensures groups: size > 0 && len(list) > 1 ==> len(r0) >= 1 && starts[0] == 0 && starts[len(r0)] == len(list) && forall(k, 0, len(r0), starts[k+1] == starts[k] + len(r0[k]))
//@   ensures full-groups-then-rest: size > 0 && len(list) > 1 ==> forall(k, 0, len(r0)-1, len(r0[k]) == size) && 1 <= len(r0[len(r0)-1]) && len(r0[len(r0)-1]) <= size
//@   ensures in-order: size > 0 && len(list) > 1 ==> forall(k, 0, len(r0), forall(j, 0, len(r0[k]), r0[k][j] == list[starts[k]+j]))
//@   ensures unchanged: unchanged(list)
//@ func SplitEvery loop 0
//@   ghostset starts = ite(_i+1 >= len(list), store(store(starts, len(result)-1, _i+1-len(currentGroup)), len(result), len(list)), store(starts, len(result), _i+1-len(currentGroup)))
//@   invariant fresh: fresh(result) && fresh(currentGroup) && size > 0 && len(list) > 1 && starts[0] == 0
//@   invariant running: _i < len(list) ==> starts[len(result)] + len(currentGroup) == _i && len(currentGroup) <= size && (_i > 0 ==> 1 <= len(currentGroup)) && forall(k, 0, len(result), starts[k+1] == starts[k] + size && len(result[k]) == size) && forall(k, 0, len(result), forall(j, 0, size, result[k][j] == list[starts[k]+j])) && forall(j, 0, len(currentGroup), currentGroup[j] == list[starts[len(result)]+j]) && forall(k, 0, len(result), base(result[k]) != base(currentGroup))
//@   invariant finished: _i == len(list) ==> len(result) >= 1 && starts[len(result)] == len(list) && forall(k, 0, len(result), starts[k+1] == starts[k] + len(result[k])) && forall(k, 0, len(result)-1, len(result[k]) == size) && 1 <= len(result[len(result)-1]) && len(result[len(result)-1]) <= size && forall(k, 0, len(result), forall(j, 0, len(result[k]), result[k][j] == list[starts[k]+j]))

//@ func GroupBy
//@   prop C03
//@   ghost pos (Array Int Int)
//@   ensures fresh: fresh(r0)
//@   ensures keys: forallv(y, has(r0, y) == exists(i, 0, len(list), grouper(list[i]) == y))
//@   ensures groups-hold-their-own: forallv(y, has(r0, y) ==> forall(j, 0, len(r0[y]), grouper(r0[y][j]) == y && exists(i, 0, len(list), list[i] == r0[y][j])))
//@   ensures every-item-grouped: forall(i, 0, len(list), 0 <= pos[i] && pos[i] < len(r0[grouper(list[i])]) && r0[grouper(list[i])][pos[i]] == list[i])
//@   ensures in-list-order: forall2(a, 0, len(list), b, 0, len(list), a < b && grouper(list[a]) == grouper(list[b]) ==> pos[a] < pos[b])
//@   ensures unchanged: unchanged(list)
//@ func GroupBy loop 0
//@   invariant fresh: fresh(result) && forallv(x, has(result, x) ==> fresh(result[x]))
//@   invariant separate: forallv(x, forallv(y, has(result, x) && has(result, y) && x != y ==> base(result[x]) != base(result[y])))
//@   invariant keys: forallv(y, has(result, y) == exists(i, 0, _i, grouper(list[i]) == y))
//@   invariant groups-hold-their-own: forallv(y, has(result, y) ==> forall(j, 0, len(result[y]), grouper(result[y][j]) == y && exists(i, 0, _i, list[i] == result[y][j])))
//@   ghostset pos = store(pos, _i, len(result[id])-1)
//@   invariant in-list-order: forall2(a, 0, _i, b, 0, _i, a < b && grouper(list[a]) == grouper(list[b]) ==> pos[a] < pos[b])
//@   invariant last-is-latest: forall(a, 0, _i, pos[a] < len(result[grouper(list[a])]))
//@   invariant every-item-grouped: forall(i, 0, _i, 0 <= pos[i] && pos[i] < len(result[grouper(list[i])]) && result[grouper(list[i])][pos[i]] == list[i])

// ===================================================================================================
// C06 - LinkedListQueue is a deque for every history: representation invariant + abstract transitions
//
// Ghost state (existential witnesses of the invariant, passed by name between the methods):
//   nodes, lo : the list is nodes[lo .. lo+count)          pn, plo : the free list is pn[plo .. plo+nodeCount)
//   st[r]     : 1 = r is in the list, 2 = r is in the free list, 3 = r is being released, else not referenced
//   ix[r]     : the index of r in nodes / pn (makes both sequences injective)
// The abstract deque is  *nodes[lo+i].Val  for i in [0,count).

//@ define LQ_LIST(nodes, lo, hi, st, ix) = forall(j, lo, hi, nodes[j] != nil && st[nodes[j]] == 1 && ix[nodes[j]] == j && nodes[j].Val != nil && (j+1 < hi ==> nodes[j].Next == nodes[j+1]) && (j > lo ==> nodes[j].Prev == nodes[j-1]))
//@ define LQ_ENDS(q, nodes, lo) = q.count >= 0 && (q.count == 0 ==> q.first == nil && q.last == nil) && (q.count > 0 ==> q.first == nodes[lo] && q.last == nodes[lo+q.count-1] && nodes[lo].Prev == nil && nodes[lo+q.count-1].Next == nil)
//@ define LQ_FREE(pn, plo, phi, st, ix) = forall(j, plo, phi, pn[j] != nil && st[pn[j]] == 2 && ix[pn[j]] == j && (j+1 < phi ==> pn[j].Next == pn[j+1]))
//@ define LQ_FREEENDS(q, pn, plo) = q.nodeCount >= 0 && (q.nodeCount == 0 ==> q.nodePoolFirst == nil) && (q.nodeCount > 0 ==> q.nodePoolFirst == pn[plo] && pn[plo+q.nodeCount-1].Next == nil)
//@ define LQ_WF(q, nodes, lo, pn, plo, st, ix) = LQ_ENDS(q, nodes, lo) && LQ_LIST(nodes, lo, lo+q.count, st, ix) && LQ_FREEENDS(q, pn, plo) && LQ_FREE(pn, plo, plo+q.nodeCount, st, ix)
//@ define LQ_SAME(nodes, lo, hi) = forall(j, lo, hi, nodes[j] == old(nodes[j]) && nodes[j].Val == old(nodes[j].Val) && *nodes[j].Val == old(*nodes[j].Val))
//@ define LQ_LISTFIELDS(q) = q.count == old(q.count) && q.first == old(q.first) && q.last == old(q.last)
//@ define LQ_EXISTED(nodes, lo, hi, pn, plo, phi) = forall(j, lo, hi, birth(nodes[j]) <= 0 && birth(nodes[j].Val) <= 0) && forall(j, plo, phi, birth(pn[j]) <= 0)
//@ define POOLINV_DoublyListItem(p) = p.Next == nil && p.Prev == nil && p.Val == nil

//@ func (LinkedListQueue).generateNode
//@   prop C06,C08
//@   opt poolfresh=st
//@   modifies q, ite(q.nodeCount > 0, pn[plo], nil)
//@   ghost nodes (Array Int Ref) of q.first
//@   ghost lo Int
//@   ghost pn (Array Int Ref) of q.first
//@   ghost plo Int
//@   ghost st (Array Ref Int)
//@   ghost ix (Array Ref Int)
//@   requires q != nil && LQ_FREEENDS(q, pn, plo) && LQ_FREE(pn, plo, plo+q.nodeCount, st, ix)
//@   assume forall(j, plo, plo+q.nodeCount, birth(pn[j]) <= 0)
//@   ghostset st = ite(old(q.nodeCount) > 0, store(st, r0, 0), st)
//@   ghostset plo = ite(old(q.nodeCount) > 0, plo+1, plo)
//@   ensures node: r0 != nil && st[r0] == 0 && r0.Next == nil && r0.Prev == nil
//@   ensures popped: old(q.nodeCount) > 0 ==> r0 == old(pn[plo]) && old(st[r0]) == 2
//@   ensures unreferenced: old(q.nodeCount) == 0 ==> old(st[r0]) == 0
//@   ensures other-status: forallr(r, r != r0 ==> st[r] == old(st[r]))
//@   ensures ghosts: nodes == old(nodes) && lo == old(lo) && pn == old(pn) && ix == old(ix)
//@   ensures list-fields: LQ_LISTFIELDS(q)
//@   ensures free-ends: LQ_FREEENDS(q, pn, plo)
//@   ensures free: LQ_FREE(pn, plo, plo+q.nodeCount, st, ix)

//@ func (LinkedListQueue).recycleNode
//@   prop C06,C08
//@   modifies q, node
//@   ghost nodes (Array Int Ref) of q.first
//@   ghost lo Int
//@   ghost pn (Array Int Ref) of q.first
//@   ghost plo Int
//@   ghost st (Array Ref Int)
//@   ghost ix (Array Ref Int)
//@   requires q != nil && node != nil && st[node] != 2 && LQ_FREEENDS(q, pn, plo) && LQ_FREE(pn, plo, plo+q.nodeCount, st, ix)
//@   assume forall(j, plo, plo+q.nodeCount, birth(pn[j]) <= 0)
//@   ghostset plo = plo-1
//@   ghostset pn = store(pn, plo, node)
//@   ghostset st = store(st, node, 2)
//@   ghostset ix = store(ix, node, plo)
//@   ensures pushed: q.nodeCount == old(q.nodeCount)+1 && plo == old(plo)-1 && pn == store(old(pn), plo, node) && st == store(old(st), node, 2) && ix == store(old(ix), node, plo)
//@   ensures cleared: node.Val == nil && node.Prev == nil
//@   ensures ghosts: nodes == old(nodes) && lo == old(lo)
//@   ensures list-fields: LQ_LISTFIELDS(q)
//@   ensures free-ends: LQ_FREEENDS(q, pn, plo)
//@   ensures free: LQ_FREE(pn, plo, plo+q.nodeCount, st, ix)

//@ func (LinkedListQueue).Offer
//@   prop C06,C08
//@   opt frame=off
//@   modifies all
//@   ghost nodes (Array Int Ref) of q.first
//@   ghost lo Int
//@   ghost pn (Array Int Ref) of q.first
//@   ghost plo Int
//@   ghost st (Array Ref Int)
//@   ghost ix (Array Ref Int)
//@   requires q != nil && LQ_WF(q, nodes, lo, pn, plo, st, ix)
//@   assume LQ_EXISTED(nodes, lo, lo+q.count, pn, plo, plo+q.nodeCount)
//@   ghostset nodes = store(nodes, lo+q.count-1, q.last)
//@   ghostset st = store(st, q.last, 1)
//@   ghostset ix = store(ix, q.last, lo+q.count-1)
//@   ensures result: r0 == nil && q.count == old(q.count)+1 && lo == old(lo)
//@   ensures appended: *nodes[lo+q.count-1].Val == val
//@   ensures others: LQ_SAME(nodes, lo, lo+q.count-1)
//@   ensures wf-ends: LQ_ENDS(q, nodes, lo)
//@   ensures wf-list: LQ_LIST(nodes, lo, lo+q.count, st, ix)
//@   ensures wf-free-ends: LQ_FREEENDS(q, pn, plo)
//@   ensures wf-free: LQ_FREE(pn, plo, plo+q.nodeCount, st, ix)

//@ func (LinkedListQueue).Unshift
//@   prop C06,C08
//@   opt frame=off
//@   modifies all
//@   ghost nodes (Array Int Ref) of q.first
//@   ghost lo Int
//@   ghost pn (Array Int Ref) of q.first
//@   ghost plo Int
//@   ghost st (Array Ref Int)
//@   ghost ix (Array Ref Int)
//@   requires q != nil && LQ_WF(q, nodes, lo, pn, plo, st, ix)
//@   assume LQ_EXISTED(nodes, lo, lo+q.count, pn, plo, plo+q.nodeCount)
//@   ghostset lo = lo-1
//@   ghostset nodes = store(nodes, lo, q.first)
//@   ghostset st = store(st, q.first, 1)
//@   ghostset ix = store(ix, q.first, lo)
//@   ensures result: r0 == nil && q.count == old(q.count)+1 && lo == old(lo)-1
//@   ensures prepended: *nodes[lo].Val == val
//@   ensures others: LQ_SAME(nodes, lo+1, lo+q.count)
//@   ensures wf-ends: LQ_ENDS(q, nodes, lo)
//@   ensures wf-list: LQ_LIST(nodes, lo, lo+q.count, st, ix)
//@   ensures wf-free-ends: LQ_FREEENDS(q, pn, plo)
//@   ensures wf-free: LQ_FREE(pn, plo, plo+q.nodeCount, st, ix)

//@ func (LinkedListQueue).Shift
//@   prop C06,C08
//@   opt frame=off
//@   modifies all
//@   ghost nodes (Array Int Ref) of q.first
//@   ghost lo Int
//@   ghost pn (Array Int Ref) of q.first
//@   ghost plo Int
//@   ghost st (Array Ref Int)
//@   ghost ix (Array Ref Int)
//@   requires q != nil && LQ_WF(q, nodes, lo, pn, plo, st, ix)
//@   assume LQ_EXISTED(nodes, lo, lo+q.count, pn, plo, plo+q.nodeCount)
//@   ghostset lo = ite(old(q.count) > 0, lo+1, lo)
//@   ensures empty: old(q.count) == 0 ==> r1 == ErrQueueIsEmpty && q.count == 0 && lo == old(lo)
//@   ensures head: old(q.count) > 0 ==> r1 == nil && r0 == old(*nodes[lo].Val) && q.count == old(q.count)-1 && lo == old(lo)+1
//@   ensures others: nodes == old(nodes) && LQ_SAME(nodes, lo, lo+q.count)
//@   ensures wf-ends: LQ_ENDS(q, nodes, lo)
//@   ensures wf-list: LQ_LIST(nodes, lo, lo+q.count, st, ix)
//@   ensures wf-free-ends: LQ_FREEENDS(q, pn, plo)
//@   ensures wf-free: LQ_FREE(pn, plo, plo+q.nodeCount, st, ix)

//@ func (LinkedListQueue).Pop
//@   prop C06,C08
//@   opt frame=off
//@   modifies all
//@   ghost nodes (Array Int Ref) of q.first
//@   ghost lo Int
//@   ghost pn (Array Int Ref) of q.first
//@   ghost plo Int
//@   ghost st (Array Ref Int)
//@   ghost ix (Array Ref Int)
//@   requires q != nil && LQ_WF(q, nodes, lo, pn, plo, st, ix)
//@   assume LQ_EXISTED(nodes, lo, lo+q.count, pn, plo, plo+q.nodeCount)
//@   ensures empty: old(q.count) == 0 ==> r1 == ErrStackIsEmpty && q.count == 0
//@   ensures tail: old(q.count) > 0 ==> r1 == nil && r0 == old(*nodes[lo+q.count-1].Val) && q.count == old(q.count)-1
//@   ensures others: nodes == old(nodes) && lo == old(lo) && LQ_SAME(nodes, lo, lo+q.count)
//@   ensures wf-ends: LQ_ENDS(q, nodes, lo)
//@   ensures wf-list: LQ_LIST(nodes, lo, lo+q.count, st, ix)
//@   ensures wf-free-ends: LQ_FREEENDS(q, pn, plo)
//@   ensures wf-free: LQ_FREE(pn, plo, plo+q.nodeCount, st, ix)

//@ func (LinkedListQueue).Peek
//@   prop C06,C08
//@   pure
//@   ghost nodes (Array Int Ref) of q.first
//@   ghost lo Int
//@   ghost pn (Array Int Ref) of q.first
//@   ghost plo Int
//@   ghost st (Array Ref Int)
//@   ghost ix (Array Ref Int)
//@   requires q != nil && LQ_WF(q, nodes, lo, pn, plo, st, ix)
//@   assume LQ_EXISTED(nodes, lo, lo+q.count, pn, plo, plo+q.nodeCount)
//@   ensures empty: q.count == 0 ==> r1 == ErrQueueIsEmpty
//@   ensures head: q.count > 0 ==> r1 == nil && r0 == *nodes[lo].Val

//@ func (LinkedListQueue).Count
//@   prop C06,C08
//@   pure
//@   requires q != nil
//@   ensures def: r0 == q.count

// forwarders: same transitions as the method they delegate to
//@ func (LinkedListQueue).Put
//@   prop C06,C08
//@   opt frame=off
//@   modifies all
//@   ghost nodes (Array Int Ref) of q.first
//@   ghost lo Int
//@   ghost pn (Array Int Ref) of q.first
//@   ghost plo Int
//@   ghost st (Array Ref Int)
//@   ghost ix (Array Ref Int)
//@   requires q != nil && LQ_WF(q, nodes, lo, pn, plo, st, ix)
//@   assume LQ_EXISTED(nodes, lo, lo+q.count, pn, plo, plo+q.nodeCount)
//@   ensures result: r0 == nil && q.count == old(q.count)+1 && lo == old(lo)
//@   ensures appended: *nodes[lo+q.count-1].Val == val
//@   ensures others: LQ_SAME(nodes, lo, lo+q.count-1)
//@   ensures wf-ends: LQ_ENDS(q, nodes, lo)
//@   ensures wf-list: LQ_LIST(nodes, lo, lo+q.count, st, ix)
//@   ensures wf-free-ends: LQ_FREEENDS(q, pn, plo)
//@   ensures wf-free: LQ_FREE(pn, plo, plo+q.nodeCount, st, ix)

//@ func (LinkedListQueue).Push
//@   prop C06,C08
//@   opt frame=off
//@   modifies all
//@   ghost nodes (Array Int Ref) of q.first
//@   ghost lo Int
//@   ghost pn (Array Int Ref) of q.first
//@   ghost plo Int
//@   ghost st (Array Ref Int)
//@   ghost ix (Array Ref Int)
//@   requires q != nil && LQ_WF(q, nodes, lo, pn, plo, st, ix)
//@   assume LQ_EXISTED(nodes, lo, lo+q.count, pn, plo, plo+q.nodeCount)
//@   ensures result: r0 == nil && q.count == old(q.count)+1 && lo == old(lo)
//@   ensures appended: *nodes[lo+q.count-1].Val == val
//@   ensures others: LQ_SAME(nodes, lo, lo+q.count-1)
//@   ensures wf-ends: LQ_ENDS(q, nodes, lo)
//@   ensures wf-list: LQ_LIST(nodes, lo, lo+q.count, st, ix)
//@   ensures wf-free-ends: LQ_FREEENDS(q, pn, plo)
//@   ensures wf-free: LQ_FREE(pn, plo, plo+q.nodeCount, st, ix)

//@ func (LinkedListQueue).Poll
//@   prop C06,C08
//@   opt frame=off
//@   modifies all
//@   ghost nodes (Array Int Ref) of q.first
//@   ghost lo Int
//@   ghost pn (Array Int Ref) of q.first
//@   ghost plo Int
//@   ghost st (Array Ref Int)
//@   ghost ix (Array Ref Int)
//@   requires q != nil && LQ_WF(q, nodes, lo, pn, plo, st, ix)
//@   assume LQ_EXISTED(nodes, lo, lo+q.count, pn, plo, plo+q.nodeCount)
//@   ensures empty: old(q.count) == 0 ==> r1 == ErrQueueIsEmpty && q.count == 0 && lo == old(lo)
//@   ensures head: old(q.count) > 0 ==> r1 == nil && r0 == old(*nodes[lo].Val) && q.count == old(q.count)-1 && lo == old(lo)+1
//@   ensures others: nodes == old(nodes) && LQ_SAME(nodes, lo, lo+q.count)
//@   ensures wf-ends: LQ_ENDS(q, nodes, lo)
//@   ensures wf-list: LQ_LIST(nodes, lo, lo+q.count, st, ix)
//@   ensures wf-free-ends: LQ_FREEENDS(q, pn, plo)
//@   ensures wf-free: LQ_FREE(pn, plo, plo+q.nodeCount, st, ix)

//@ func (LinkedListQueue).Take
//@   prop C06,C08
//@   opt frame=off
//@   modifies all
//@   ghost nodes (Array Int Ref) of q.first
//@   ghost lo Int
//@   ghost pn (Array Int Ref) of q.first
//@   ghost plo Int
//@   ghost st (Array Ref Int)
//@   ghost ix (Array Ref Int)
//@   requires q != nil && LQ_WF(q, nodes, lo, pn, plo, st, ix)
//@   assume LQ_EXISTED(nodes, lo, lo+q.count, pn, plo, plo+q.nodeCount)
//@   ensures empty: old(q.count) == 0 ==> r1 == ErrQueueIsEmpty && q.count == 0 && lo == old(lo)
//@   ensures head: old(q.count) > 0 ==> r1 == nil && r0 == old(*nodes[lo].Val) && q.count == old(q.count)-1 && lo == old(lo)+1
//@   ensures others: nodes == old(nodes) && LQ_SAME(nodes, lo, lo+q.count)
//@   ensures wf-ends: LQ_ENDS(q, nodes, lo)
//@   ensures wf-list: LQ_LIST(nodes, lo, lo+q.count, st, ix)
//@   ensures wf-free-ends: LQ_FREEENDS(q, pn, plo)
//@   ensures wf-free: LQ_FREE(pn, plo, plo+q.nodeCount, st, ix)

// a new queue is empty: count == 0 and no node referenced, which makes the invariant hold for any ghost witnesses
//@ func NewLinkedListQueue
//@   prop C06,C08
//@   ensures new: r0 != nil && fresh(r0) && r0.count == 0 && r0.nodeCount == 0 && r0.first == nil && r0.last == nil && r0.nodePoolFirst == nil

//@ func (LinkedListQueue).Clear
//@   prop C06,C08
//@   opt frame=off
//@   modifies all
//@   ghost nodes (Array Int Ref) of q.first
//@   ghost lo Int
//@   ghost pn (Array Int Ref) of q.first
//@   ghost plo Int
//@   ghost st (Array Ref Int)
//@   ghost ix (Array Ref Int)
//@   requires q != nil && LQ_WF(q, nodes, lo, pn, plo, st, ix)
//@   assume LQ_EXISTED(nodes, lo, lo+q.count, pn, plo, plo+q.nodeCount)
//@   ghostset pn = old(nodes)
//@   ghostset plo = old(lo)
//@   ghostset st = lamr(r, ite(old(st)[r] == 1, 2, ite(old(st)[r] == 2, 0, old(st)[r])))
//@   ensures empty: q.count == 0 && q.nodeCount == old(q.count)
//@   ensures wf-ends: LQ_ENDS(q, nodes, lo)
//@   ensures wf-list: LQ_LIST(nodes, lo, lo+q.count, st, ix)
//@   ensures wf-free-ends: LQ_FREEENDS(q, pn, plo)
//@   ensures wf-free: LQ_FREE(pn, plo, plo+q.nodeCount, st, ix)

// putAllIntoPool is inlined into its two callers; "keep" (a ghost of the caller) is the number of free nodes that stay.
//@ func (LinkedListQueue).putAllIntoPool
//@   prop C06,C08
//@   opt inline=true
//@ func (LinkedListQueue).putAllIntoPool loop 0
//@   invariant cursor: first == nil || (st[first] == 2 && plo+keep <= ix[first] && ix[first] < plo+old(q.nodeCount) && pn[ix[first]] == first)
//@   invariant chain: forall(j, plo+keep, plo+old(q.nodeCount), first != nil && j >= ix[first] ==> pn[j] != nil && st[pn[j]] == 2 && ix[pn[j]] == j && (j+1 < plo+old(q.nodeCount) ==> pn[j].Next == pn[j+1]) && (j+1 == plo+old(q.nodeCount) ==> pn[j].Next == nil))
//@   invariant kept: LQ_FREE(pn, plo, plo+keep, st, ix)
//@   invariant list: LQ_ENDS(q, nodes, lo) && LQ_LIST(nodes, lo, lo+q.count, st, ix) && LQ_SAME(nodes, lo, lo+q.count)

//@ func (LinkedListQueue).ClearNodePool
//@   prop C06,C08
//@   opt frame=off
//@   modifies all
//@   ghost nodes (Array Int Ref) of q.first
//@   ghost lo Int
//@   ghost pn (Array Int Ref) of q.first
//@   ghost plo Int
//@   ghost st (Array Ref Int)
//@   ghost ix (Array Ref Int)
//@   ghost keep Int
//@   ghostinit keep = 0
//@   requires q != nil && LQ_WF(q, nodes, lo, pn, plo, st, ix)
//@   assume LQ_EXISTED(nodes, lo, lo+q.count, pn, plo, plo+q.nodeCount)
//@   ghostset st = lamr(r, ite(old(st)[r] == 2, 0, old(st)[r]))
//@   ensures emptied: q.nodeCount == 0 && LQ_LISTFIELDS(q)
//@   ensures others: nodes == old(nodes) && lo == old(lo) && LQ_SAME(nodes, lo, lo+q.count)
//@   ensures wf-ends: LQ_ENDS(q, nodes, lo)
//@   ensures wf-list: LQ_LIST(nodes, lo, lo+q.count, st, ix)
//@   ensures wf-free-ends: LQ_FREEENDS(q, pn, plo)
//@   ensures wf-free: LQ_FREE(pn, plo, plo+q.nodeCount, st, ix)

//@ func (LinkedListQueue).KeepNodePoolCount
//@   prop C06,C08
//@   opt frame=off
//@   opt poolfresh=st
//@   modifies all
//@   ghost nodes (Array Int Ref) of q.first
//@   ghost lo Int
//@   ghost pn (Array Int Ref) of q.first
//@   ghost plo Int
//@   ghost st (Array Ref Int)
//@   ghost ix (Array Ref Int)
//@   ghost keep Int
//@   ghostinit keep = ite(n <= 0, 0, n)
//@   requires q != nil && LQ_WF(q, nodes, lo, pn, plo, st, ix)
//@   assume LQ_EXISTED(nodes, lo, lo+q.count, pn, plo, plo+q.nodeCount)
//@   ghostset st = lamr(r, ite(st[r] == 2 && ix[r] >= plo+keep, 0, st[r]))
//@   ensures sized: q.nodeCount == ite(old(n) <= 0, 0, old(n)) && LQ_LISTFIELDS(q)
//@   ensures others: nodes == old(nodes) && lo == old(lo) && LQ_SAME(nodes, lo, lo+q.count)
//@   ensures wf-ends: LQ_ENDS(q, nodes, lo)
//@   ensures wf-list: LQ_LIST(nodes, lo, lo+q.count, st, ix)
//@   ensures wf-free-ends: LQ_FREEENDS(q, pn, plo)
//@   ensures wf-free: LQ_FREE(pn, plo, plo+q.nodeCount, st, ix)
//@ func (LinkedListQueue).KeepNodePoolCount loop 0
//@   ghostbefore pn = store(pn, plo, last)
//@   ghostbefore st = store(st, last, 2)
//@   ghostbefore ix = store(ix, last, plo)
//@   ghostset pn = store(pn, plo+old(n)-1-n, last)
//@   ghostset st = store(st, last, 2)
//@   ghostset ix = store(ix, last, plo+old(n)-1-n)
//@   invariant counters: 0 <= n && n <= old(n)-1 && q.nodeCount == old(n) && keep == old(n) && q.nodePoolFirst == pn[plo] && last == pn[plo+old(n)-1-n] && last != nil
//@   invariant kept: LQ_FREE(pn, plo, plo+old(n)-n, st, ix)
//@   invariant link: (old(n)-n < old(q.nodeCount) ==> last.Next == pn[plo+old(n)-n]) && (old(n)-n >= old(q.nodeCount) ==> last.Next == nil)
//@   invariant rest: forall(j, plo+old(n)-n, plo+old(q.nodeCount), pn[j] != nil && st[pn[j]] == 2 && ix[pn[j]] == j && (j+1 < plo+old(q.nodeCount) ==> pn[j].Next == pn[j+1]) && (j+1 == plo+old(q.nodeCount) ==> pn[j].Next == nil))
//@   invariant list: LQ_ENDS(q, nodes, lo) && LQ_LIST(nodes, lo, lo+q.count, st, ix) && LQ_SAME(nodes, lo, lo+q.count) && LQ_LISTFIELDS(q) && nodes == old(nodes) && lo == old(lo)

// ===================================================================================================
// C08 - ConcurrentQueue / ConcurrentStack: the ownership discipline that implies linearizability
// (every method: acquire the exclusive lock; exactly one call on the wrapped object, arguments and results passed
//  through unchanged; release on every path). Schedules are not explored; see DESIGN.md section 5, C08.
//@ func (ConcurrentQueue).Put
//@   prop C08
//@   opt guarded=queue:lock
//@   opt frame=off
//@   requires q != nil && !untyped(q.queue)
//@   ensures arg-passed-through: _delegarg0 == val
//@   ensures result-passed-through: r0 == _delegated0

//@ func (ConcurrentQueue).Offer
//@   prop C08
//@   opt guarded=queue:lock
//@   opt frame=off
//@   requires q != nil && !untyped(q.queue)
//@   ensures arg-passed-through: _delegarg0 == val
//@   ensures result-passed-through: r0 == _delegated0

//@ func (ConcurrentQueue).Take
//@   prop C08
//@   opt guarded=queue:lock
//@   opt frame=off
//@   requires q != nil && !untyped(q.queue)
//@   ensures result-passed-through: r0 == _delegated0 && r1 == _delegated1

//@ func (ConcurrentQueue).Poll
//@   prop C08
//@   opt guarded=queue:lock
//@   opt frame=off
//@   requires q != nil && !untyped(q.queue)
//@   ensures result-passed-through: r0 == _delegated0 && r1 == _delegated1

//@ func (ConcurrentStack).Push
//@   prop C08
//@   opt guarded=stack:lock
//@   opt frame=off
//@   requires q != nil && !untyped(q.stack)
//@   ensures arg-passed-through: _delegarg0 == val
//@   ensures result-passed-through: r0 == _delegated0

//@ func (ConcurrentStack).Pop
//@   prop C08
//@   opt guarded=stack:lock
//@   opt frame=off
//@   requires q != nil && !untyped(q.stack)
//@   ensures result-passed-through: r0 == _delegated0 && r1 == _delegated1

// ===================================================================================================
// C05 - set algebra on slices / maps; generic functions and their interface{} twins share ONE contract text
// (the "twin" lines below), so both bodies are verified against the same characterisation of the result.

//@ define CONTAINS(lst, x) = exists(l9, 0, len(lst), lst[l9] == x)

//@ func Minus
//@   prop C05
//@   ghost g (Array Int Int)
//@   ghost pos (Array Int Int)
//@   ensures shorter: len(r0) <= len(set1)
//@   ensures sub: forall(j, 0, len(r0), 0 <= g[j] && g[j] < len(set1) && r0[j] == set1[g[j]] && !CONTAINS(set2, set1[g[j]]))
//@   ensures mono: forall(j, 0, len(r0), forall(l, 0, j, g[l] < g[j]))
//@   ensures all: forall(k, 0, len(set1), !CONTAINS(set2, set1[k]) ==> 0 <= pos[k] && pos[k] < len(r0) && g[pos[k]] == k)
//@   ensures fresh: fresh(r0)
//@   ensures unchanged: unchanged(set1) && unchanged(set2)
//@ func Minus loop 0
//@   ghostset g = ite(!CONTAINS(set2, set1[_i]), store(g, resultIndex-1, _i), g)
//@   ghostset pos = ite(!CONTAINS(set2, set1[_i]), store(pos, _i, resultIndex-1), pos)
//@   invariant n: 0 <= resultIndex && resultIndex <= _i && len(result) == len(set1) && fresh(result)
//@   invariant lookup: forallv(x, has(set2Map, x) == CONTAINS(set2, x))
//@   invariant sub: forall(j, 0, resultIndex, 0 <= g[j] && g[j] < _i && result[j] == set1[g[j]] && !CONTAINS(set2, set1[g[j]]))
//@   invariant mono: forall(j, 0, resultIndex, forall(l, 0, j, g[l] < g[j]))
//@   invariant all: forall(k, 0, _i, !CONTAINS(set2, set1[k]) ==> 0 <= pos[k] && pos[k] < resultIndex && g[pos[k]] == k)
//@ twin Minus MinusForInterface

//@ func IsSubset
//@   prop C05
//@   ensures empty: len(list1) == 0 || len(list2) == 0 ==> r0 == false
//@   ensures def: len(list1) > 0 && len(list2) > 0 ==> r0 == forall(i, 0, len(list1), CONTAINS(list2, list1[i]))
//@   ensures unchanged: unchanged(list1) && unchanged(list2)
//@ func IsSubset loop 0
//@   invariant range: 0 <= i && i <= len(list1) && fresh(resultMap)
//@   invariant seen: forallv(x, has(resultMap, x) == exists(k, 0, i, list1[k] == x))
//@   invariant sofar: forall(k, 0, i, CONTAINS(list2, list1[k]))
//@ func IsSubset loop 1
//@   invariant range: 0 <= j && j <= len(list2) && 0 <= i && i < len(list1)
//@   invariant notyet: !found ==> forall(l, 0, j, list2[l] != list1[i])
//@   invariant found: found ==> CONTAINS(list2, list1[i])
//@ twin IsSubset IsSubsetForInterface

//@ func IsSuperset
//@   prop C05
//@   ensures empty: len(list1) == 0 || len(list2) == 0 ==> r0 == false
//@   ensures def: len(list1) > 0 && len(list2) > 0 ==> r0 == forall(i, 0, len(list2), CONTAINS(list1, list2[i]))
//@ twin IsSuperset IsSupersetForInterface

//@ func Union
//@   prop C05
//@   ensures members: forall(i, 0, len(r0), exists(k, 0, len(arrList), CONTAINS(arrList[k], r0[i])))
//@   ensures onto: forall2(k, 0, len(arrList), l, 0, len(arrList[k]), exists(i, 0, len(r0), r0[i] == arrList[k][l]))
//@   ensures nodup: forall(i, 0, len(r0), forall(j, 0, i, r0[j] != r0[i]))
//@   ensures fresh: fresh(r0)
//@ func Union loop 0
//@   invariant seen: fresh(resultMap) && forallv(x, has(resultMap, x) == exists(k, 0, _i, CONTAINS(arrList[k], x)))
//@ func Union loop 1
//@   invariant seen: fresh(resultMap) && arr == arrList[_i0] && forallv(x, has(resultMap, x) == (exists(k, 0, _i0, CONTAINS(arrList[k], x)) || exists(l, 0, _i, arr[l] == x)))
//@   after summary: fresh(resultMap) && forallv(x, has(resultMap, x) == (exists(k, 0, _i0, CONTAINS(arrList[k], x)) || CONTAINS(arrList[_i0], x)))
//@ func Union loop 2
//@   invariant count: i == _i && len(result) == _n && fresh(result)
//@   invariant prefix: forall(j, 0, _i, result[j] == _keyat(j))

//@ func MinusMapByKey
//@   prop C05
//@   ensures dom: forallv(x, has(r0, x) == (has(set1, x) && !has(set2, x)))
//@   ensures val: forallv(x, has(r0, x) ==> r0[x] == set1[x])
//@   ensures fresh: fresh(r0)
//@   ensures unchanged: unchangedmap(set1) && unchangedmap(set2)
//@ func MinusMapByKey loop 0
//@   invariant dom: forallv(x, has(resultMap, x) == (_visited(x) && !has(set2, x)))
//@   invariant val: forallv(x, has(resultMap, x) ==> resultMap[x] == set1[x])
//@   invariant fresh: fresh(resultMap)

//@ func IsSubsetMapByKey
//@   prop C05
//@   ensures empty: len(item1) == 0 || len(item2) == 0 ==> r0 == false
//@   ensures def: len(item1) > 0 && len(item2) > 0 ==> r0 == forallv(x, has(item1, x) ==> has(item2, x))
//@   ensures unchanged: unchangedmap(item1) && unchangedmap(item2)
//@ func IsSubsetMapByKey loop 0
//@   invariant sofar: forallv(x, _visited(x) ==> has(item2, x))
//@ twin IsSubsetMapByKey IsSubsetMapByKeyForInterface

//@ func IsSupersetMapByKey
//@   prop C05
//@   ensures empty: len(item1) == 0 || len(item2) == 0 ==> r0 == false
//@   ensures def: len(item1) > 0 && len(item2) > 0 ==> r0 == forallv(x, has(item2, x) ==> has(item1, x))
//@ twin IsSupersetMapByKey IsSupersetMapByKeyForInterface

// twins of helpers that are specified under C03
//@ twin Distinct DistinctForInterface prop C05
//@ twin Exists ExistsForInterface prop C05
//@ twin Keys KeysForInterface prop C05
//@ twin Values ValuesForInterface prop C05
//@ twin Merge MergeForInterface prop C05
//@ twin SliceToMap SliceToMapForInterface prop C05
//@ twin DuplicateMap DuplicateMapForInterface prop C05

// Intersection / Difference: element i of the first list is kept iff its value is in all (resp. none) of the other lists and
// it is the first occurrence of that value in the first list. The ghost predicate inall[x] / innone[x] is DEFINED (clause "def")
// as that membership statement, so that equal values trivially share it.
// Precondition: at least one list (Intersection()/Difference() called with a non-nil empty argument list index [0] and panic;
// such calls are outside the property's quantifier).
//@ define IX_FIRST(L, i) = forall(l8, 0, i, L[0][l8] != L[0][i])

//@ func Intersection
//@   prop C05
//@   ghost g (Array Int Int)
//@   ghost pos (Array Int Int)
//@   ghost inall (Array Val Bool)
//@   ghost hit (Array Int Bool)
//@   ghostinit inall = lamvo(x, forall(k9, 1, len(inputList), CONTAINS(inputList[k9], x)))
//@   requires inputList == nil || len(inputList) > 0
//@   ensures def: forallv(x, reveal(inall, x) ==> inall[x] == forall(k9, 1, len(inputList), CONTAINS(inputList[k9], x)))
//@   ensures nil: inputList == nil ==> len(r0) == 0
//@   ensures sub: inputList != nil ==> forall(j, 0, len(r0), 0 <= g[j] && g[j] < len(inputList[0]) && r0[j] == inputList[0][g[j]] && inall[inputList[0][g[j]]] && IX_FIRST(inputList, g[j]))
//@   ensures mono: forall(j, 0, len(r0), forall(l, 0, j, g[l] < g[j]))
//@   ensures all: inputList != nil ==> forall(k, 0, len(inputList[0]), inall[inputList[0][k]] && IX_FIRST(inputList, k) ==> 0 <= pos[k] && pos[k] < len(r0) && g[pos[k]] == k)
//@   ensures fresh: freshOrNil(r0)
//@ func Intersection loop 0
//@   ghostset g = ite(IX_FIRST(inputList, i), store(g, len(newList)-1, i), g)
//@   ghostset pos = ite(IX_FIRST(inputList, i), store(pos, i, len(newList)-1), pos)
//@   invariant range: 0 <= i && i <= len(inputList[0]) && len(newList) <= i && freshOrNil(newList) && fresh(resultMap) && len(inputList) == 1
//@   invariant seen: forallv(x, has(resultMap, x) == exists(l, 0, i, inputList[0][l] == x))
//@   invariant sub: forall(j, 0, len(newList), 0 <= g[j] && g[j] < i && newList[j] == inputList[0][g[j]] && IX_FIRST(inputList, g[j]))
//@   invariant mono: forall(j, 0, len(newList), forall(l, 0, j, g[l] < g[j]))
//@   invariant all: forall(k, 0, i, IX_FIRST(inputList, k) ==> 0 <= pos[k] && pos[k] < len(newList) && g[pos[k]] == k)
//@ func Intersection loop 1
//@   ghostset g = ite(inall[inputList[0][i]] && IX_FIRST(inputList, i), store(g, len(newList)-1, i), g)
//@   ghostset pos = ite(inall[inputList[0][i]] && IX_FIRST(inputList, i), store(pos, i, len(newList)-1), pos)
//@   invariant range: 0 <= i && i <= len(inputList[0]) && len(newList) <= i && freshOrNil(newList) && fresh(resultMap) && inputLen == len(inputList) && inputLen > 1
//@   invariant seen: forallv(x, has(resultMap, x) == (inall[x] && exists(l, 0, i, inputList[0][l] == x)))
//@   invariant sub: forall(j, 0, len(newList), 0 <= g[j] && g[j] < i && newList[j] == inputList[0][g[j]] && inall[inputList[0][g[j]]] && IX_FIRST(inputList, g[j]))
//@   invariant mono: forall(j, 0, len(newList), forall(l, 0, j, g[l] < g[j]))
//@   invariant all: forall(k, 0, i, inall[inputList[0][k]] && IX_FIRST(inputList, k) ==> 0 <= pos[k] && pos[k] < len(newList) && g[pos[k]] == k)
//@ func Intersection loop 2
//@   ghostbefore hit = lami(k, oldheap(CONTAINS(inputList[k], inputList[0][i])))
//@   invariant range: 1 <= j && j <= inputLen && 0 <= matchCount && matchCount <= j-1
//@   invariant count: (matchCount == j-1) == forall(k, 1, j, hit[k])
//@   after counted: (matchCount == inputLen-1) == forall(k, 1, len(inputList), hit[k])
//@   after bridged: forall(k, 1, len(inputList), hit[k]) == oldheap(forall(k9, 1, len(inputList), CONTAINS(inputList[k9], inputList[0][i])))
//@   after unfolded: oldheap(reveal(inall, inputList[0][i]) ==> inall[inputList[0][i]] == (forall(k9, 1, len(inputList), CONTAINS(inputList[k9], inputList[0][i]))))
//@   after summary: oldheap((matchCount == inputLen-1) == inall[inputList[0][i]])
//@ func Intersection loop 3
//@   invariant range: 0 <= matchCount && matchCount <= j-1
//@   invariant count: (matchCount == j-1) == forall(k, 1, j, hit[k])
//@   invariant nomatch: oldheap(forall(l, 0, _i, inputList[j][l] != inputList[0][i]))
//@   after this-list: hit[j] == oldheap(CONTAINS(inputList[j], inputList[0][i]))
//@   after summary: 0 <= matchCount && matchCount <= j && (matchCount == j) == forall(k, 1, j+1, hit[k])
//@ twin Intersection IntersectionForInterface

//@ func Difference
//@   prop C05
//@   ghost g (Array Int Int)
//@   ghost pos (Array Int Int)
//@   ghost innone (Array Val Bool)
//@   ghost hit (Array Int Bool)
//@   ghostinit innone = lamvo(x, forall(k9, 1, len(arrList), !CONTAINS(arrList[k9], x)))
//@   requires arrList == nil || len(arrList) > 0
//@   ghostset g = ite(len(arrList) == 1, Distinct_g, g)
//@   ghostset pos = ite(len(arrList) == 1, Distinct_pos, pos)
//@   ensures def: forallv(x, reveal(innone, x) ==> innone[x] == forall(k9, 1, len(arrList), !CONTAINS(arrList[k9], x)))
//@   ensures nil: arrList == nil ==> len(r0) == 0
//@   ensures sub: arrList != nil ==> forall(j, 0, len(r0), 0 <= g[j] && g[j] < len(arrList[0]) && r0[j] == arrList[0][g[j]] && innone[arrList[0][g[j]]] && IX_FIRST(arrList, g[j]))
//@   ensures mono: forall(j, 0, len(r0), forall(l, 0, j, g[l] < g[j]))
//@   ensures all: arrList != nil ==> forall(k, 0, len(arrList[0]), innone[arrList[0][k]] && IX_FIRST(arrList, k) ==> 0 <= pos[k] && pos[k] < len(r0) && g[pos[k]] == k)
//@   ensures fresh: freshOrNil(r0)
//@ func Difference loop 0
//@   ghostset g = ite(innone[arrList[0][i]] && IX_FIRST(arrList, i), store(g, len(newList)-1, i), g)
//@   ghostset pos = ite(innone[arrList[0][i]] && IX_FIRST(arrList, i), store(pos, i, len(newList)-1), pos)
//@   invariant range: 0 <= i && i <= len(arrList[0]) && len(newList) <= i && freshOrNil(newList) && fresh(resultMap) && len(arrList) > 1
//@   invariant seen: forallv(x, has(resultMap, x) == (innone[x] && exists(l, 0, i, arrList[0][l] == x)))
//@   invariant sub: forall(j, 0, len(newList), 0 <= g[j] && g[j] < i && newList[j] == arrList[0][g[j]] && innone[arrList[0][g[j]]] && IX_FIRST(arrList, g[j]))
//@   invariant mono: forall(j, 0, len(newList), forall(l, 0, j, g[l] < g[j]))
//@   invariant all: forall(k, 0, i, innone[arrList[0][k]] && IX_FIRST(arrList, k) ==> 0 <= pos[k] && pos[k] < len(newList) && g[pos[k]] == k)
//@ func Difference loop 1
//@   ghostbefore hit = lami(k, oldheap(CONTAINS(arrList[k], arrList[0][i])))
//@   invariant range: 1 <= j && j <= len(arrList) && 0 <= matchCount
//@   invariant count: (matchCount == 0) == forall(k, 1, j, !hit[k])
//@   after counted: (matchCount == 0) == forall(k, 1, len(arrList), !hit[k])
//@   after bridged: forall(k, 1, len(arrList), !hit[k]) == oldheap(forall(k9, 1, len(arrList), !CONTAINS(arrList[k9], arrList[0][i])))
//@   after unfolded: oldheap(reveal(innone, arrList[0][i]) ==> innone[arrList[0][i]] == (forall(k9, 1, len(arrList), !CONTAINS(arrList[k9], arrList[0][i]))))
//@   after summary: oldheap((matchCount == 0) == innone[arrList[0][i]])
//@ func Difference loop 2
//@   invariant range: 0 <= matchCount
//@   invariant count: (matchCount == 0) == forall(k, 1, j, !hit[k])
//@   invariant nomatch: oldheap(forall(l, 0, _i, arrList[j][l] != arrList[0][i]))
//@   after this-list: hit[j] == oldheap(CONTAINS(arrList[j], arrList[0][i]))
//@   after summary: 0 <= matchCount && (matchCount == 0) == forall(k, 1, j+1, !hit[k])

// IntersectionMapByKey: no map -> empty; one map -> a copy; otherwise the keys present in every map, with the first map's values.
// countMap[x] = number of the maps seen so far that contain x (c0 = that count before the current map).
//@ func IntersectionMapByKey
//@   prop C05
//@   ghost c0 (Array Val Int)
//@   ensures none: len(inputList) == 0 ==> fresh(r0) && forallv(x, !has(r0, x))
//@   ensures one: len(inputList) == 1 ==> fresh(r0) && forallv(x, has(r0, x) == has(inputList[0], x)) && forallv(x, has(r0, x) ==> r0[x] == inputList[0][x])
//@   ensures in-all: len(inputList) >= 2 ==> fresh(r0) && forallv(x, has(r0, x) == forall(l, 0, len(inputList), has(inputList[l], x)))
//@   ensures first-values: len(inputList) >= 2 ==> forallv(x, has(r0, x) ==> r0[x] == inputList[0][x])
//@   ensures unchanged: forall(l, 0, len(inputList), unchangedmap(inputList[l]))
//@ func IntersectionMapByKey loop 0
//@   invariant copy: fresh(resultMap) && forallv(x, has(resultMap, x) == _visited(x)) && forallv(x, _visited(x) ==> resultMap[x] == inputList[0][x])
//@ func IntersectionMapByKey loop 1
//@   invariant maps: fresh(resultMap) && fresh(countMap) && resultMap != countMap && inputLen == len(inputList) && inputLen >= 2
//@   invariant dom: forallv(x, has(countMap, x) == exists(l, 0, _i, has(inputList[l], x))) && forallv(x, has(resultMap, x) == has(countMap, x))
//@   invariant count: forallv(x, has(countMap, x) ==> 1 <= countMap[x] && countMap[x] <= _i && ((countMap[x] == _i) == forall(l, 0, _i, has(inputList[l], x))))
//@   invariant first: forallv(x, has(resultMap, x) && has(inputList[0], x) ==> resultMap[x] == inputList[0][x])
//@ func IntersectionMapByKey loop 2
//@   ghostbefore c0 = lamv(x, ite(has(countMap, x), countMap[x], 0))
//@   invariant maps: fresh(resultMap) && fresh(countMap) && resultMap != countMap && inputLen == len(inputList) && inputLen >= 2 && mapItem == inputList[_i1] && _m == mapItem
//@   invariant before: forallv(x, 0 <= c0[x] && c0[x] <= _i1 && ((c0[x] == _i1) == forall(l, 0, _i1, has(inputList[l], x))) && ((c0[x] > 0) == exists(l, 0, _i1, has(inputList[l], x))))
//@   invariant dom: forallv(x, has(countMap, x) == (c0[x] > 0 || _visited(x))) && forallv(x, has(resultMap, x) == has(countMap, x))
//@   invariant count: forallv(x, has(countMap, x) ==> countMap[x] == c0[x] + ite(_visited(x), 1, 0))
//@   invariant first: forallv(x, has(resultMap, x) && has(inputList[0], x) ==> resultMap[x] == inputList[0][x])
//@ func IntersectionMapByKey loop 3
//@   invariant maps: fresh(resultMap) && fresh(countMap) && resultMap != countMap && inputLen == len(inputList) && inputLen >= 2 && _m == countMap
//@   invariant counted: forallv(x, has(countMap, x) == exists(l, 0, inputLen, has(inputList[l], x))) && forallv(x, has(countMap, x) ==> 1 <= countMap[x] && countMap[x] <= inputLen && ((countMap[x] == inputLen) == forall(l, 0, inputLen, has(inputList[l], x))))
//@   invariant pruned: forallv(x, has(resultMap, x) == (has(countMap, x) && !(_visited(x) && countMap[x] < inputLen)))
//@   invariant first: forallv(x, has(resultMap, x) && has(inputList[0], x) ==> resultMap[x] == inputList[0][x])
//@ twin IntersectionMapByKey IntersectionMapByKeyForInterface

// DistinctRandom: the distinct elements of the list, each once, in no particular order
//@ func DistinctRandom
//@   prop C05
//@   ensures distinct-members: fresh(r0) && forall(i, 0, len(r0), exists(l, 0, len(list), list[l] == r0[i])) && forall(i, 0, len(r0), forall(j, 0, i, r0[j] != r0[i])) && forall(l, 0, len(list), exists(i, 0, len(r0), r0[i] == list[l]))
