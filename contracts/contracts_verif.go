//go:build verif

// Contracts for package fpgo (comment-only file; compiled only under the build tag "verif", and then it is empty).
// Read by /verif/bin/govc; see /verif/DESIGN.md section 3 for the clause language.
package fpgo

// ===================================================================================================
// C02 - numeric conversions of Maybe are value-preserving or fail (bit-vector / IEEE-754 semantics)
//
// self.ref is the wrapped value; the clauses are checked once per source kind ("from=<kind>").
//   N  absent                      => (zero, ErrConversionNil)
//   S  supported and nil error     => the result is the mathematically same number (never wrapped/truncated)
//   F  value fits the target type  => nil error          (int/uint: portable 32-bit range)
//   O  value outside the target    => non-nil error
//   U  unsupported kind            => ErrConversionUnsupported

//@ func (someDef).ToInt
//@   prop C02
//@   arith bv
//@   opt split=convkinds
//@   requires wf: self.isNil == absent(self.ref) && self.isPresent == !self.isNil
//@   ensures N: self.isNil ==> r0 == 0 && r1 == ErrConversionNil
//@   ensures S: !self.isNil && convSupported(self.ref) && r1 == nil ==> convExact(r0, self.ref)
//@   ensures F: !self.isNil && convFits(self.ref, r0) ==> r1 == nil
//@   ensures O: !self.isNil && convOutside(self.ref, r0) ==> r1 != nil
//@   ensures U: !self.isNil && !convSupported(self.ref) ==> r1 == ErrConversionUnsupported
//@   ensures I: !self.isNil && convSameType(self.ref, r0) ==> r1 == nil

//@ func (someDef).ToInt8
//@   prop C02
//@   arith bv
//@   opt split=convkinds
//@   requires wf: self.isNil == absent(self.ref) && self.isPresent == !self.isNil
//@   ensures N: self.isNil ==> r0 == 0 && r1 == ErrConversionNil
//@   ensures S: !self.isNil && convSupported(self.ref) && r1 == nil ==> convExact(r0, self.ref)
//@   ensures F: !self.isNil && convFits(self.ref, r0) ==> r1 == nil
//@   ensures O: !self.isNil && convOutside(self.ref, r0) ==> r1 != nil
//@   ensures U: !self.isNil && !convSupported(self.ref) ==> r1 == ErrConversionUnsupported
//@   ensures I: !self.isNil && convSameType(self.ref, r0) ==> r1 == nil

//@ func (someDef).ToInt16
//@   prop C02
//@   arith bv
//@   opt split=convkinds
//@   requires wf: self.isNil == absent(self.ref) && self.isPresent == !self.isNil
//@   ensures N: self.isNil ==> r0 == 0 && r1 == ErrConversionNil
//@   ensures S: !self.isNil && convSupported(self.ref) && r1 == nil ==> convExact(r0, self.ref)
//@   ensures F: !self.isNil && convFits(self.ref, r0) ==> r1 == nil
//@   ensures O: !self.isNil && convOutside(self.ref, r0) ==> r1 != nil
//@   ensures U: !self.isNil && !convSupported(self.ref) ==> r1 == ErrConversionUnsupported
//@   ensures I: !self.isNil && convSameType(self.ref, r0) ==> r1 == nil

//@ func (someDef).ToInt32
//@   prop C02
//@   arith bv
//@   opt split=convkinds
//@   requires wf: self.isNil == absent(self.ref) && self.isPresent == !self.isNil
//@   ensures N: self.isNil ==> r0 == 0 && r1 == ErrConversionNil
//@   ensures S: !self.isNil && convSupported(self.ref) && r1 == nil ==> convExact(r0, self.ref)
//@   ensures F: !self.isNil && convFits(self.ref, r0) ==> r1 == nil
//@   ensures O: !self.isNil && convOutside(self.ref, r0) ==> r1 != nil
//@   ensures U: !self.isNil && !convSupported(self.ref) ==> r1 == ErrConversionUnsupported
//@   ensures I: !self.isNil && convSameType(self.ref, r0) ==> r1 == nil

//@ func (someDef).ToInt64
//@   prop C02
//@   arith bv
//@   opt split=convkinds
//@   requires wf: self.isNil == absent(self.ref) && self.isPresent == !self.isNil
//@   ensures N: self.isNil ==> r0 == 0 && r1 == ErrConversionNil
//@   ensures S: !self.isNil && convSupported(self.ref) && r1 == nil ==> convExact(r0, self.ref)
//@   ensures F: !self.isNil && convFits(self.ref, r0) ==> r1 == nil
//@   ensures O: !self.isNil && convOutside(self.ref, r0) ==> r1 != nil
//@   ensures U: !self.isNil && !convSupported(self.ref) ==> r1 == ErrConversionUnsupported
//@   ensures I: !self.isNil && convSameType(self.ref, r0) ==> r1 == nil

//@ func (someDef).ToByte
//@   prop C02
//@   arith bv
//@   opt split=convkinds
//@   requires wf: self.isNil == absent(self.ref) && self.isPresent == !self.isNil
//@   ensures N: self.isNil ==> r0 == 0 && r1 == ErrConversionNil
//@   ensures S: !self.isNil && convSupported(self.ref) && r1 == nil ==> convExact(r0, self.ref)
//@   ensures F: !self.isNil && convFits(self.ref, r0) ==> r1 == nil
//@   ensures O: !self.isNil && convOutside(self.ref, r0) ==> r1 != nil
//@   ensures U: !self.isNil && !convSupported(self.ref) ==> r1 == ErrConversionUnsupported
//@   ensures I: !self.isNil && convSameType(self.ref, r0) ==> r1 == nil

//@ func (someDef).ToUint8
//@   prop C02
//@   arith bv
//@   opt split=convkinds
//@   requires wf: self.isNil == absent(self.ref) && self.isPresent == !self.isNil
//@   ensures N: self.isNil ==> r0 == 0 && r1 == ErrConversionNil
//@   ensures S: !self.isNil && convSupported(self.ref) && r1 == nil ==> convExact(r0, self.ref)
//@   ensures F: !self.isNil && convFits(self.ref, r0) ==> r1 == nil
//@   ensures O: !self.isNil && convOutside(self.ref, r0) ==> r1 != nil
//@   ensures U: !self.isNil && !convSupported(self.ref) ==> r1 == ErrConversionUnsupported
//@   ensures I: !self.isNil && convSameType(self.ref, r0) ==> r1 == nil

//@ func (someDef).ToUint
//@   prop C02
//@   arith bv
//@   opt split=convkinds
//@   requires wf: self.isNil == absent(self.ref) && self.isPresent == !self.isNil
//@   ensures N: self.isNil ==> r0 == 0 && r1 == ErrConversionNil
//@   ensures S: !self.isNil && convSupported(self.ref) && r1 == nil ==> convExact(r0, self.ref)
//@   ensures F: !self.isNil && convFits(self.ref, r0) ==> r1 == nil
//@   ensures O: !self.isNil && convOutside(self.ref, r0) ==> r1 != nil
//@   ensures U: !self.isNil && !convSupported(self.ref) ==> r1 == ErrConversionUnsupported
//@   ensures I: !self.isNil && convSameType(self.ref, r0) ==> r1 == nil

//@ func (someDef).ToUint16
//@   prop C02
//@   arith bv
//@   opt split=convkinds
//@   requires wf: self.isNil == absent(self.ref) && self.isPresent == !self.isNil
//@   ensures N: self.isNil ==> r0 == 0 && r1 == ErrConversionNil
//@   ensures S: !self.isNil && convSupported(self.ref) && r1 == nil ==> convExact(r0, self.ref)
//@   ensures F: !self.isNil && convFits(self.ref, r0) ==> r1 == nil
//@   ensures O: !self.isNil && convOutside(self.ref, r0) ==> r1 != nil
//@   ensures U: !self.isNil && !convSupported(self.ref) ==> r1 == ErrConversionUnsupported
//@   ensures I: !self.isNil && convSameType(self.ref, r0) ==> r1 == nil

//@ func (someDef).ToUint32
//@   prop C02
//@   arith bv
//@   opt split=convkinds
//@   requires wf: self.isNil == absent(self.ref) && self.isPresent == !self.isNil
//@   ensures N: self.isNil ==> r0 == 0 && r1 == ErrConversionNil
//@   ensures S: !self.isNil && convSupported(self.ref) && r1 == nil ==> convExact(r0, self.ref)
//@   ensures F: !self.isNil && convFits(self.ref, r0) ==> r1 == nil
//@   ensures O: !self.isNil && convOutside(self.ref, r0) ==> r1 != nil
//@   ensures U: !self.isNil && !convSupported(self.ref) ==> r1 == ErrConversionUnsupported
//@   ensures I: !self.isNil && convSameType(self.ref, r0) ==> r1 == nil

//@ func (someDef).ToUint64
//@   prop C02
//@   arith bv
//@   opt split=convkinds
//@   requires wf: self.isNil == absent(self.ref) && self.isPresent == !self.isNil
//@   ensures N: self.isNil ==> r0 == 0 && r1 == ErrConversionNil
//@   ensures S: !self.isNil && convSupported(self.ref) && r1 == nil ==> convExact(r0, self.ref)
//@   ensures F: !self.isNil && convFits(self.ref, r0) ==> r1 == nil
//@   ensures O: !self.isNil && convOutside(self.ref, r0) ==> r1 != nil
//@   ensures U: !self.isNil && !convSupported(self.ref) ==> r1 == ErrConversionUnsupported
//@   ensures I: !self.isNil && convSameType(self.ref, r0) ==> r1 == nil

//@ func (someDef).ToUintptr
//@   prop C02
//@   arith bv
//@   opt split=convkinds
//@   requires wf: self.isNil == absent(self.ref) && self.isPresent == !self.isNil
//@   ensures N: self.isNil ==> r0 == 0 && r1 == ErrConversionNil
//@   ensures S: !self.isNil && convSupported(self.ref) && r1 == nil ==> convExact(r0, self.ref)
//@   ensures F: !self.isNil && convFits(self.ref, r0) ==> r1 == nil
//@   ensures O: !self.isNil && convOutside(self.ref, r0) ==> r1 != nil
//@   ensures U: !self.isNil && !convSupported(self.ref) ==> r1 == ErrConversionUnsupported
//@   ensures I: !self.isNil && convSameType(self.ref, r0) ==> r1 == nil

//@ func (someDef).ToFloat32
//@   prop C02
//@   arith bv
//@   opt split=convkinds
//@   requires wf: self.isNil == absent(self.ref) && self.isPresent == !self.isNil
//@   ensures N: self.isNil ==> r0 == 0 && r1 == ErrConversionNil
//@   ensures S: !self.isNil && convSupported(self.ref) && r1 == nil ==> convExact(r0, self.ref)
//@   ensures F: !self.isNil && convFits(self.ref, r0) ==> r1 == nil
//@   ensures O: !self.isNil && convOutside(self.ref, r0) ==> r1 != nil
//@   ensures U: !self.isNil && !convSupported(self.ref) ==> r1 == ErrConversionUnsupported
//@   ensures I: !self.isNil && convSameType(self.ref, r0) ==> r1 == nil

//@ func (someDef).ToFloat64
//@   prop C02
//@   arith bv
//@   opt split=convkinds
//@   requires wf: self.isNil == absent(self.ref) && self.isPresent == !self.isNil
//@   ensures N: self.isNil ==> r0 == 0 && r1 == ErrConversionNil
//@   ensures S: !self.isNil && convSupported(self.ref) && r1 == nil ==> convExact(r0, self.ref)
//@   ensures F: !self.isNil && convFits(self.ref, r0) ==> r1 == nil
//@   ensures O: !self.isNil && convOutside(self.ref, r0) ==> r1 != nil
//@   ensures U: !self.isNil && !convSupported(self.ref) ==> r1 == ErrConversionUnsupported
//@   ensures I: !self.isNil && convSameType(self.ref, r0) ==> r1 == nil

//@ func (someDef).ToBool
//@   prop C02
//@   arith bv
//@   opt split=convkinds
//@   requires wf: self.isNil == absent(self.ref) && self.isPresent == !self.isNil
//@   ensures N: self.isNil ==> r0 == false && r1 == ErrConversionNil
//@   ensures B: !self.isNil && convSupported(self.ref) && r1 == nil ==> convBool(r0, self.ref)
//@   ensures F: !self.isNil && convSupported(self.ref) && !convIsString(self.ref) ==> r1 == nil
//@   ensures U: !self.isNil && !convSupported(self.ref) ==> r1 == ErrConversionUnsupported
//@   ensures I: !self.isNil && convSameType(self.ref, r0) ==> r1 == nil

// ===================================================================================================
// C03 - slice / map helpers equal their definitions (mathematical integers; element type abstract)
//
// Conventions: seq-valued results are described index by index; "fresh(r0)" = storage allocated by this call;
// "unchanged(x)" = the input sequence reads the same afterwards. Callbacks are pure functions.

//@ func Map
//@   prop C03
//@   ensures len: len(r0) == len(values)
//@   ensures elems: forall(i, 0, len(values), r0[i] == fn(values[i]))
//@   ensures fresh: fresh(r0)
//@   ensures unchanged: unchanged(values)
//@ func Map loop 0
//@   invariant len: len(result) == len(values)
//@   invariant fresh: fresh(result)
//@   invariant prefix: forall(j, 0, _i, result[j] == fn(values[j]))

//@ func MapIndexed
//@   prop C03
//@   ensures len: len(r0) == len(values)
//@   ensures elems: forall(i, 0, len(values), r0[i] == fn(values[i], i))
//@   ensures fresh: fresh(r0)
//@   ensures unchanged: unchanged(values)
//@ func MapIndexed loop 0
//@   invariant len: len(result) == len(values)
//@   invariant fresh: fresh(result)
//@   invariant prefix: forall(j, 0, _i, result[j] == fn(values[j], j))

//@ func Reverse
//@   prop C03
//@   ensures len: len(r0) == len(list)
//@   ensures elems: forall(i, 0, len(list), r0[i] == list[len(list)-1-i])
//@   ensures fresh: fresh(r0)
//@   ensures unchanged: unchanged(list)
//@ func Reverse loop 0
//@   invariant range: 0 <= i && i <= len(list)
//@   invariant len: len(newList) == len(list)
//@   invariant fresh: fresh(newList)
//@   invariant prefix: forall(j, 0, i, newList[j] == list[len(list)-1-j])

//@ func Drop
//@   prop C03
//@   ensures none: count <= 0 ==> r0 == list
//@   ensures all: count >= len(list) && count > 0 ==> len(r0) == 0
//@   ensures some: count > 0 && count < len(list) ==> len(r0) == len(list) - count && forall(i, 0, len(r0), r0[i] == list[count+i])
//@   ensures unchanged: unchanged(list)

//@ func DropLast
//@   prop C03
//@   ensures none: count <= 0 ==> r0 == list
//@   ensures all: count >= len(list) && count > 0 ==> len(r0) == 0
//@   ensures some: count > 0 && count < len(list) ==> len(r0) == len(list) - count && forall(i, 0, len(r0), r0[i] == list[i])
//@   ensures unchanged: unchanged(list)

//@ func Take
//@   prop C03
//@   ensures some: count > 0 && count < len(list) ==> len(r0) == count && forall(i, 0, count, r0[i] == list[i])
//@   ensures all: count >= len(list) ==> r0 == list
//@   ensures corner: count <= 0 ==> r0 == list || len(r0) == 0
//@   ensures unchanged: unchanged(list)

//@ func TakeLast
//@   prop C03
//@   ensures some: count > 0 && count < len(list) ==> len(r0) == count && forall(i, 0, count, r0[i] == list[len(list)-count+i])
//@   ensures all: count >= len(list) ==> r0 == list
//@   ensures corner: count <= 0 ==> r0 == list || len(r0) == 0
//@   ensures unchanged: unchanged(list)

//@ func Head
//@   prop C03
//@   ensures some: len(list) > 0 ==> r0 == list[0]
//@   ensures unchanged: unchanged(list)

//@ func Tail
//@   prop C03
//@   ensures empty: len(list) <= 1 ==> len(r0) == 0
//@   ensures some: len(list) > 1 ==> len(r0) == len(list) - 1 && forall(i, 0, len(r0), r0[i] == list[i+1])
//@   ensures unchanged: unchanged(list)

// Filter-like results are characterised by two ghost index maps (existential witnesses):
//   g[j]   = index in the input of the j-th element of the result (strictly increasing),
//   pos[k] = position in the result of input element k, for every k that is kept.
// Together the three clauses sub/mono/all determine the result uniquely: it is the subsequence of exactly the kept elements, in order.

//@ func Filter
//@   prop C03
//@   ghost g (Array Int Int)
//@   ghost pos (Array Int Int)
//@   ensures sub: forall(j, 0, len(r0), 0 <= g[j] && g[j] < len(input) && r0[j] == input[g[j]] && fn(input[g[j]], g[j]))
//@   ensures mono: forall(j, 0, len(r0), forall(l, 0, j, g[l] < g[j]))
//@   ensures all: forall(k, 0, len(input), fn(input[k], k) ==> 0 <= pos[k] && pos[k] < len(r0) && g[pos[k]] == k)
//@   ensures fresh: fresh(r0)
//@   ensures unchanged: unchanged(input)
//@ func Filter loop 0
//@   ghostset g = ite(fn(input[_i], _i), store(g, newLen-1, _i), g)
//@   ghostset pos = ite(fn(input[_i], _i), store(pos, _i, newLen-1), pos)
//@   invariant n: 0 <= newLen && newLen <= _i
//@   invariant len: len(list) == len(input) && fresh(list)
//@   invariant sub: forall(j, 0, newLen, 0 <= g[j] && g[j] < _i && list[j] == input[g[j]] && fn(input[g[j]], g[j]))
//@   invariant mono: forall(j, 0, newLen, forall(l, 0, j, g[l] < g[j]))
//@   invariant all: forall(k, 0, _i, fn(input[k], k) ==> 0 <= pos[k] && pos[k] < newLen && g[pos[k]] == k)

// Reduce: the ghost sequence m of intermediate accumulators witnesses the left fold.
//@ func Reduce
//@   prop C03
//@   ghost m (Array Int Val)
//@   ghostinit m = store(m, 0, memo)
//@   ensures fold: m[0] == old(memo) && forall(k, 0, len(input), m[k+1] == fn(m[k], input[k])) && r0 == m[len(input)]
//@   ensures unchanged: unchanged(input)
//@ func Reduce loop 0
//@   ghostset m = store(m, i+1, memo)
//@   invariant range: 0 <= i && i <= len(input)
//@   invariant acc: m[0] == old(memo) && memo == m[i]
//@   invariant steps: forall(k, 0, i, m[k+1] == fn(m[k], input[k]))

//@ func ReduceIndexed
//@   prop C03
//@   ghost m (Array Int Val)
//@   ghostinit m = store(m, 0, memo)
//@   ensures fold: m[0] == old(memo) && forall(k, 0, len(input), m[k+1] == fn(m[k], input[k], k)) && r0 == m[len(input)]
//@   ensures unchanged: unchanged(input)
//@ func ReduceIndexed loop 0
//@   ghostset m = store(m, i+1, memo)
//@   invariant range: 0 <= i && i <= len(input)
//@   invariant acc: m[0] == old(memo) && memo == m[i]
//@   invariant steps: forall(k, 0, i, m[k+1] == fn(m[k], input[k], k))

//@ func Reject
//@   prop C03
//@   ghost g (Array Int Int)
//@   ghost pos (Array Int Int)
//@   ghostset g = Filter_g
//@   ghostset pos = Filter_pos
//@   ensures sub: forall(j, 0, len(r0), 0 <= g[j] && g[j] < len(input) && r0[j] == input[g[j]] && !fn(input[g[j]], g[j]))
//@   ensures mono: forall(j, 0, len(r0), forall(l, 0, j, g[l] < g[j]))
//@   ensures all: forall(k, 0, len(input), !fn(input[k], k) ==> 0 <= pos[k] && pos[k] < len(r0) && g[pos[k]] == k)
//@   ensures fresh: fresh(r0)
//@   ensures unchanged: unchanged(input)

//@ func Exists
//@   prop C03
//@   ensures def: r0 == exists(i, 0, len(list), list[i] == input)
//@   ensures unchanged: unchanged(list)
//@ func Exists loop 0
//@   invariant none: forall(j, 0, _i, list[j] != input)

//@ func Every
//@   prop C03
//@   ensures def: r0 == (f != nil && len(list) > 0 && forall(i, 0, len(list), f(list[i])))
//@   ensures unchanged: unchanged(list)
//@ func Every loop 0
//@   invariant all: forall(j, 0, _i, f(list[j]))

//@ func Some
//@   prop C03
//@   ensures def: r0 == (f != nil && exists(i, 0, len(list), f(list[i])))
//@   ensures unchanged: unchanged(list)
//@ func Some loop 0
//@   invariant none: forall(j, 0, _i, !f(list[j]))

//@ func IsEqual
//@   prop C03
//@   ensures def: len(list1) > 0 || len(list2) > 0 ==> r0 == (len(list1) == len(list2) && forall(i, 0, len(list1), list1[i] == list2[i]))
//@   ensures unchanged: unchanged(list1) && unchanged(list2)
//@ func IsEqual loop 0
//@   invariant range: 0 <= i && i <= len1
//@   invariant same: forall(j, 0, i, list1[j] == list2[j])

//@ func Min
//@   prop C03
//@   ensures empty: len(list) == 0 ==> r0 == 0
//@   ensures member: len(list) > 0 ==> exists(i, 0, len(list), list[i] == r0)
//@   ensures bound: forall(i, 0, len(list), r0 <= list[i])
//@   ensures unchanged: unchanged(list)
//@ func Min loop 0
//@   invariant member: exists(j, 0, len(list), list[j] == result)
//@   invariant bound: forall(j, 0, _i, result <= list[j])

//@ func Max
//@   prop C03
//@   ensures empty: len(list) == 0 ==> r0 == 0
//@   ensures member: len(list) > 0 ==> exists(i, 0, len(list), list[i] == r0)
//@   ensures bound: forall(i, 0, len(list), r0 >= list[i])
//@   ensures unchanged: unchanged(list)
//@ func Max loop 0
//@   invariant member: exists(j, 0, len(list), list[j] == result)
//@   invariant bound: forall(j, 0, _i, result >= list[j])

//@ func MinMax
//@   prop C03
//@   ensures empty: len(list) == 0 ==> r0 == 0 && r1 == 0
//@   ensures member: len(list) > 0 ==> exists(i, 0, len(list), list[i] == r0) && exists(i, 0, len(list), list[i] == r1)
//@   ensures bound: forall(i, 0, len(list), r0 <= list[i] && list[i] <= r1)
//@   ensures unchanged: unchanged(list)
//@ func MinMax loop 0
//@   invariant member: exists(j, 0, len(list), list[j] == min) && exists(j, 0, len(list), list[j] == max)
//@   invariant bound: forall(j, 0, _i, min <= list[j] && list[j] <= max)
//@   invariant order: min <= max

//@ func DropEq
//@   prop C03
//@   ghost g (Array Int Int)
//@   ghost pos (Array Int Int)
//@   ensures sub: forall(j, 0, len(r0), 0 <= g[j] && g[j] < len(list) && r0[j] == list[g[j]] && list[g[j]] != num)
//@   ensures mono: forall(j, 0, len(r0), forall(l, 0, j, g[l] < g[j]))
//@   ensures all: forall(k, 0, len(list), list[k] != num ==> 0 <= pos[k] && pos[k] < len(r0) && g[pos[k]] == k)
//@   ensures fresh: freshOrNil(r0)
//@   ensures unchanged: unchanged(list)
//@ func DropEq loop 0
//@   ghostset g = ite(list[_i] != num, store(g, len(newList)-1, _i), g)
//@   ghostset pos = ite(list[_i] != num, store(pos, _i, len(newList)-1), pos)
//@   invariant n: len(newList) <= _i && freshOrNil(newList)
//@   invariant sub: forall(j, 0, len(newList), 0 <= g[j] && g[j] < _i && newList[j] == list[g[j]] && list[g[j]] != num)
//@   invariant mono: forall(j, 0, len(newList), forall(l, 0, j, g[l] < g[j]))
//@   invariant all: forall(k, 0, _i, list[k] != num ==> 0 <= pos[k] && pos[k] < len(newList) && g[pos[k]] == k)

//@ func Dedupe
//@   prop C03
//@   ghost g (Array Int Int)
//@   ghost pos (Array Int Int)
//@   ensures sub: forall(j, 0, len(r0), 0 <= g[j] && g[j] < len(list) && r0[j] == list[g[j]] && !(g[j]+1 < len(list) && list[g[j]] == list[g[j]+1]))
//@   ensures mono: forall(j, 0, len(r0), forall(l, 0, j, g[l] < g[j]))
//@   ensures all: forall(k, 0, len(list), !(k+1 < len(list) && list[k] == list[k+1]) ==> 0 <= pos[k] && pos[k] < len(r0) && g[pos[k]] == k)
//@   ensures fresh: freshOrNil(r0)
//@   ensures unchanged: unchanged(list)
//@ func Dedupe loop 0
//@   ghostset g = ite(!(i+1 < lenList && list[i] == list[i+1]), store(g, len(newList)-1, i), g)
//@   ghostset pos = ite(!(i+1 < lenList && list[i] == list[i+1]), store(pos, i, len(newList)-1), pos)
//@   invariant range: 0 <= i && i <= lenList && lenList == len(list)
//@   invariant n: len(newList) <= i && freshOrNil(newList)
//@   invariant sub: forall(j, 0, len(newList), 0 <= g[j] && g[j] < i && newList[j] == list[g[j]] && !(g[j]+1 < len(list) && list[g[j]] == list[g[j]+1]))
//@   invariant mono: forall(j, 0, len(newList), forall(l, 0, j, g[l] < g[j]))
//@   invariant all: forall(k, 0, i, !(k+1 < len(list) && list[k] == list[k+1]) ==> 0 <= pos[k] && pos[k] < len(newList) && g[pos[k]] == k)

//@ func DropWhile
//@   prop C03
//@   ensures nilf: f == nil ==> len(r0) == 0
//@   ensures cut: f != nil ==> len(r0) <= len(list) && forall(j, 0, len(list)-len(r0), f(list[j])) && (len(r0) > 0 ==> !f(list[len(list)-len(r0)]))
//@   ensures suffix: f != nil ==> forall(j, 0, len(r0), r0[j] == list[len(list)-len(r0)+j])
//@   ensures fresh: freshOrNil(r0)
//@   ensures unchanged: unchanged(list)
//@ func DropWhile loop 0
//@   invariant prefix: forall(j, 0, _i, f(list[j]))
//@   invariant nothing: len(newList) == 0 && newList == nil
//@ func DropWhile loop 1
//@   invariant shape: 0 <= j && j <= len(newList) && len(newList) <= listLen && listLen == len(list) && i == listLen - len(newList) + j && fresh(newList) && len(newList) > 0
//@   invariant prefix: forall(l, 0, listLen - len(newList), f(list[l])) && !f(list[listLen - len(newList)])
//@   invariant copied: forall(l, 0, j, newList[l] == list[listLen - len(newList) + l])

//@ func Prepend
//@   prop C03
//@   ensures len: len(r0) == len(list) + 1
//@   ensures head: r0[0] == element
//@   ensures tail: forall(i, 0, len(list), r0[i+1] == list[i])
//@   ensures fresh: fresh(r0)
//@   ensures unchanged: unchanged(list)

//@ func DuplicateSlice
//@   prop C03
//@   ensures same: seqeq(r0, list)
//@   ensures fresh: fresh(r0)
//@   ensures unchanged: unchanged(list)
