//go:build verif

// Contracts for package fpgo (comment-only file; compiled only under the build tag "verif", and then it is empty).
// Read by /verif/bin/govc; see /verif/DESIGN.md section 3 for the clause language.
package fpgo

// ===================================================================================================
// C02 - numeric conversions of Maybe are value-preserving or fail (bit-vector / IEEE-754 semantics)
//
// self.ref is the wrapped value; the clauses are checked once per source kind ("from=<kind>").
//   N  absent                      => (zero, ErrConversionNil)
//   S  supported and nil error     => the result is the mathematically same number (never wrapped/truncated)
//   F  value fits the target type  => nil error          (int/uint: portable 32-bit range)
//   O  value outside the target    => non-nil error
//   U  unsupported kind            => ErrConversionUnsupported

//@ func (someDef).ToInt
//@   prop C02
//@   arith bv
//@   opt split=convkinds
//@   requires wf: self.isNil == absent(self.ref) && self.isPresent == !self.isNil
//@   ensures N: self.isNil ==> r0 == 0 && r1 == ErrConversionNil
//@   ensures S: !self.isNil && convSupported(self.ref) && r1 == nil ==> convExact(r0, self.ref)
//@   ensures F: !self.isNil && convFits(self.ref, r0) ==> r1 == nil
//@   ensures O: !self.isNil && convOutside(self.ref, r0) ==> r1 != nil
//@   ensures U: !self.isNil && !convSupported(self.ref) ==> r1 == ErrConversionUnsupported
//@   ensures I: !self.isNil && convSameType(self.ref, r0) ==> r1 == nil

//@ func (someDef).ToInt8
//@   prop C02
//@   arith bv
//@   opt split=convkinds
//@   requires wf: self.isNil == absent(self.ref) && self.isPresent == !self.isNil
//@   ensures N: self.isNil ==> r0 == 0 && r1 == ErrConversionNil
//@   ensures S: !self.isNil && convSupported(self.ref) && r1 == nil ==> convExact(r0, self.ref)
//@   ensures F: !self.isNil && convFits(self.ref, r0) ==> r1 == nil
//@   ensures O: !self.isNil && convOutside(self.ref, r0) ==> r1 != nil
//@   ensures U: !self.isNil && !convSupported(self.ref) ==> r1 == ErrConversionUnsupported
//@   ensures I: !self.isNil && convSameType(self.ref, r0) ==> r1 == nil

//@ func (someDef).ToInt16
//@   prop C02
//@   arith bv
//@   opt split=convkinds
//@   requires wf: self.isNil == absent(self.ref) && self.isPresent == !self.isNil
//@   ensures N: self.isNil ==> r0 == 0 && r1 == ErrConversionNil
//@   ensures S: !self.isNil && convSupported(self.ref) && r1 == nil ==> convExact(r0, self.ref)
//@   ensures F: !self.isNil && convFits(self.ref, r0) ==> r1 == nil
//@   ensures O: !self.isNil && convOutside(self.ref, r0) ==> r1 != nil
//@   ensures U: !self.isNil && !convSupported(self.ref) ==> r1 == ErrConversionUnsupported
//@   ensures I: !self.isNil && convSameType(self.ref, r0) ==> r1 == nil

//@ func (someDef).ToInt32
//@   prop C02
//@   arith bv
//@   opt split=convkinds
//@   requires wf: self.isNil == absent(self.ref) && self.isPresent == !self.isNil
//@   ensures N: self.isNil ==> r0 == 0 && r1 == ErrConversionNil
//@   ensures S: !self.isNil && convSupported(self.ref) && r1 == nil ==> convExact(r0, self.ref)
//@   ensures F: !self.isNil && convFits(self.ref, r0) ==> r1 == nil
//@   ensures O: !self.isNil && convOutside(self.ref, r0) ==> r1 != nil
//@   ensures U: !self.isNil && !convSupported(self.ref) ==> r1 == ErrConversionUnsupported
//@   ensures I: !self.isNil && convSameType(self.ref, r0) ==> r1 == nil

//@ func (someDef).ToInt64
//@   prop C02
//@   arith bv
//@   opt split=convkinds
//@   requires wf: self.isNil == absent(self.ref) && self.isPresent == !self.isNil
//@   ensures N: self.isNil ==> r0 == 0 && r1 == ErrConversionNil
//@   ensures S: !self.isNil && convSupported(self.ref) && r1 == nil ==> convExact(r0, self.ref)
//@   ensures F: !self.isNil && convFits(self.ref, r0) ==> r1 == nil
//@   ensures O: !self.isNil && convOutside(self.ref, r0) ==> r1 != nil
//@   ensures U: !self.isNil && !convSupported(self.ref) ==> r1 == ErrConversionUnsupported
//@   ensures I: !self.isNil && convSameType(self.ref, r0) ==> r1 == nil

//@ func (someDef).ToByte
//@   prop C02
//@   arith bv
//@   opt split=convkinds
//@   requires wf: self.isNil == absent(self.ref) && self.isPresent == !self.isNil
//@   ensures N: self.isNil ==> r0 == 0 && r1 == ErrConversionNil
//@   ensures S: !self.isNil && convSupported(self.ref) && r1 == nil ==> convExact(r0, self.ref)
//@   ensures F: !self.isNil && convFits(self.ref, r0) ==> r1 == nil
//@   ensures O: !self.isNil && convOutside(self.ref, r0) ==> r1 != nil
//@   ensures U: !self.isNil && !convSupported(self.ref) ==> r1 == ErrConversionUnsupported
//@   ensures I: !self.isNil && convSameType(self.ref, r0) ==> r1 == nil

//@ func (someDef).ToUint8
//@   prop C02
//@   arith bv
//@   opt split=convkinds
//@   requires wf: self.isNil == absent(self.ref) && self.isPresent == !self.isNil
//@   ensures N: self.isNil ==> r0 == 0 && r1 == ErrConversionNil
//@   ensures S: !self.isNil && convSupported(self.ref) && r1 == nil ==> convExact(r0, self.ref)
//@   ensures F: !self.isNil && convFits(self.ref, r0) ==> r1 == nil
//@   ensures O: !self.isNil && convOutside(self.ref, r0) ==> r1 != nil
//@   ensures U: !self.isNil && !convSupported(self.ref) ==> r1 == ErrConversionUnsupported
//@   ensures I: !self.isNil && convSameType(self.ref, r0) ==> r1 == nil

//@ func (someDef).ToUint
//@   prop C02
//@   arith bv
//@   opt split=convkinds
//@   requires wf: self.isNil == absent(self.ref) && self.isPresent == !self.isNil
//@   ensures N: self.isNil ==> r0 == 0 && r1 == ErrConversionNil
//@   ensures S: !self.isNil && convSupported(self.ref) && r1 == nil ==> convExact(r0, self.ref)
//@   ensures F: !self.isNil && convFits(self.ref, r0) ==> r1 == nil
//@   ensures O: !self.isNil && convOutside(self.ref, r0) ==> r1 != nil
//@   ensures U: !self.isNil && !convSupported(self.ref) ==> r1 == ErrConversionUnsupported
//@   ensures I: !self.isNil && convSameType(self.ref, r0) ==> r1 == nil

//@ func (someDef).ToUint16
//@   prop C02
//@   arith bv
//@   opt split=convkinds
//@   requires wf: self.isNil == absent(self.ref) && self.isPresent == !self.isNil
//@   ensures N: self.isNil ==> r0 == 0 && r1 == ErrConversionNil
//@   ensures S: !self.isNil && convSupported(self.ref) && r1 == nil ==> convExact(r0, self.ref)
//@   ensures F: !self.isNil && convFits(self.ref, r0) ==> r1 == nil
//@   ensures O: !self.isNil && convOutside(self.ref, r0) ==> r1 != nil
//@   ensures U: !self.isNil && !convSupported(self.ref) ==> r1 == ErrConversionUnsupported
//@   ensures I: !self.isNil && convSameType(self.ref, r0) ==> r1 == nil

//@ func (someDef).ToUint32
//@   prop C02
//@   arith bv
//@   opt split=convkinds
//@   requires wf: self.isNil == absent(self.ref) && self.isPresent == !self.isNil
//@   ensures N: self.isNil ==> r0 == 0 && r1 == ErrConversionNil
//@   ensures S: !self.isNil && convSupported(self.ref) && r1 == nil ==> convExact(r0, self.ref)
//@   ensures F: !self.isNil && convFits(self.ref, r0) ==> r1 == nil
//@   ensures O: !self.isNil && convOutside(self.ref, r0) ==> r1 != nil
//@   ensures U: !self.isNil && !convSupported(self.ref) ==> r1 == ErrConversionUnsupported
//@   ensures I: !self.isNil && convSameType(self.ref, r0) ==> r1 == nil

//@ func (someDef).ToUint64
//@   prop C02
//@   arith bv
//@   opt split=convkinds
//@   requires wf: self.isNil == absent(self.ref) && self.isPresent == !self.isNil
//@   ensures N: self.isNil ==> r0 == 0 && r1 == ErrConversionNil
//@   ensures S: !self.isNil && convSupported(self.ref) && r1 == nil ==> convExact(r0, self.ref)
//@   ensures F: !self.isNil && convFits(self.ref, r0) ==> r1 == nil
//@   ensures O: !self.isNil && convOutside(self.ref, r0) ==> r1 != nil
//@   ensures U: !self.isNil && !convSupported(self.ref) ==> r1 == ErrConversionUnsupported
//@   ensures I: !self.isNil && convSameType(self.ref, r0) ==> r1 == nil

//@ func (someDef).ToUintptr
//@   prop C02
//@   arith bv
//@   opt split=convkinds
//@   requires wf: self.isNil == absent(self.ref) && self.isPresent == !self.isNil
//@   ensures N: self.isNil ==> r0 == 0 && r1 == ErrConversionNil
//@   ensures S: !self.isNil && convSupported(self.ref) && r1 == nil ==> convExact(r0, self.ref)
//@   ensures F: !self.isNil && convFits(self.ref, r0) ==> r1 == nil
//@   ensures O: !self.isNil && convOutside(self.ref, r0) ==> r1 != nil
//@   ensures U: !self.isNil && !convSupported(self.ref) ==> r1 == ErrConversionUnsupported
//@   ensures I: !self.isNil && convSameType(self.ref, r0) ==> r1 == nil

//@ func (someDef).ToFloat32
//@   prop C02
//@   arith bv
//@   opt split=convkinds
//@   requires wf: self.isNil == absent(self.ref) && self.isPresent == !self.isNil
//@   ensures N: self.isNil ==> r0 == 0 && r1 == ErrConversionNil
//@   ensures S: !self.isNil && convSupported(self.ref) && r1 == nil ==> convExact(r0, self.ref)
//@   ensures F: !self.isNil && convFits(self.ref, r0) ==> r1 == nil
//@   ensures O: !self.isNil && convOutside(self.ref, r0) ==> r1 != nil
//@   ensures U: !self.isNil && !convSupported(self.ref) ==> r1 == ErrConversionUnsupported
//@   ensures I: !self.isNil && convSameType(self.ref, r0) ==> r1 == nil

//@ func (someDef).ToFloat64
//@   prop C02
//@   arith bv
//@   opt split=convkinds
//@   requires wf: self.isNil == absent(self.ref) && self.isPresent == !self.isNil
//@   ensures N: self.isNil ==> r0 == 0 && r1 == ErrConversionNil
//@   ensures S: !self.isNil && convSupported(self.ref) && r1 == nil ==> convExact(r0, self.ref)
//@   ensures F: !self.isNil && convFits(self.ref, r0) ==> r1 == nil
//@   ensures O: !self.isNil && convOutside(self.ref, r0) ==> r1 != nil
//@   ensures U: !self.isNil && !convSupported(self.ref) ==> r1 == ErrConversionUnsupported
//@   ensures I: !self.isNil && convSameType(self.ref, r0) ==> r1 == nil

//@ func (someDef).ToBool
//@   prop C02
//@   arith bv
//@   opt split=convkinds
//@   requires wf: self.isNil == absent(self.ref) && self.isPresent == !self.isNil
//@   ensures N: self.isNil ==> r0 == false && r1 == ErrConversionNil
//@   ensures B: !self.isNil && convSupported(self.ref) && r1 == nil ==> convBool(r0, self.ref)
//@   ensures F: !self.isNil && convSupported(self.ref) && !convIsString(self.ref) ==> r1 == nil
//@   ensures U: !self.isNil && !convSupported(self.ref) ==> r1 == ErrConversionUnsupported
//@   ensures I: !self.isNil && convSameType(self.ref, r0) ==> r1 == nil
