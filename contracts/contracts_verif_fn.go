//go:build verif

// Contracts for package fpgo, part 5: combinators and pattern matching (C20), sorting (C19).
package fpgo

// ===================================================================================================
// C20 - Compose / Pipe: over the ghost event trace (one event per call of a user function value: tr_fn = the function,
// tr_arg = its (boxed) argument list, tr_res = its (boxed) result list).  Building a composition calls nothing; applying
// Compose(f0..fn-1) to s calls fn-1, ..., f0 - each exactly once, in that order, the first on s, every later one on the
// previous result - and returns the last result.  Pipe is the same with the order f0, ..., fn-1.

//@ func Compose
//@   prop C20
//@   opt callbacks=effectful
//@   opt effects=trace
//@   opt returns-lit=0
//@   ensures lazy: tr_len == old(tr_len)
//@ func Compose lit 0
//@   prop C20
//@   opt callbacks=effectful
//@   opt effects=trace
//@   decreases len(fnList)
//@   requires len(fnList) >= 1 && forall(k, 0, len(fnList), fnList[k] != nil)
//@   ensures count: tr_len == old(tr_len) + len(fnList)
//@   ensures order: forall(k, 0, len(fnList), tr_kind[old(tr_len)+k] == 1 && tr_fn[old(tr_len)+k] == fnList[len(fnList)-1-k])
//@   ensures first-arg: tr_arg[old(tr_len)] == boxed(s)
//@   ensures chain: forall(k, 1, len(fnList), tr_arg[old(tr_len)+k] == tr_res[old(tr_len)+k-1])
//@   ensures value: boxed(r0) == tr_res[old(tr_len)+len(fnList)-1]

//@ func ComposeInterface
//@   prop C20
//@   opt callbacks=effectful
//@   opt effects=trace
//@   opt returns-lit=Compose:0
//@   ensures lazy: tr_len == old(tr_len)

//@ func Pipe
//@   prop C20
//@   opt callbacks=effectful
//@   opt effects=trace
//@   opt returns-lit=0
//@   ensures lazy: tr_len == old(tr_len)
//@ func Pipe lit 0
//@   prop C20
//@   opt callbacks=effectful
//@   opt effects=trace
//@   decreases len(fnList)
//@   requires len(fnList) >= 1 && forall(k, 0, len(fnList), fnList[k] != nil)
//@   ensures count: tr_len == old(tr_len) + len(fnList)
//@   ensures order: forall(k, 0, len(fnList), tr_kind[old(tr_len)+k] == 1 && tr_fn[old(tr_len)+k] == fnList[k])
//@   ensures first-arg: tr_arg[old(tr_len)] == boxed(s)
//@   ensures chain: forall(k, 1, len(fnList), tr_arg[old(tr_len)+k] == tr_res[old(tr_len)+k-1])
//@   ensures value: boxed(r0) == tr_res[old(tr_len)+len(fnList)-1]

//@ func PipeInterface
//@   prop C20
//@   opt callbacks=effectful
//@   opt effects=trace
//@   opt returns-lit=Pipe:0
//@   ensures lazy: tr_len == old(tr_len)

// ===================================================================================================
// C20 - adapters: building one calls nothing; applying it calls the wrapped function exactly once with exactly the bound
// and supplied arguments, in order (tr_args[e][k] = k-th argument of event e as passed; a variadic tail passed as xs... is one
// slice value), and returns exactly its results, in order.

//@ func MakeVariadicParam1
//@   prop C20
//@   opt callbacks=effectful
//@   opt effects=trace
//@   opt returns-lit=0
//@   ensures lazy: tr_len == old(tr_len)
//@ func MakeVariadicParam1 lit 0
//@   prop C20
//@   opt callbacks=effectful
//@   opt effects=trace
//@   requires fn != nil && len(args) >= 1
//@   ensures once: tr_len == old(tr_len)+1 && tr_kind[old(tr_len)] == 1 && tr_fn[old(tr_len)] == fn
//@   ensures args-in-order: tr_args[old(tr_len)][0] == args[0]
//@   ensures value: boxed(r0) == tr_ress[old(tr_len)][0]

//@ func MakeVariadicParam2
//@   prop C20
//@   opt callbacks=effectful
//@   opt effects=trace
//@   opt returns-lit=0
//@   ensures lazy: tr_len == old(tr_len)
//@ func MakeVariadicParam2 lit 0
//@   prop C20
//@   opt callbacks=effectful
//@   opt effects=trace
//@   requires fn != nil && len(args) >= 2
//@   ensures once: tr_len == old(tr_len)+1 && tr_kind[old(tr_len)] == 1 && tr_fn[old(tr_len)] == fn
//@   ensures args-in-order: tr_args[old(tr_len)][0] == args[0] && tr_args[old(tr_len)][1] == args[1]
//@   ensures value: boxed(r0) == tr_ress[old(tr_len)][0]

//@ func MakeVariadicParam3
//@   prop C20
//@   opt callbacks=effectful
//@   opt effects=trace
//@   opt returns-lit=0
//@   ensures lazy: tr_len == old(tr_len)
//@ func MakeVariadicParam3 lit 0
//@   prop C20
//@   opt callbacks=effectful
//@   opt effects=trace
//@   requires fn != nil && len(args) >= 3
//@   ensures once: tr_len == old(tr_len)+1 && tr_kind[old(tr_len)] == 1 && tr_fn[old(tr_len)] == fn
//@   ensures args-in-order: tr_args[old(tr_len)][0] == args[0] && tr_args[old(tr_len)][1] == args[1] && tr_args[old(tr_len)][2] == args[2]
//@   ensures value: boxed(r0) == tr_ress[old(tr_len)][0]

//@ func MakeVariadicParam4
//@   prop C20
//@   opt callbacks=effectful
//@   opt effects=trace
//@   opt returns-lit=0
//@   ensures lazy: tr_len == old(tr_len)
//@ func MakeVariadicParam4 lit 0
//@   prop C20
//@   opt callbacks=effectful
//@   opt effects=trace
//@   requires fn != nil && len(args) >= 4
//@   ensures once: tr_len == old(tr_len)+1 && tr_kind[old(tr_len)] == 1 && tr_fn[old(tr_len)] == fn
//@   ensures args-in-order: tr_args[old(tr_len)][0] == args[0] && tr_args[old(tr_len)][1] == args[1] && tr_args[old(tr_len)][2] == args[2] && tr_args[old(tr_len)][3] == args[3]
//@   ensures value: boxed(r0) == tr_ress[old(tr_len)][0]

//@ func MakeVariadicParam5
//@   prop C20
//@   opt callbacks=effectful
//@   opt effects=trace
//@   opt returns-lit=0
//@   ensures lazy: tr_len == old(tr_len)
//@ func MakeVariadicParam5 lit 0
//@   prop C20
//@   opt callbacks=effectful
//@   opt effects=trace
//@   requires fn != nil && len(args) >= 5
//@   ensures once: tr_len == old(tr_len)+1 && tr_kind[old(tr_len)] == 1 && tr_fn[old(tr_len)] == fn
//@   ensures args-in-order: tr_args[old(tr_len)][0] == args[0] && tr_args[old(tr_len)][1] == args[1] && tr_args[old(tr_len)][2] == args[2] && tr_args[old(tr_len)][3] == args[3] && tr_args[old(tr_len)][4] == args[4]
//@   ensures value: boxed(r0) == tr_ress[old(tr_len)][0]

//@ func MakeVariadicParam6
//@   prop C20
//@   opt callbacks=effectful
//@   opt effects=trace
//@   opt returns-lit=0
//@   ensures lazy: tr_len == old(tr_len)
//@ func MakeVariadicParam6 lit 0
//@   prop C20
//@   opt callbacks=effectful
//@   opt effects=trace
//@   requires fn != nil && len(args) >= 6
//@   ensures once: tr_len == old(tr_len)+1 && tr_kind[old(tr_len)] == 1 && tr_fn[old(tr_len)] == fn
//@   ensures args-in-order: tr_args[old(tr_len)][0] == args[0] && tr_args[old(tr_len)][1] == args[1] && tr_args[old(tr_len)][2] == args[2] && tr_args[old(tr_len)][3] == args[3] && tr_args[old(tr_len)][4] == args[4] && tr_args[old(tr_len)][5] == args[5]
//@   ensures value: boxed(r0) == tr_ress[old(tr_len)][0]

//@ func MakeVariadicReturn1
//@   prop C20
//@   opt callbacks=effectful
//@   opt effects=trace
//@   opt returns-lit=0
//@   ensures lazy: tr_len == old(tr_len)
//@ func MakeVariadicReturn1 lit 0
//@   prop C20
//@   opt callbacks=effectful
//@   opt effects=trace
//@   requires fn != nil
//@   ensures once: tr_len == old(tr_len)+1 && tr_kind[old(tr_len)] == 1 && tr_fn[old(tr_len)] == fn
//@   ensures args-passed: tr_args[old(tr_len)][0] == boxed(args)
//@   ensures value: len(r0) == 1 && r0[0] == tr_ress[old(tr_len)][0]

//@ func MakeVariadicReturn2
//@   prop C20
//@   opt callbacks=effectful
//@   opt effects=trace
//@   opt returns-lit=0
//@   ensures lazy: tr_len == old(tr_len)
//@ func MakeVariadicReturn2 lit 0
//@   prop C20
//@   opt callbacks=effectful
//@   opt effects=trace
//@   requires fn != nil
//@   ensures once: tr_len == old(tr_len)+1 && tr_kind[old(tr_len)] == 1 && tr_fn[old(tr_len)] == fn
//@   ensures args-passed: tr_args[old(tr_len)][0] == boxed(args)
//@   ensures value: len(r0) == 2 && r0[0] == tr_ress[old(tr_len)][0] && r0[1] == tr_ress[old(tr_len)][1]

//@ func MakeVariadicReturn3
//@   prop C20
//@   opt callbacks=effectful
//@   opt effects=trace
//@   opt returns-lit=0
//@   ensures lazy: tr_len == old(tr_len)
//@ func MakeVariadicReturn3 lit 0
//@   prop C20
//@   opt callbacks=effectful
//@   opt effects=trace
//@   requires fn != nil
//@   ensures once: tr_len == old(tr_len)+1 && tr_kind[old(tr_len)] == 1 && tr_fn[old(tr_len)] == fn
//@   ensures args-passed: tr_args[old(tr_len)][0] == boxed(args)
//@   ensures value: len(r0) == 3 && r0[0] == tr_ress[old(tr_len)][0] && r0[1] == tr_ress[old(tr_len)][1] && r0[2] == tr_ress[old(tr_len)][2]

//@ func MakeVariadicReturn4
//@   prop C20
//@   opt callbacks=effectful
//@   opt effects=trace
//@   opt returns-lit=0
//@   ensures lazy: tr_len == old(tr_len)
//@ func MakeVariadicReturn4 lit 0
//@   prop C20
//@   opt callbacks=effectful
//@   opt effects=trace
//@   requires fn != nil
//@   ensures once: tr_len == old(tr_len)+1 && tr_kind[old(tr_len)] == 1 && tr_fn[old(tr_len)] == fn
//@   ensures args-passed: tr_args[old(tr_len)][0] == boxed(args)
//@   ensures value: len(r0) == 4 && r0[0] == tr_ress[old(tr_len)][0] && r0[1] == tr_ress[old(tr_len)][1] && r0[2] == tr_ress[old(tr_len)][2] && r0[3] == tr_ress[old(tr_len)][3]

//@ func MakeVariadicReturn5
//@   prop C20
//@   opt callbacks=effectful
//@   opt effects=trace
//@   opt returns-lit=0
//@   ensures lazy: tr_len == old(tr_len)
//@ func MakeVariadicReturn5 lit 0
//@   prop C20
//@   opt callbacks=effectful
//@   opt effects=trace
//@   requires fn != nil
//@   ensures once: tr_len == old(tr_len)+1 && tr_kind[old(tr_len)] == 1 && tr_fn[old(tr_len)] == fn
//@   ensures args-passed: tr_args[old(tr_len)][0] == boxed(args)
//@   ensures value: len(r0) == 5 && r0[0] == tr_ress[old(tr_len)][0] && r0[1] == tr_ress[old(tr_len)][1] && r0[2] == tr_ress[old(tr_len)][2] && r0[3] == tr_ress[old(tr_len)][3] && r0[4] == tr_ress[old(tr_len)][4]

//@ func MakeVariadicReturn6
//@   prop C20
//@   opt callbacks=effectful
//@   opt effects=trace
//@   opt returns-lit=0
//@   ensures lazy: tr_len == old(tr_len)
//@ func MakeVariadicReturn6 lit 0
//@   prop C20
//@   opt callbacks=effectful
//@   opt effects=trace
//@   requires fn != nil
//@   ensures once: tr_len == old(tr_len)+1 && tr_kind[old(tr_len)] == 1 && tr_fn[old(tr_len)] == fn
//@   ensures args-passed: tr_args[old(tr_len)][0] == boxed(args)
//@   ensures value: len(r0) == 6 && r0[0] == tr_ress[old(tr_len)][0] && r0[1] == tr_ress[old(tr_len)][1] && r0[2] == tr_ress[old(tr_len)][2] && r0[3] == tr_ress[old(tr_len)][3] && r0[4] == tr_ress[old(tr_len)][4] && r0[5] == tr_ress[old(tr_len)][5]

//@ func CurryParam1ForSlice1
//@   prop C20
//@   opt callbacks=effectful
//@   opt effects=trace
//@   opt returns-lit=0
//@   ensures lazy: tr_len == old(tr_len)
//@ func CurryParam1ForSlice1 lit 0
//@   prop C20
//@   opt callbacks=effectful
//@   opt effects=trace
//@   requires fn != nil
//@   ensures once: tr_len == old(tr_len)+1 && tr_kind[old(tr_len)] == 1 && tr_fn[old(tr_len)] == fn
//@   ensures args-in-order: tr_args[old(tr_len)][0] == a && tr_args[old(tr_len)][1] == boxed(args)
//@   ensures value: r0 == tr_ress[old(tr_len)][0]

//@ func CurryParam1
//@   prop C20
//@   opt callbacks=effectful
//@   opt effects=trace
//@   opt returns-lit=0
//@   ensures lazy: tr_len == old(tr_len)
//@ func CurryParam1 lit 0
//@   prop C20
//@   opt callbacks=effectful
//@   opt effects=trace
//@   requires fn != nil
//@   ensures once: tr_len == old(tr_len)+1 && tr_kind[old(tr_len)] == 1 && tr_fn[old(tr_len)] == fn
//@   ensures args-in-order: tr_args[old(tr_len)][0] == a && tr_args[old(tr_len)][1] == boxed(args)
//@   ensures value: r0 == tr_ress[old(tr_len)][0]

//@ func CurryParam2
//@   prop C20
//@   opt callbacks=effectful
//@   opt effects=trace
//@   opt returns-lit=0
//@   ensures lazy: tr_len == old(tr_len)
//@ func CurryParam2 lit 0
//@   prop C20
//@   opt callbacks=effectful
//@   opt effects=trace
//@   requires fn != nil
//@   ensures once: tr_len == old(tr_len)+1 && tr_kind[old(tr_len)] == 1 && tr_fn[old(tr_len)] == fn
//@   ensures args-in-order: tr_args[old(tr_len)][0] == a && tr_args[old(tr_len)][1] == b && tr_args[old(tr_len)][2] == boxed(args)
//@   ensures value: r0 == tr_ress[old(tr_len)][0]

//@ func CurryParam3
//@   prop C20
//@   opt callbacks=effectful
//@   opt effects=trace
//@   opt returns-lit=0
//@   ensures lazy: tr_len == old(tr_len)
//@ func CurryParam3 lit 0
//@   prop C20
//@   opt callbacks=effectful
//@   opt effects=trace
//@   requires fn != nil
//@   ensures once: tr_len == old(tr_len)+1 && tr_kind[old(tr_len)] == 1 && tr_fn[old(tr_len)] == fn
//@   ensures args-in-order: tr_args[old(tr_len)][0] == a && tr_args[old(tr_len)][1] == b && tr_args[old(tr_len)][2] == c && tr_args[old(tr_len)][3] == boxed(args)
//@   ensures value: r0 == tr_ress[old(tr_len)][0]

//@ func CurryParam4
//@   prop C20
//@   opt callbacks=effectful
//@   opt effects=trace
//@   opt returns-lit=0
//@   ensures lazy: tr_len == old(tr_len)
//@ func CurryParam4 lit 0
//@   prop C20
//@   opt callbacks=effectful
//@   opt effects=trace
//@   requires fn != nil
//@   ensures once: tr_len == old(tr_len)+1 && tr_kind[old(tr_len)] == 1 && tr_fn[old(tr_len)] == fn
//@   ensures args-in-order: tr_args[old(tr_len)][0] == a && tr_args[old(tr_len)][1] == b && tr_args[old(tr_len)][2] == c && tr_args[old(tr_len)][3] == d && tr_args[old(tr_len)][4] == boxed(args)
//@   ensures value: r0 == tr_ress[old(tr_len)][0]

//@ func CurryParam5
//@   prop C20
//@   opt callbacks=effectful
//@   opt effects=trace
//@   opt returns-lit=0
//@   ensures lazy: tr_len == old(tr_len)
//@ func CurryParam5 lit 0
//@   prop C20
//@   opt callbacks=effectful
//@   opt effects=trace
//@   requires fn != nil
//@   ensures once: tr_len == old(tr_len)+1 && tr_kind[old(tr_len)] == 1 && tr_fn[old(tr_len)] == fn
//@   ensures args-in-order: tr_args[old(tr_len)][0] == a && tr_args[old(tr_len)][1] == b && tr_args[old(tr_len)][2] == c && tr_args[old(tr_len)][3] == d && tr_args[old(tr_len)][4] == e && tr_args[old(tr_len)][5] == boxed(args)
//@   ensures value: r0 == tr_ress[old(tr_len)][0]

//@ func CurryParam6
//@   prop C20
//@   opt callbacks=effectful
//@   opt effects=trace
//@   opt returns-lit=0
//@   ensures lazy: tr_len == old(tr_len)
//@ func CurryParam6 lit 0
//@   prop C20
//@   opt callbacks=effectful
//@   opt effects=trace
//@   requires fn != nil
//@   ensures once: tr_len == old(tr_len)+1 && tr_kind[old(tr_len)] == 1 && tr_fn[old(tr_len)] == fn
//@   ensures args-in-order: tr_args[old(tr_len)][0] == a && tr_args[old(tr_len)][1] == b && tr_args[old(tr_len)][2] == c && tr_args[old(tr_len)][3] == d && tr_args[old(tr_len)][4] == e && tr_args[old(tr_len)][5] == f && tr_args[old(tr_len)][6] == boxed(args)
//@   ensures value: r0 == tr_ress[old(tr_len)][0]

// ===================================================================================================
// C20 - Trampoline: iterates its step - each step on the previous step's result, the first on the input - until the first step
// that reports an error (result nil, that error) or done (that step's result, nil error); no step runs after that one.
//@ func Trampoline
//@   prop C20
//@   opt callbacks=effectful
//@   opt effects=trace
//@   ghost it Int
//@   ghostinit it = 0
//@   requires fn != nil
//@   ensures steps: tr_len > old(tr_len) && forall(k, old(tr_len), tr_len, tr_kind[k] == 1 && tr_fn[k] == fn)
//@   ensures first: tr_args[old(tr_len)][0] == boxed(input)
//@   ensures chain: forall(k, old(tr_len)+1, tr_len, tr_args[k][0] == tr_ress[k-1][0])
//@   ensures continued: forall(k, old(tr_len), tr_len-1, tr_err[k] == nil && tr_ress[k][1] == boxed(false))
//@   ensures stop-error: tr_err[tr_len-1] != nil ==> r0 == nil && r1 == tr_err[tr_len-1]
//@   ensures stop-done: tr_err[tr_len-1] == nil ==> tr_ress[tr_len-1][1] == boxed(true) && boxed(r0) == tr_ress[tr_len-1][0] && r1 == nil
//@ func Trampoline loop 0
//@   ghostset it = it + 1
//@   invariant count: it >= 0 && tr_len == old(tr_len) + it && forall(k, old(tr_len), tr_len, tr_kind[k] == 1 && tr_fn[k] == fn)
//@   invariant current: (it == 0 ==> result == input) && (it > 0 ==> boxed(result) == tr_ress[tr_len-1][0] && tr_args[old(tr_len)][0] == boxed(input))
//@   invariant chain: forall(k, old(tr_len)+1, tr_len, tr_args[k][0] == tr_ress[k-1][0])
//@   invariant continued: forall(k, old(tr_len), tr_len, tr_err[k] == nil && tr_ress[k][1] == boxed(false))

// ===================================================================================================
// C20 - CurryDef: a Call on a curry that is not done appends exactly its arguments to the accumulated ones and invokes the
// function exactly once with the curry itself and all arguments so far, storing its value as the result; a Call on a done
// curry changes nothing and calls nothing.  args/result are only touched while callM is held, and the decision
// "not done" is taken inside the same critical section as the update it guards (so concurrent Calls are serial and a
// MarkDone that happened before a Call got the lock is honoured).  The accumulated arguments live in the curry's own storage
// (grown in place or newly allocated), never in the caller's variadic slice, so a caller that re-uses its buffer cannot change them.
//@ func CurryNewGenerics
//@   prop C20
//@   opt callbacks=effectful
//@   opt effects=trace
//@   ensures lazy: tr_len == old(tr_len)
//@   ensures made: r0 != nil && fresh(r0) && r0.fn == fn && len(r0.args) == 0 && !r0.isDone
//@ func (CurryDef).Call
//@   prop C20
//@   opt callbacks=effectful
//@   opt effects=trace
//@   opt lockguard=args:callM;result:callM
//@   opt decide-under=isDone:callM
//@   modifies currySelf, currySelf.args
//@   requires currySelf != nil && currySelf.fn != nil
//@   ensures self: r0 == currySelf
//@   ensures done-frozen: old(currySelf.isDone) ==> tr_len == old(tr_len) && currySelf.args == old(currySelf.args) && currySelf.result == old(currySelf.result)
//@   ensures once: !old(currySelf.isDone) ==> tr_len == old(tr_len)+1 && tr_kind[old(tr_len)] == 1 && tr_fn[old(tr_len)] == currySelf.fn
//@   ensures accumulated: !old(currySelf.isDone) ==> tr_args[old(tr_len)][0] == boxed(currySelf) && tr_args[old(tr_len)][1] == boxed(currySelf.args)
//@   ensures appended: !old(currySelf.isDone) ==> len(currySelf.args) == old(len(currySelf.args)) + len(args) && forall(k, 0, old(len(currySelf.args)), currySelf.args[k] == old(currySelf.args[k])) && forall(k, 0, len(args), currySelf.args[old(len(currySelf.args))+k] == old(args[k]))
//@   ensures result-stored: !old(currySelf.isDone) ==> currySelf.result == tr_ress[old(tr_len)][0]
//@   ensures own-storage: !old(currySelf.isDone) ==> base(currySelf.args) == old(base(currySelf.args)) || fresh(currySelf.args)
//@ func (CurryDef).MarkDone
//@   prop C20
//@   modifies currySelf
//@   requires currySelf != nil
//@   ensures done: currySelf.isDone && currySelf.args == old(currySelf.args) && currySelf.result == old(currySelf.result)
//@ func (CurryDef).IsDone
//@   prop C20
//@   requires currySelf != nil
//@   ensures def: r0 == currySelf.isDone
//@ func (CurryDef).Result
//@   prop C20
//@   requires currySelf != nil
//@   ensures def: r0 == currySelf.result

// ===================================================================================================
// C20 - pattern matching.  What each pattern kind's test accepts (Matches), and what Apply does (exactly one call of the
// pattern's effect on the value, returning its result).  Calls on Maybe values are dispatched to the someDef / None
// contracts of C01.
//@ func (KindPatternDef).Matches
//@   prop C20
//@   opt dispatch=force
//@   ensures def: r0 == (!absent(value) && rkind(value) == patternSelf.kind)
//@ func (EqualPatternDef).Matches
//@   prop C20
//@   ensures def: r0 == (patternSelf.value == value)
//@ func (RegexPatternDef).Matches
//@   prop C20
//@   opt dispatch=force
//@   ensures def: r0 == (!absent(value) && rkind(value) == 24 && regexErr(patternSelf.pattern) == nil && regexMatch(patternSelf.pattern, strof(value)))
//@ func (OtherwisePatternDef).Matches
//@   prop C20
//@   ensures def: r0 == true

//@ func (KindPatternDef).Apply
//@   prop C20
//@   opt callbacks=effectful
//@   opt effects=trace
//@   requires patternSelf.effect != nil
//@   ensures once: tr_len == old(tr_len)+1 && tr_kind[old(tr_len)] == 1 && tr_fn[old(tr_len)] == patternSelf.effect && tr_arg[old(tr_len)] == value && r0 == tr_res[old(tr_len)]
//@ func (CompTypePatternDef).Apply
//@   prop C20
//@   opt callbacks=effectful
//@   opt effects=trace
//@   requires patternSelf.effect != nil
//@   ensures once: tr_len == old(tr_len)+1 && tr_kind[old(tr_len)] == 1 && tr_fn[old(tr_len)] == patternSelf.effect && tr_arg[old(tr_len)] == value && r0 == tr_res[old(tr_len)]
//@ func (EqualPatternDef).Apply
//@   prop C20
//@   opt callbacks=effectful
//@   opt effects=trace
//@   requires patternSelf.effect != nil
//@   ensures once: tr_len == old(tr_len)+1 && tr_kind[old(tr_len)] == 1 && tr_fn[old(tr_len)] == patternSelf.effect && tr_arg[old(tr_len)] == value && r0 == tr_res[old(tr_len)]
//@ func (RegexPatternDef).Apply
//@   prop C20
//@   opt callbacks=effectful
//@   opt effects=trace
//@   requires patternSelf.effect != nil
//@   ensures once: tr_len == old(tr_len)+1 && tr_kind[old(tr_len)] == 1 && tr_fn[old(tr_len)] == patternSelf.effect && tr_arg[old(tr_len)] == value && r0 == tr_res[old(tr_len)]
//@ func (OtherwisePatternDef).Apply
//@   prop C20
//@   opt callbacks=effectful
//@   opt effects=trace
//@   requires patternSelf.effect != nil
//@   ensures once: tr_len == old(tr_len)+1 && tr_kind[old(tr_len)] == 1 && tr_fn[old(tr_len)] == patternSelf.effect && tr_arg[old(tr_len)] == value && r0 == tr_res[old(tr_len)]

// constructors record exactly what they were given
//@ func InCaseOfKind
//@   prop C20
//@   ensures made: isa(r0, KindPatternDef) && as(r0, KindPatternDef).kind == kind && as(r0, KindPatternDef).effect == effect
//@ func InCaseOfSumType
//@   prop C20
//@   ensures made: isa(r0, CompTypePatternDef) && as(r0, CompTypePatternDef).compType == compType && as(r0, CompTypePatternDef).effect == effect
//@ func InCaseOfEqual
//@   prop C20
//@   ensures made: isa(r0, EqualPatternDef) && as(r0, EqualPatternDef).value == value && as(r0, EqualPatternDef).effect == effect
//@ func InCaseOfRegex
//@   prop C20
//@   ensures made: isa(r0, RegexPatternDef) && as(r0, RegexPatternDef).pattern == pattern && as(r0, RegexPatternDef).effect == effect
//@ func Otherwise
//@   prop C20
//@   ensures made: isa(r0, OtherwisePatternDef) && as(r0, OtherwisePatternDef).effect == effect
//@ func DefPattern
//@   prop C20
//@   ensures made: r0.patterns == patterns

// ===================================================================================================
// C20 - MatchFor is first-match.  Stated as a protocol over the calls it makes through the Pattern interface (events of
// kind 2: tr_recv = the pattern, tr_fn = method("Pattern.Matches") / method("Pattern.Apply"), tr_arg = the probed value,
// tr_res = the boxed result): the patterns are asked in list order, each at most once, every earlier one answered false;
// after the first that answers true exactly one Apply follows - on that same pattern, with the value that was tested - and
// its result is returned; nothing else is asked.  MatchFor panics exactly when every pattern was asked and answered false.
// The probed value is the argument itself unless the argument is a non-nil pointer: then it is what Maybe.ToPtr points to when
// that is a struct value, else the argument (stated for the accepting test and its Apply).
//@ func (PatternMatching).MatchFor
//@   prop C20
//@   opt callbacks=effectful
//@   opt effects=trace
//@   opt dispatch=Pattern:off;MaybeDef:force
//@   requires forall(k, 0, len(patternMatchingSelf.patterns), !untyped(patternMatchingSelf.patterns[k]))
//@   ensures asked: tr_len >= old(tr_len)+2 && tr_len - old(tr_len) - 2 < len(patternMatchingSelf.patterns)
//@   ensures earlier-rejected: forall(k, 0, tr_len - old(tr_len) - 2, tr_kind[old(tr_len)+k] == 2 && tr_recv[old(tr_len)+k] == patternMatchingSelf.patterns[k] && tr_fn[old(tr_len)+k] == method("Pattern.Matches") && tr_res[old(tr_len)+k] == boxed(false))
//@   ensures first-accepting: tr_kind[tr_len-2] == 2 && tr_recv[tr_len-2] == patternMatchingSelf.patterns[tr_len - old(tr_len) - 2] && tr_fn[tr_len-2] == method("Pattern.Matches") && tr_res[tr_len-2] == boxed(true)
//@   ensures applied: tr_kind[tr_len-1] == 2 && tr_recv[tr_len-1] == patternMatchingSelf.patterns[tr_len - old(tr_len) - 2] && tr_fn[tr_len-1] == method("Pattern.Apply") && tr_arg[tr_len-1] == tr_arg[tr_len-2] && r0 == tr_res[tr_len-1]
//@   ensures probe: rkind(inValue) != 22 ==> forall(k, old(tr_len), tr_len, tr_arg[k] == inValue)
//@   ensures probe-pointer: rkind(inValue) == 22 && !nilref(inValue) ==> tr_arg[tr_len-2] == ite(ToPtr_r0 != nil && !untyped(*ToPtr_r0) && rkind(*ToPtr_r0) == 25, *ToPtr_r0, inValue)
//@   ensures@panic none-accepted: tr_len == old(tr_len) + len(patternMatchingSelf.patterns) && forall(k, 0, len(patternMatchingSelf.patterns), tr_kind[old(tr_len)+k] == 2 && tr_recv[old(tr_len)+k] == patternMatchingSelf.patterns[k] && tr_fn[old(tr_len)+k] == method("Pattern.Matches") && tr_res[old(tr_len)+k] == boxed(false))
//@ func (PatternMatching).MatchFor loop 0
//@   invariant rejected: tr_len == old(tr_len) + _i && forall(k, 0, _i, tr_kind[old(tr_len)+k] == 2 && tr_recv[old(tr_len)+k] == patternMatchingSelf.patterns[k] && tr_fn[old(tr_len)+k] == method("Pattern.Matches") && tr_res[old(tr_len)+k] == boxed(false))
//@   invariant probe: rkind(inValue) != 22 ==> forall(k, old(tr_len), tr_len, tr_arg[k] == inValue)

//@ func Either
//@   prop C20
//@   opt callbacks=effectful
//@   opt effects=trace
//@   opt inline=true

// ===================================================================================================
// C20 - sum / product / nil types.  Leaf types are defined outright; SumType, the sum-type pattern and NewCompData are
// stated as protocols over the calls they make through the CompType interface (events of kind 2, as for MatchFor).
//@ define KINDOF(v) = ite(absent(v), 0, rkind(v))

//@ func (ProductType).Matches
//@   prop C20
//@   opt dispatch=force
//@   ensures def: r0 == (len(value) == len(typeSelf.kinds) && forall(k, 0, len(value), typeSelf.kinds[k] == KINDOF(value[k])))
//@ func (ProductType).Matches loop 0
//@   invariant so-far: len(value) == len(typeSelf.kinds) && matches == forall(k, 0, _i, typeSelf.kinds[k] == KINDOF(value[k]))

//@ func (NilTypeDef).Matches
//@   prop C20
//@   opt dispatch=force
//@   ensures def: r0 == (len(value) == 1 && absent(value[0]))

// SumType: members are asked in order with the same values; true as soon as one accepts, false when all were asked and refused
//@ func (SumType).Matches
//@   prop C20
//@   opt callbacks=effectful
//@   opt effects=trace
//@   opt dispatch=CompType:off
//@   requires forall(k, 0, len(typeSelf.compTypes), !untyped(typeSelf.compTypes[k]))
//@   ensures asked-in-order: forall(k, old(tr_len), tr_len, tr_kind[k] == 2 && tr_recv[k] == typeSelf.compTypes[k-old(tr_len)] && tr_fn[k] == method("CompType.Matches") && tr_args[k][0] == boxed(value))
//@   ensures earlier-refused: forall(k, old(tr_len), tr_len-1, tr_res[k] == boxed(false))
//@   ensures accepted: r0 ==> tr_len > old(tr_len) && tr_len - old(tr_len) <= len(typeSelf.compTypes) && tr_res[tr_len-1] == boxed(true)
//@   ensures refused: !r0 ==> tr_len == old(tr_len) + len(typeSelf.compTypes) && forall(k, old(tr_len), tr_len, tr_res[k] == boxed(false))
//@ func (SumType).Matches loop 0
//@   invariant refused-so-far: tr_len == old(tr_len) + _i && forall(k, old(tr_len), tr_len, tr_kind[k] == 2 && tr_recv[k] == typeSelf.compTypes[k-old(tr_len)] && tr_fn[k] == method("CompType.Matches") && tr_args[k][0] == boxed(value) && tr_res[k] == boxed(false))

// the sum-type pattern asks its type exactly once: about the components of a CompData value, else about the value itself
//@ func (CompTypePatternDef).Matches
//@   prop C20
//@   opt callbacks=effectful
//@   opt effects=trace
//@   opt dispatch=CompType:off;MaybeDef:force
//@   requires !untyped(patternSelf.compType)
//@   ensures asked-once: tr_len == old(tr_len)+1 && tr_kind[old(tr_len)] == 2 && tr_recv[old(tr_len)] == patternSelf.compType && tr_fn[old(tr_len)] == method("CompType.Matches") && boxed(r0) == tr_res[old(tr_len)]
//@   ensures components: !absent(value) && isa(value, CompData) ==> tr_args[old(tr_len)][0] == boxed(as(value, CompData).objects)
//@   ensures itself: !(!absent(value) && isa(value, CompData)) ==> len(asslice(tr_args[old(tr_len)][0])) == 1 && asslice(tr_args[old(tr_len)][0])[0] == value

//@ func MatchCompTypeRef
//@   prop C20
//@   opt callbacks=effectful
//@   opt effects=trace
//@   opt dispatch=CompType:off
//@   requires !untyped(compType) && value != nil
//@   ensures asked-once: tr_len == old(tr_len)+1 && tr_kind[old(tr_len)] == 2 && tr_recv[old(tr_len)] == compType && tr_fn[old(tr_len)] == method("CompType.Matches") && boxed(r0) == tr_res[old(tr_len)] && tr_args[old(tr_len)][0] == boxed(value.objects)
//@ func MatchCompType
//@   prop C20
//@   opt callbacks=effectful
//@   opt effects=trace
//@   opt dispatch=CompType:off
//@   requires !untyped(compType)
//@   ensures asked-once: tr_len == old(tr_len)+1 && tr_kind[old(tr_len)] == 2 && tr_recv[old(tr_len)] == compType && tr_fn[old(tr_len)] == method("CompType.Matches") && boxed(r0) == tr_res[old(tr_len)] && tr_args[old(tr_len)][0] == boxed(value.objects)

// NewCompData returns a value iff the type accepts the arguments; the value records exactly the type and the arguments
//@ func NewCompData
//@   prop C20
//@   opt callbacks=effectful
//@   opt effects=trace
//@   opt dispatch=CompType:off
//@   requires !untyped(compType)
//@   ensures asked-once: tr_len == old(tr_len)+1 && tr_kind[old(tr_len)] == 2 && tr_recv[old(tr_len)] == compType && tr_fn[old(tr_len)] == method("CompType.Matches") && tr_args[old(tr_len)][0] == boxed(value)
//@   ensures iff-accepted: boxed(r0 != nil) == tr_res[old(tr_len)]
//@   ensures records: r0 != nil ==> fresh(r0) && r0.compType == compType && r0.objects == value

//@ func DefSum
//@   prop C20
//@   ensures made: isa(r0, SumType) && as(r0, SumType).compTypes == compTypes
//@ func DefProduct
//@   prop C20
//@   ensures made: isa(r0, ProductType) && as(r0, ProductType).kinds == kinds

// ===================================================================================================
// C19 - sorting.  sort.SliceStable / sort.Slice are the TRUSTED library contract (see the engine's sortSliceStable): given
// a less function that is element-determined and a strict weak ordering, the slice becomes an ordered, stable permutation of
// itself.  What is proved here is that every wrapper hands over the relation and the slice the property names and so
// inherits: permutation (witness p: new[i] == old[p[i]], p injective into the index range), ordered by the comparator
// (no element precedes one the comparator places strictly before it), stable (indistinguishable elements keep their order).
// SWO(f, s): f is a strict weak ordering on the elements of s - the comparator's side of the bargain.
//@ define SWO(f, s) = forall(i, 0, len(s), !f(s[i], s[i])) && forall2(i, 0, len(s), j, 0, len(s), forall(k, 0, len(s), (f(s[i], s[j]) && f(s[j], s[k]) ==> f(s[i], s[k])) && (!f(s[i], s[j]) && !f(s[j], s[i]) && !f(s[j], s[k]) && !f(s[k], s[j]) ==> !f(s[i], s[k]) && !f(s[k], s[i]))))
//@ define PERM(s, p) = forall(i, 0, len(s), 0 <= p[i] && p[i] < len(s) && s[i] == oldheap(s[p[i]])) && forall2(i, 0, len(s), j, 0, len(s), i != j ==> p[i] != p[j])
//@ define ORDERED(f, s) = forall2(i, 0, len(s), j, 0, len(s), i < j ==> !f(s[j], s[i]))
//@ define STABLE(f, s, p) = forall2(i, 0, len(s), j, 0, len(s), i < j && !f(s[i], s[j]) ==> p[i] < p[j])

//@ func Sort
//@   prop C19
//@   modifies input
//@   ghost p (Array Int Int)
//@   ghostset p = _sortperm
//@   requires fn != nil && SWO(fn, input)
//@   ensures permutation: PERM(input, p)
//@   ensures ordered: ORDERED(fn, input)
//@   ensures stable: STABLE(fn, input, p)

//@ func SortSlice
//@   prop C19
//@   modifies input
//@   ghost p (Array Int Int)
//@   ghostset p = Sort_p
//@   requires fn != nil && SWO(fn, input)
//@   ensures in-place: r0 == input
//@   ensures permutation: PERM(input, p)
//@   ensures ordered: ORDERED(fn, input)
//@   ensures stable: STABLE(fn, input, p)

// CompareToOrdered(a, b): positive when a sorts before b
//@ func CompareToOrdered
//@   prop C19
//@   ensures def: r0 == ite(b > a, 1, ite(b < a, 0-1, 0))

//@ func SortOrdered
//@   prop C19
//@   modifies input
//@   ghost p (Array Int Int)
//@   ghostset p = Sort_p
//@   ensures in-place: r0 == input
//@   ensures permutation: PERM(input, p)
//@   ensures ascending: ascending ==> forall2(i, 0, len(input), j, 0, len(input), i < j ==> input[i] <= input[j])
//@   ensures descending: !ascending ==> forall2(i, 0, len(input), j, 0, len(input), i < j ==> input[i] >= input[j])
//@   ensures stable: forall2(i, 0, len(input), j, 0, len(input), i < j && input[i] == input[j] ==> p[i] < p[j])
//@ func SortOrderedAscending
//@   prop C19
//@   modifies input
//@   ghost p (Array Int Int)
//@   ghostset p = SortOrdered_p
//@   ensures in-place: r0 == input
//@   ensures permutation: PERM(input, p)
//@   ensures ascending: forall2(i, 0, len(input), j, 0, len(input), i < j ==> input[i] <= input[j])
//@ func SortOrderedDescending
//@   prop C19
//@   modifies input
//@   ghost p (Array Int Int)
//@   ghostset p = SortOrdered_p
//@   ensures in-place: r0 == input
//@   ensures permutation: PERM(input, p)
//@   ensures descending: forall2(i, 0, len(input), j, 0, len(input), i < j ==> input[i] >= input[j])

// Stream.Sort sorts a clone: the receiver is not written (frame), the result is fresh and is the ordered, stable
// permutation of the receiver's items
//@ func (StreamDef).Sort
//@   prop C04,C19
//@   ghost p (Array Int Int)
//@   ghostset p = Sort_p
//@   requires streamSelf != nil && fn != nil && SWO(fn, *streamSelf)
//@   ensures fresh-result: r0 != nil && fresh(r0) && fresh(*r0) && len(*r0) == len(*streamSelf)
//@   ensures permutation: forall(i, 0, len(*r0), 0 <= p[i] && p[i] < len(*r0) && (*r0)[i] == (*streamSelf)[p[i]]) && forall2(i, 0, len(*r0), j, 0, len(*r0), i != j ==> p[i] != p[j])
//@   ensures ordered: ORDERED(fn, *r0)
//@   ensures stable: STABLE(fn, *r0, p)
//@ twin (StreamDef).Sort (StreamForInterfaceDef).Sort prop C04,C19

// SortByIndex: the result is a permutation of the receiver's items (ordered by the caller's index relation, which is opaque
// here); the receiver keeps its items in their order
//@ func (StreamDef).SortByIndex
//@   prop C04,C19
//@   modifies streamSelf, *streamSelf
//@   ghost p (Array Int Int)
//@   ghostset p = _sortperm
//@   requires streamSelf != nil && fn != nil
//@   requires index-relation: forall(i, 0, len(*streamSelf), !fn(i, i)) && forall2(i, 0, len(*streamSelf), j, 0, len(*streamSelf), forall(k, 0, len(*streamSelf), (fn(i, j) && fn(j, k) ==> fn(i, k)) && (!fn(i, j) && !fn(j, i) && !fn(j, k) && !fn(k, j) ==> !fn(i, k) && !fn(k, i))))
//@   ensures result: r0 != nil && fresh(r0) && len(*r0) == old(len(*streamSelf))
//@   ensures permutation: forall(i, 0, len(*r0), 0 <= p[i] && p[i] < len(*r0) && (*r0)[i] == oldheap((*old(streamSelf))[p[i]]))
//@   ensures receiver-keeps-view: len(*streamSelf) == old(len(*streamSelf)) && forall(i, 0, len(*streamSelf), (*streamSelf)[i] == old((*streamSelf)[i]))
// the index relation is a function of the two positions only (opaque callback), so "ordered" and "stable" can be stated over the
// result's positions: no later position is placed strictly before an earlier one, and positions the relation does not
// distinguish keep their input order (this is what sort.SliceStable gives and sort.Slice does not)
//@   ensures ordered-by-the-index-relation: forall2(i, 0, len(*r0), j, 0, len(*r0), i < j ==> !fn(j, i))
//@   ensures stable: forall2(i, 0, len(*r0), j, 0, len(*r0), i < j && !fn(i, j) ==> p[i] < p[j])
//@ twin (StreamDef).SortByIndex (StreamForInterfaceDef).SortByIndex prop C04,C19

// ---------------------------------------------------------------------------------------------------
// C19 - sort descriptors.  One sign convention for every CompareTo: positive when the receiver sorts before the argument
// (the convention of CompareToOrdered, on which the "natural order" of an ascending descriptor is built).
//@ func (ComparableOrdered).CompareTo
//@   prop C19
//@   requires isa(input, ComparableOrdered)
//@   ensures convention: r0 == ite(as(input, ComparableOrdered).Val > obj.Val, 1, ite(as(input, ComparableOrdered).Val < obj.Val, 0-1, 0))
//@ func (ComparableString).CompareTo
//@   prop C19
//@   requires isa(input, ComparableString)
//@   ensures convention: (r0 > 0) == (obj.Val < as(input, ComparableString).Val) && (r0 < 0) == (as(input, ComparableString).Val < obj.Val)

// the comparison of two items under descriptor d (keys through the descriptor's transformer; CompareTo / IsAscending /
// TransformedBy of user types are deterministic functions): ascending = natural order of the key, descending = reversed;
// an item without a key sorts after one with a key when ascending
//@ define DKEY(d, x) = dyn("SortDescriptor.TransformedBy", d)(x)
//@ define DASC(d) = dyn("SortDescriptor.IsAscending", d)
//@ define DSTEP(d, a, b) = ite(!untyped(DKEY(d, a)) && !untyped(DKEY(d, b)), ite(DASC(d), dyn("Comparable.CompareTo", DKEY(d, a), DKEY(d, b)), dyn("Comparable.CompareTo", DKEY(d, b), DKEY(d, a))), ite(!untyped(DKEY(d, a)) && untyped(DKEY(d, b)), ite(DASC(d), 1, 0-1), ite(untyped(DKEY(d, a)) && !untyped(DKEY(d, b)), ite(DASC(d), 0-1, 1), 0)))

// lexcmp(a, b, ds, k) names the result; the proved clause is its unfolding: the step of descriptor k, and the later
// descriptors exactly when that step is a tie
//@ func _compareBySortDescriptors
//@   prop C19
//@   opt dispatch=off
//@   opt result-name=lexcmp
//@   decreases len(sortDescriptors) - descriptorIndex
//@   requires 0 <= descriptorIndex && descriptorIndex < len(sortDescriptors) && forall(k, 0, len(sortDescriptors), !untyped(sortDescriptors[k]) && dyn("SortDescriptor.TransformedBy", sortDescriptors[k]) != nil)
//@   ensures unfold: r0 == ite(DSTEP(sortDescriptors[descriptorIndex], item1, item2) == 0 && descriptorIndex+1 < len(sortDescriptors), ufi("lexcmp", item1, item2, sortDescriptors, descriptorIndex+1), DSTEP(sortDescriptors[descriptorIndex], item1, item2))
//@ func _hasNextDescriptor
//@   prop C19
//@   ensures def: r0 == (index+1 < len(sortDescriptors))

// the relation the descriptor sort orders by: a precedes b when lexcmp(a, b, ds, 0) > 0.  That this is a strict weak
// ordering on the input is the caller's side (keys with consistent CompareTo); that the comparator handed to Sort is exactly
// this relation - strict, on the right items, from descriptor 0 - is proved.
//@ define LEXLT(ds, a, b) = ufi("lexcmp", a, b, ds, 0) > 0
//@ define LEXSWO(ds, s) = forall(i, 0, len(s), !LEXLT(ds, s[i], s[i])) && forall2(i, 0, len(s), j, 0, len(s), forall(k, 0, len(s), (LEXLT(ds, s[i], s[j]) && LEXLT(ds, s[j], s[k]) ==> LEXLT(ds, s[i], s[k])) && (!LEXLT(ds, s[i], s[j]) && !LEXLT(ds, s[j], s[i]) && !LEXLT(ds, s[j], s[k]) && !LEXLT(ds, s[k], s[j]) ==> !LEXLT(ds, s[i], s[k]) && !LEXLT(ds, s[k], s[i]))))
//@ define DS_OK(ds) = len(ds) > 0 && forall(k, 0, len(ds), !untyped(ds[k]) && dyn("SortDescriptor.TransformedBy", ds[k]) != nil)

//@ func SortBySortDescriptors
//@   prop C19
//@   modifies input
//@   ghost p (Array Int Int)
//@   ghostset p = Sort_p
//@   requires DS_OK(sortDescriptors) && LEXSWO(sortDescriptors, input)
//@   ensures permutation: PERM(input, p)
//@   ensures ordered: forall2(i, 0, len(input), j, 0, len(input), i < j ==> !LEXLT(sortDescriptors, input[j], input[i]))
//@   ensures stable: forall2(i, 0, len(input), j, 0, len(input), i < j && !LEXLT(sortDescriptors, input[i], input[j]) ==> p[i] < p[j])

// the sorted copy: the input is not written (frame), the result is fresh storage
//@ func SortedListBySortDescriptors
//@   prop C19
//@   ghost p (Array Int Int)
//@   ghostset p = SortBySortDescriptors_p
//@   requires DS_OK(sortDescriptors) && LEXSWO(sortDescriptors, input)
//@   ensures fresh-copy: len(r0) == len(input) && (len(input) > 0 ==> fresh(r0))
//@   ensures permutation: forall(i, 0, len(r0), 0 <= p[i] && p[i] < len(r0) && r0[i] == input[p[i]]) && forall2(i, 0, len(r0), j, 0, len(r0), i != j ==> p[i] != p[j])
//@   ensures ordered: forall2(i, 0, len(r0), j, 0, len(r0), i < j ==> !LEXLT(sortDescriptors, r0[j], r0[i]))
//@   ensures stable: forall2(i, 0, len(r0), j, 0, len(r0), i < j && !LEXLT(sortDescriptors, r0[i], r0[j]) ==> p[i] < p[j])

// descriptor objects record what they are given; the builder appends descriptors in call order
//@ func NewSimpleSortDescriptor
//@   prop C19
//@   ensures made: r0.ascending == ascending && r0.transformFn == transformFn
//@ func (SimpleSortDescriptor).IsAscending
//@   prop C19
//@   ensures def: r0 == descriptor.ascending
//@ func (SimpleSortDescriptor).TransformedBy
//@   prop C19
//@   ensures def: r0 == descriptor.transformFn
//@ func NewComparableOrdered
//@   prop C19
//@   ensures wraps: r0.Val == val
//@ func NewComparableString
//@   prop C19
//@   ensures wraps: r0.Val == val

// the key of a field descriptor is the named field of the item (of its pointee when the item is a pointer), as the Comparable it
// holds; reflect's FieldByName is an uninterpreted function of the struct value and the name.  Items without such a field, or
// whose field does not hold a Comparable, are outside the precondition (the real code panics there).
//@ func (FieldSortDescriptor).TransformedBy
//@   prop C19
//@   opt returns-lit=0
//@ func (FieldSortDescriptor).TransformedBy lit 0
//@   prop C19
//@   requires has-comparable-field: rkind(rindirect(input)) == 25 && !untyped(rfield(rindirect(input), descriptor.fieldName)) && impl(rfield(rindirect(input), descriptor.fieldName), Comparable)
//@   ensures named-field: boxed(r0) == rfield(rindirect(input), descriptor.fieldName)

//@ func NewFieldSortDescriptor
//@   prop C19
//@   ensures made: r0.SimpleSortDescriptor.ascending == ascending && r0.fieldName == fieldName
//@ func (FieldSortDescriptor).GetFieldName
//@   prop C19
//@   ensures def: r0 == descriptor.fieldName

// a new builder owns no storage, so the first ThenWith* allocates
//@ func NewSortDescriptorsBuilder
//@   prop C19
//@   ensures empty: len(r0) == 0 && cap(r0) == 0

// ThenWith* on a builder without spare capacity (every builder of 0..2 keys made by this API under Go's growth policy; the
// precondition is what makes sibling stacks independent): the old keys in order, then the new one, in fresh storage
//@ func (SortDescriptorsBuilder).ThenWithTransformerFunctor
//@   prop C19
//@   requires no-spare-capacity: cap(builder) == len(builder)
//@   ensures appended: len(r0) == len(builder)+1 && fresh(r0) && forall(k, 0, len(builder), r0[k] == builder[k])
//@   ensures new-key: isa(r0[len(builder)], SimpleSortDescriptor) && as(r0[len(builder)], SimpleSortDescriptor).ascending == ascending && as(r0[len(builder)], SimpleSortDescriptor).transformFn == transformFn
//@ func (SortDescriptorsBuilder).ThenWithFieldName
//@   prop C19
//@   requires no-spare-capacity: cap(builder) == len(builder)
//@   ensures appended: len(r0) == len(builder)+1 && fresh(r0) && forall(k, 0, len(builder), r0[k] == builder[k])
//@   ensures new-key: isa(r0[len(builder)], FieldSortDescriptor) && as(r0[len(builder)], FieldSortDescriptor).fieldName == fieldName && as(r0[len(builder)], FieldSortDescriptor).SimpleSortDescriptor.ascending == ascending
//@ func (SortDescriptorsBuilder).ThenWith
//@   prop C19
//@   requires no-spare-capacity: cap(builder) == len(builder)
//@   ensures appended: len(r0) == len(builder)+len(input) && (len(input) > 0 ==> fresh(r0)) && forall(k, 0, len(builder), r0[k] == builder[k]) && forall(k, 0, len(input), r0[len(builder)+k] == input[k])
//@ func (SortDescriptorsBuilder).GetSortDescriptors
//@   prop C19
//@   ensures same: r0 == builder

//@ func (SortDescriptorsBuilder).ToSortedList
//@   prop C19
//@   ghost p (Array Int Int)
//@   ghostset p = SortedListBySortDescriptors_p
//@   requires DS_OK(builder) && LEXSWO(builder, input)
//@   ensures fresh-copy: len(r0) == len(input) && (len(input) > 0 ==> fresh(r0))
//@   ensures permutation: forall(i, 0, len(r0), 0 <= p[i] && p[i] < len(r0) && r0[i] == input[p[i]]) && forall2(i, 0, len(r0), j, 0, len(r0), i != j ==> p[i] != p[j])
//@   ensures ordered: forall2(i, 0, len(r0), j, 0, len(r0), i < j ==> !LEXLT(builder, r0[j], r0[i]))
//@   ensures stable: forall2(i, 0, len(r0), j, 0, len(r0), i < j && !LEXLT(builder, r0[i], r0[j]) ==> p[i] < p[j])
//@ func (SortDescriptorsBuilder).Sort
//@   prop C19
//@   modifies input
//@   ghost p (Array Int Int)
//@   ghostset p = SortBySortDescriptors_p
//@   requires DS_OK(builder) && LEXSWO(builder, input)
//@   ensures permutation: PERM(input, p)
//@   ensures ordered: forall2(i, 0, len(input), j, 0, len(input), i < j ==> !LEXLT(builder, input[j], input[i]))
//@   ensures stable: forall2(i, 0, len(input), j, 0, len(input), i < j && !LEXLT(builder, input[i], input[j]) ==> p[i] < p[j])

//@ func CurryNew
//@   prop C20
//@   opt callbacks=effectful
//@   opt effects=trace
//@   ensures lazy: tr_len == old(tr_len)
//@   ensures made: r0 != nil && fresh(r0) && r0.fn == fn && len(r0.args) == 0 && !r0.isDone
