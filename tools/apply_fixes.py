import re,subprocess,sys
def edit(path, old, new, n=1):
    s=open(path).read()
    assert s.count(old)==n, (path, old, s.count(old))
    s=s.replace(old,new)
    open(path,'w').write(s)
def commit(msg, files):
    out=subprocess.run(['gofmt','-l']+files,capture_output=True,text=True).stdout
    assert out.strip()=='' or 'fp.go' in out, out
    subprocess.check_call(['git','add']+files)
    subprocess.check_call(['git','commit','-qm',msg])

commit('''fix: APIMakePut*/APIMakePatch* send PUT/PATCH instead of POST

APIMakePutJSONBody, APIMakePatchJSONBody, APIMakePutMultipartBody and APIMakePatchMultipartBody all passed
http.MethodPost to the request builder (copy/paste of the Post variants).''', ['network/simpleHTTP.go'])

edit('network/simpleHTTP.go','''		finalURL = strings.ReplaceAll(relativeURL, fmt.Sprintf("{%s}", k), fmt.Sprintf("%v", v))''','''		finalURL = strings.ReplaceAll(finalURL, fmt.Sprintf("{%s}", k), fmt.Sprintf("%v", v))''')
commit('''fix: replacePathParams substitutes every path parameter, not only the last one visited

Each iteration restarted from relativeURL, so with two or more keys only one placeholder ended up replaced.
Accumulate into finalURL.''', ['network/simpleHTTP.go'])

edit('network/simpleHTTP.go','''	response.TargetObject = tempTarget.(*R)
''','''	if typedTarget, ok := tempTarget.(*R); ok {
		response.TargetObject = typedTarget
	}
''')
commit('''fix: decodeResponseBody no longer panics when the deserializer returns nil or another type

tempTarget.(*R) was an unchecked type assertion on whatever a user-supplied BodyDeserializer returned
(including a nil interface together with an error); use the comma-ok form and leave TargetObject nil then.''', ['network/simpleHTTP.go'])

# ---- C03 DropLast
edit('fp.go','''	listLen := len(list)

	if listLen == 0 || count >= listLen {
		return make([]T, 0)
	}

	return list[:(listLen - count)]''','''	listLen := len(list)

	if count <= 0 {
		return list
	}

	if listLen == 0 || count >= listLen {
		return make([]T, 0)
	}

	return list[:(listLen - count)]''')
commit('''fix: DropLast with a zero or negative count returns the list unchanged

list[:len-count] with count < 0 sliced past len(list): it panicked when len-count exceeded the capacity and
otherwise exposed elements beyond the list. Mirror Drop: count <= 0 drops nothing.''', ['fp.go'])

# ---- C04 Stream.Remove
edit('stream.go','''	var result StreamDef[T]
	if index >= 0 && index < streamSelf.Len() {
		result = append((*streamSelf)[:index], (*streamSelf)[index+1:]...)
	} else {
		return streamSelf
	}
	return &result''','''	var result StreamDef[T]
	if index >= 0 && index < streamSelf.Len() {
		// Build the result in fresh storage: append((*streamSelf)[:index], ...) would shift the receiver's own items
		result = make(StreamDef[T], 0, streamSelf.Len()-1)
		result = append(result, (*streamSelf)[:index]...)
		result = append(result, (*streamSelf)[index+1:]...)
	} else {
		return streamSelf
	}
	return &result''')
commit('''fix: StreamDef.Remove no longer overwrites the receiver's items

append((*streamSelf)[:index], (*streamSelf)[index+1:]...) compacted the receiver's backing array in place:
after s.Remove(1) on [1 2 3 4] the receiver read [1 3 4 4]. Build the result in a fresh slice.''', ['stream.go'])

# ---- C05 twin Minus
edit('streamForInterface.go','''func (streamSetSelf *StreamSetForInterfaceDef) Minus(input *StreamSetForInterfaceDef) *StreamSetForInterfaceDef {
	if input == nil || input.Size() == 0 {
		return NewStreamSetForInterface()
	}''','''func (streamSetSelf *StreamSetForInterfaceDef) Minus(input *StreamSetForInterfaceDef) *StreamSetForInterfaceDef {
	if input == nil || input.Size() == 0 {
		return streamSetSelf
	}''')
commit('''fix: StreamSetForInterfaceDef.Minus of an empty or nil set returns the receiver

It returned a new empty set, whereas the generic StreamSetDef.Minus (and every other Minus in the package)
returns the receiver when there is nothing to subtract.''', ['streamForInterface.go'])

# ---- C06 links
edit('queue.go','''	q.count--
	q.first = node.Next
	if q.first == nil {
		q.last = nil
	}
	val := *node.Val
''','''	q.count--
	q.first = node.Next
	if q.first == nil {
		q.last = nil
	} else {
		q.first.Prev = nil
	}
	val := *node.Val
''')
edit('queue.go','''	q.count--
	q.last = node.Prev
	if q.last == nil {
		q.first = nil
	}
	val := *node.Val''','''	q.count--
	q.last = node.Prev
	if q.last == nil {
		q.first = nil
	} else {
		q.last.Next = nil
	}
	val := *node.Val''')
commit('''fix: LinkedListQueue.Shift/Pop unlink the removed node from its neighbour

Shift left the new first node's Prev, and Pop the new last node's Next, pointing at the node that had just
been recycled into the free list. Mixing head and tail removals then walked into recycled nodes
(Offer, Offer, Shift, Pop, Poll dereferenced a nil Val). Reset the dangling link.''', ['queue.go'])

# ---- C08 exclusive lock
s=open('queue.go').read()
old1='''func (q *ConcurrentQueue[T]) Take() (T, error) {
	q.lock.RLock()
	defer q.lock.RUnlock()
'''
new1='''func (q *ConcurrentQueue[T]) Take() (T, error) {
	q.lock.Lock()
	defer q.lock.Unlock()
'''
old2='''func (q *ConcurrentQueue[T]) Poll() (T, error) {
	q.lock.RLock()
	defer q.lock.RUnlock()
'''
new2='''func (q *ConcurrentQueue[T]) Poll() (T, error) {
	q.lock.Lock()
	defer q.lock.Unlock()
'''
old3='''func (q *ConcurrentStack[T]) Pop() (T, error) {
	q.lock.RLock()
	defer q.lock.RUnlock()
'''
new3='''func (q *ConcurrentStack[T]) Pop() (T, error) {
	q.lock.Lock()
	defer q.lock.Unlock()
'''
for o,n in [(old1,new1),(old2,new2),(old3,new3)]:
    assert s.count(o)==1
    s=s.replace(o,n)
open('queue.go','w').write(s)
commit('''fix: ConcurrentQueue.Take/Poll and ConcurrentStack.Pop take the exclusive lock

Removals mutate the wrapped, non-thread-safe queue/stack, but only held the read lock, so two consumers
could run inside the wrapped structure at the same time (data race, lost and duplicated items).''', ['queue.go'])

# ---- C10 publisher
edit('publisher.go','''				subscribers = append(subscribers[:i], subscribers[i+1:]...)
				publisherSelf.subscribers = subscribers''','''				// Copy on remove: a Publish in progress may still be iterating the old slice
				remaining := make([]*Subscription[T], 0, len(subscribers)-1)
				remaining = append(remaining, subscribers[:i]...)
				remaining = append(remaining, subscribers[i+1:]...)
				publisherSelf.subscribers = remaining''')
commit('''fix: Publisher.Unsubscribe no longer edits the slice a running Publish iterates

Unsubscribe compacted the subscriber slice in place, while Publish iterates a snapshot that shares the same
backing array: a subscriber unsubscribing (itself or another) during a delivery made later subscribers be
skipped or invoked twice (A removing itself from [A B C] produced deliveries A C C). Copy on remove.''', ['publisher.go'])

edit('publisher.go','''	for _, s := range subscribers {
		if s.OnNext != nil {
''','''	for _, s := range subscribers {
		s := s
		if s.OnNext != nil {
''')
commit('''fix: Publisher.Publish with SubscribeOn delivers to every subscriber, not to the last one repeatedly

The closure posted to the handler captured the range variable s, which (go 1.18 semantics in go.mod) is shared
by all iterations; by the time the handler ran the closures, s pointed at a later subscriber. Shadow it per iteration.''', ['publisher.go'])

# ---- C13
edit('actor.go','''	return AskNewByOptionsGenerics[T, R](message, make(chan R))''','''	// Buffered: a Reply arriving after AskOnceWithTimeout gave up must not block the replying Actor
	return AskNewByOptionsGenerics[T, R](message, make(chan R, 1))''')
edit('actor.go','''	ch := askSelf.AskChannel(target)
	defer close(ch)
	var result R
	select {
	case result = <-ch:
	case <-time.After(timeout):
		return result, ErrActorAskTimeout
	}
''','''	ch := askSelf.AskChannel(target)
	var result R
	select {
	case result = <-ch:
		close(ch)
	case <-time.After(timeout):
		// Do not close ch here: the Actor may still Reply later, and a send on a closed channel panics
		return result, ErrActorAskTimeout
	}
''')
commit('''fix: a Reply arriving after AskOnceWithTimeout timed out no longer panics or blocks the Actor

AskOnceWithTimeout closed the reply channel on the timeout path while the Actor still held the request, so
the late Reply panicked the Actor goroutine with "send on closed channel" (and would have blocked forever on
an open unbuffered channel). Close only after the reply was received, and give Ask's own channel a buffer of one.''', ['actor.go'])

# ---- C19
edit('sortDescriptor.go','''		if descriptor.IsAscending() {
			key1.CompareTo(key2)
		} else {
			key2.CompareTo(key1)
		}''','''		if descriptor.IsAscending() {
			result = key1.CompareTo(key2)
		} else {
			result = key2.CompareTo(key1)
		}''')
edit('sortDescriptor.go','''		return _compareBySortDescriptors(item1, item2, sortDescriptors, 0) >= 0''','''		return _compareBySortDescriptors(item1, item2, sortDescriptors, 0) > 0''')
edit('sortDescriptor.go','''	return strings.Compare(string(obj.Val), string(input.(ComparableString).Val))''','''	// Same convention as CompareToOrdered/ComparableOrdered: positive when the receiver sorts before input
	return strings.Compare(string(input.(ComparableString).Val), string(obj.Val))''')
commit('''fix: sort descriptors actually compare the keys

_compareBySortDescriptors threw away the CompareTo results, so every pair compared equal and the comparator
handed to sort.SliceStable (>= 0) answered true for all pairs, which is not an ordering at all. Keep the
result, make the comparator strict (> 0), and give ComparableString.CompareTo the same sign convention as
ComparableOrdered.CompareTo (positive when the receiver sorts first), on which the comparator relies.''', ['sortDescriptor.go'])

# ---- C20
edit('fp.go','''	if Maybe.Just(value).IsPresent() && reflect.TypeOf(value).Kind() == reflect.TypeOf(CompData{}).Kind() {
		return MatchCompType(patternSelf.compType, (value).(CompData))
	}''','''	if Maybe.Just(value).IsPresent() && reflect.TypeOf(value).Kind() == reflect.TypeOf(CompData{}).Kind() {
		if compData, ok := (value).(CompData); ok {
			return MatchCompType(patternSelf.compType, compData)
		}
	}''')
commit('''fix: a sum-type pattern no longer panics on struct values that are not CompData

CompTypePatternDef.Matches asserted (value).(CompData) for every value of Kind Struct, so
Either(struct{A int}{1}, InCaseOfSumType(...), Otherwise(...)) panicked instead of falling through to
Otherwise. Use the comma-ok form and fall back to the plain CompType match.''', ['fp.go'])
