#!/bin/bash
# apply every stored behaviour-preserving edit (/verif/benign/<prop>-bN.diff) to /repo, run the property's quick check, revert:
# none of them may be reported
cd /verif
for f in benign/*.diff; do
  s=$(basename $f .diff); p=${s%%-*}
  if ! git -C /repo apply --check /verif/$f 2>/dev/null; then echo "$s patch-does-not-apply"; continue; fi
  git -C /repo apply /verif/$f
  (cd /repo && GOFLAGS=-mod=mod GOPROXY=off GOSUMDB=off GOTOOLCHAIN=local go build ./... 2>&1 | head -2)
  out=$(GOVC_EVIDENCE_DIR=/verif/out/evidence-experiments bin/govc check --property $p 2>&1)
  git -C /repo checkout -- .
  n=$(echo "$out" | grep -c "^VIOLATION")
  if [ "$n" -eq 0 ]; then echo "$s quiet"; else echo "$s FALSE-ALARM $n $(echo "$out" | grep "^VIOLATION" | sed 's/.*replays.[A-Z0-9]*.//; s/\.json.*//' | head -2 | tr '\n' ' ')"; fi
done
