#!/bin/bash
# usage: runpatch.sh <prop> <patch> [extra govc args]  -- run check on a scratch copy with patch applied
P=$1; F=$2; shift 2
S=$(mktemp -d /tmp/rp.XXXX); mkdir -p $S/repo; (cd /repo && git archive HEAD) | tar -x -C $S/repo
(cd $S/repo && git apply $F) || { echo "patch-does-not-apply"; rm -rf $S; exit 2; }
cd /verif; GOVC_SCRATCH=$S/out ${GOVC_BIN:-bin/govc} check --property $P --repo $S/repo --contracts mirror "$@" 2>&1 | grep -E "^VIOLATION|^govc:|^KNOWN" | sed 's/replay=.*replays.[A-Z0-9]*.//' | head -${MUTLINES:-8}
rm -rf $S
