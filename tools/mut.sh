#!/bin/bash
# usage: tools/mut.sh <prop> <file> <sed-expr>   -- apply a textual mutation to /repo, run the check, revert
P=$1; F=$2; E=$3
cd /repo && sed -i "$E" $F && (git diff --stat | tail -1) && (GOFLAGS=-mod=mod GOPROXY=off GOSUMDB=off GOTOOLCHAIN=local go build ./... 2>&1 | head -3)
cd /verif && GOVC_EVIDENCE_DIR=/verif/out/evidence-experiments bin/govc check --property $P --contracts mirror ${4:-} 2>&1 | grep -E "VIOLATION|govc:" | sed 's/replay=.*replays.[A-Z0-9]*.//' | head -${MUTLINES:-8}
git -C /repo checkout -- .
