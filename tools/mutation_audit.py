#!/usr/bin/env python3
"""Mutation audit of the contracts: small syntactic mutations are applied, one at a time, to the functions under contract in a
SCRATCH COPY of /repo; a mutant that compiles must be reported by the check of a property the function is under contract for
(run with --only on that function).  Survivors are either equivalent mutants or weak contracts; they are listed for inspection.

usage: tools/mutation_audit.py [--max-per-func N] [--props C03,C05] [--out file]
Nothing in /repo is touched; the scratch copy lives under the system temp dir and is removed at the end.
"""
import os, re, sys, json, random, shutil, subprocess, tempfile, argparse, glob

ENV = dict(os.environ, GOFLAGS="-mod=mod", GOPROXY="off", GOSUMDB="off", GOTOOLCHAIN="local")

MUTATIONS = [
    (r'(?<![<>=!])<(?![<=-])', '<='), (r'<=', '<'), (r'(?<![<>=!-])>(?![>=])', '>='), (r'>=', '>'),
    (r'==', '!='), (r'!=', '=='), (r'&&', '||'), (r'\|\|', '&&'),
    (r'\+ 1\b', '+ 2'), (r'- 1\b', '- 2'), (r'\+1\b', '+2'), (r'-1\b', '-2'), (r'\[0\]', '[1]'),
    (r'\btrue\b', 'false'), (r'\bfalse\b', 'true'), (r'\+\+', '--'), (r'\breturn nil, ', 'return nil, nil //'),
    (r'\bcontinue\b', 'break'), (r'\bbreak\b', 'continue'), (r'!(\w)', r'\1'),
]


# behaviour-preserving rewrites (--benign): none of them may be reported
EQUIV = [
    (r'\b(\w+(?:\.\w+)*) == (\w+(?:\.\w+)*)\b', r'\2 == \1'),
    (r'\b(\w+(?:\.\w+)*) != nil\b', r'nil != \1'),
    (r'\b(\w+)\+\+', r'\1 += 1'),
    (r'\b(\w+)--', r'\1 -= 1'),
    (r'\blen\((\w+)\) == 0\b', r'0 == len(\1)'),
    (r'\b(\w+) > 0\b', r'0 < \1'),
    (r'\b(\w+) < (\w+)\b', r'\2 > \1'),
]


def contracted():
    """(key, props, file, package-dir) for every function-level block of the mirror contracts"""
    out = {}
    for f in glob.glob('/verif/contracts/*.go') + glob.glob('/verif/contracts/network/*.go'):
        prefix = 'network:' if '/network/' in f else ''
        cur = None
        for l in open(f):
            m = re.match(r'//@ func\s+((\(\*?[A-Za-z0-9_]+\)\.)?[A-Za-z0-9_]+)\s*$', l)
            if m:
                cur = prefix + m.group(1).replace('(*', '(')
                out.setdefault(cur, set())
                continue
            if re.match(r'//@ func ', l):
                cur = None
            m = re.match(r'//@\s+prop\s+(\S+)', l)
            if m and cur:
                out[cur].update(m.group(1).split(','))
            m = re.match(r'//@ twin\s+(\S+)\s+(\S+)(\s+prop\s+(\S+))?', l)
            if m:
                src, dst = prefix + m.group(1), prefix + m.group(2)
                props = set(m.group(4).split(',')) if m.group(4) else set(out.get(src, []))
                out.setdefault(dst, set()).update(props)
    return out


_NAMES = None


def names_of(key):
    """declared variable names of the function (from `govc names`)"""
    global _NAMES
    if _NAMES is None:
        _NAMES = {}
        for pre in ('', 'network:'):
            cmd = ['/verif/bin/govc', 'names'] + (['--prefix', pre] if pre else [])
            r = subprocess.run(cmd, capture_output=True, text=True, env=ENV)
            for l in r.stdout.split('\n'):
                m = re.match(r'//@ vars (\S+): (.*)$', l)
                if m:
                    _NAMES[pre + m.group(1)] = sorted(set(e.split(':')[0] for e in m.group(2).split() if e != '|'))
    return _NAMES.get(key, [])


def find_func(repo, key):
    """-> (path, first body line, last body line) of the function with that contract key"""
    pkgdir = repo
    k = key
    if key.startswith('network:'):
        pkgdir, k = os.path.join(repo, 'network'), key[len('network:'):]
    m = re.match(r'\(([A-Za-z0-9_]+)\)\.([A-Za-z0-9_]+)$', k)
    for path in sorted(glob.glob(os.path.join(pkgdir, '*.go'))):
        if path.endswith('_test.go') or 'contracts_verif' in path:
            continue
        lines = open(path).read().split('\n')
        for i, l in enumerate(lines):
            if m:
                pat = r'^func \(\w+ \*?' + re.escape(m.group(1)) + r'(\[[^\]]*\])?\) ' + re.escape(m.group(2)) + r'[\[(]'
            else:
                pat = r'^func ' + re.escape(k) + r'[\[(]'
            if re.match(pat, l):
                j = i
                while j < len(lines) and lines[j] != '}':
                    j += 1
                return path, i + 1, j - 1
    return None


def main():
    ap = argparse.ArgumentParser()
    ap.add_argument('--max-per-func', type=int, default=4)
    ap.add_argument('--props', default='')
    ap.add_argument('--out', default='/verif/out/mutation_audit.jsonl')
    ap.add_argument('--seed', type=int, default=1)
    ap.add_argument('--benign', action='store_true', help='apply behaviour-preserving rewrites instead: none may be reported')
    ap.add_argument('--rename', action='store_true', help='behaviour-preserving: rename one local / parameter of the function consistently (implies --benign)')
    a = ap.parse_args()
    if a.rename:
        a.benign = True
    random.seed(a.seed)
    want = set(p for p in a.props.split(',') if p)
    scratch = tempfile.mkdtemp(prefix='govc-audit-')
    repo = os.path.join(scratch, 'repo')
    shutil.copytree('/repo', repo, ignore=shutil.ignore_patterns('.git'))
    out = open(a.out, 'a')
    stats = {'mutants': 0, 'killed': 0, 'survived': 0, 'nocompile': 0, 'mode': 'benign (killed = FALSE ALARM)' if a.benign else 'mutants'}
    try:
        funcs = contracted()
        for key in sorted(funcs):
            props = sorted(p for p in funcs[key] if not want or p in want)
            if not props or ('C02' in props and not want):
                continue
            loc = find_func(repo, key)
            if not loc:
                continue
            path, lo, hi = loc
            orig = open(path).read()
            lines = orig.split('\n')
            cands = []
            if a.rename:
                # one candidate per declared variable: the whole function with that name replaced (not after a dot, not a field key)
                names = names_of(key)
                for nm in names:
                    if nm in ('_',) or len(nm) == 0:
                        continue
                    new = nm + 'Rn'
                    pat = re.compile(r'(?<![\.\w])' + re.escape(nm) + r'(?!\w)(?!\s*:[^=])')
                    body = lines[lo - 1:hi + 2]
                    nb = [pat.sub(new, l.split('//')[0]) + ('//' + '//'.join(l.split('//')[1:]) if '//' in l else '') for l in body]
                    if nb != body:
                        cands.append((lo - 1, nb))
                random.shuffle(cands)
                done = 0
                for start, nb in cands:
                    if done >= a.max_per_func:
                        break
                    mutated = lines[:]
                    mutated[start:start + len(nb)] = nb
                    open(path, 'w').write('\n'.join(mutated))
                    pkg = './network' if key.startswith('network:') else '.'
                    b = subprocess.run(['go', 'build', pkg], cwd=repo, env=ENV, capture_output=True, text=True)
                    if b.returncode != 0:
                        stats['nocompile'] += 1
                        open(path, 'w').write(orig)
                        continue
                    done += 1
                    stats['mutants'] += 1
                    prop = props[0]
                    env = dict(ENV, GOVC_SCRATCH=os.path.join(scratch, 'out'))
                    r = subprocess.run(['/verif/bin/govc', 'check', '--property', prop, '--repo', repo, '--contracts', 'mirror', '--only', key], env=env, capture_output=True, text=True)
                    killed = 'VIOLATION property=' in r.stdout
                    viol = [l.split('replays/')[-1].split('.json')[0] for l in r.stdout.split('\n') if l.startswith('VIOLATION')][:2]
                    changed = [x.strip() for x, y in zip(nb, lines[start:start + len(nb)]) if x != y][:1]
                    rec = {'func': key, 'prop': prop, 'mode': 'rename', 'mutant': changed[0] if changed else '', 'killed': killed, 'by': viol}
                    out.write(json.dumps(rec) + '\n')
                    out.flush()
                    stats['killed' if killed else 'survived'] += 1
                    open(path, 'w').write(orig)
                open(path, 'w').write(orig)
                continue
            for ln in range(lo, hi + 1):
                code = lines[ln].split('//')[0]
                for pat, rep in (EQUIV if a.benign else MUTATIONS):
                    for mm in re.finditer(pat, code):
                        new = code[:mm.start()] + re.sub(pat, rep, code[mm.start():], count=1)
                        if new != code:
                            cands.append((ln, new + lines[ln][len(code):]))
            random.shuffle(cands)
            done = 0
            for ln, newline in cands:
                if done >= a.max_per_func:
                    break
                mutated = lines[:]
                mutated[ln] = newline
                open(path, 'w').write('\n'.join(mutated))
                pkg = './network' if key.startswith('network:') else '.'
                b = subprocess.run(['go', 'build', pkg], cwd=repo, env=ENV, capture_output=True, text=True)
                if b.returncode != 0:
                    stats['nocompile'] += 1
                    open(path, 'w').write(orig)
                    continue
                done += 1
                stats['mutants'] += 1
                prop = props[0]
                env = dict(ENV, GOVC_SCRATCH=os.path.join(scratch, 'out'))
                r = subprocess.run(['/verif/bin/govc', 'check', '--property', prop, '--repo', repo, '--contracts', 'mirror', '--only', key],
                                   env=env, capture_output=True, text=True)
                killed = 'VIOLATION property=' in r.stdout
                viol = [l.split('replays/')[-1].split('.json')[0] for l in r.stdout.split('\n') if l.startswith('VIOLATION')][:2]
                rec = {'func': key, 'prop': prop, 'line': ln + 1, 'orig': lines[ln].strip(), 'mutant': newline.strip(), 'killed': killed, 'by': viol}
                out.write(json.dumps(rec) + '\n')
                out.flush()
                stats['killed' if killed else 'survived'] += 1
                open(path, 'w').write(orig)
            open(path, 'w').write(orig)
    finally:
        shutil.rmtree(scratch, ignore_errors=True)
    print(json.dumps(stats))


if __name__ == '__main__':
    main()
