#!/usr/bin/env python3
# greedy deletion-based minimisation of the asserts of an SMT file that is unsat (debugging vacuity)
import sys,subprocess,tempfile,os
f=sys.argv[1]
lines=open(f).read().split('\n')
head=[l for l in lines if not l.startswith('(assert') and not l.startswith('(check-sat') and not l.startswith('(get-model')]
asserts=[l for l in lines if l.startswith('(assert')]
def unsat(asrts):
    with tempfile.NamedTemporaryFile('w',suffix='.smt2',delete=False) as t:
        t.write('\n'.join(head+asrts+['(check-sat)'])); name=t.name
    out=subprocess.run(['z3','-T:5',name],capture_output=True,text=True).stdout.strip().split('\n')[0]
    os.unlink(name)
    return out=='unsat'
assert unsat(asserts), "not unsat"
i=0
while i<len(asserts):
    trial=asserts[:i]+asserts[i+1:]
    if unsat(trial): asserts=trial
    else: i+=1
print(len(asserts),"assertions in a minimal unsat subset:")
for a in asserts: print(a[:600]); print()
