#!/bin/bash
# run every claimed check (quick tier) and print one line each
cd /verif
for p in $(python3 -c "import json;print(' '.join(c['property_id'] for c in json.load(open('MANIFEST.json'))['checks']))"); do
  bin/govc check --property $p ${1:-} 2>&1 | grep -E "VIOLATION|govc:" | sed 's/replay=.*replays.[A-Z0-9]*.//' | tail -3
done
