#!/bin/bash
# usage: tools/run_seed.sh <seed-id> [prop]  -- apply a stored seeded change to /repo, run the property's check, undo it
S=$1; P=${2:-${S%%-*}}
git -C /repo apply /verif/seeded/$S/patch.diff || exit 2
cd /verif && GOVC_EVIDENCE_DIR=/verif/out/evidence-experiments bin/govc check --property $P --contracts mirror 2>&1 | grep -E "VIOLATION|govc:" | sed 's/replay=.*replays.[A-Z0-9]*.//' | head -${MUTLINES:-6}
git -C /repo checkout -- .
