#!/bin/bash
# run every stored seeded change against its property's check; one line per seed: <seed> <detected|MISSED|n/a> <failed-count> <first obligations>
cd /verif
claimed=$(python3 -c "import json;print(' '.join(c['property_id'] for c in json.load(open('MANIFEST.json'))['checks']))")
for d in seeded/*/; do
  s=$(basename $d); p=${s%%-*}
  if ! echo " $claimed " | grep -q " $p "; then echo "$s n/a (property not claimed)"; continue; fi
  if ! git -C /repo apply --check /verif/seeded/$s/patch.diff 2>/dev/null; then echo "$s patch-does-not-apply"; continue; fi
  git -C /repo apply /verif/seeded/$s/patch.diff
  out=$(GOVC_EVIDENCE_DIR=/verif/out/evidence-experiments bin/govc check --property $p 2>&1)
  git -C /repo checkout -- .
  n=$(echo "$out" | grep -c "^VIOLATION")
  first=$(echo "$out" | grep "^VIOLATION" | sed 's/.*replays.[A-Z0-9]*.//; s/\.json.*//' | head -3 | tr '\n' ' ')
  if [ "$n" -gt 0 ]; then echo "$s detected $n $first"; else echo "$s MISSED 0"; fi
done
