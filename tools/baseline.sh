#!/bin/bash
# Run the repository's test suite (guard off) up to N times and check that every test of the pinned stable
# baseline passes in at least one run (the suite contains flaky tests whose panic kills the test binary).
export GOFLAGS=-mod=mod GOPROXY=off GOSUMDB=off GOTOOLCHAIN=local
REPO=${1:-/repo}
N=${2:-6}
OUT=$(mktemp)
for i in $(seq 1 $N); do
  (cd "$REPO" && go test -json -vet=off -count=1 -timeout 25m ./... >> "$OUT" 2>/dev/null)
  if python3 - "$OUT" <<'PY'
import json,sys
base=json.load(open('/root/.vp/BASELINE.json'))['stable_pass']
ok=set()
for l in open(sys.argv[1]):
    try: e=json.loads(l)
    except: continue
    if e.get('Test') and e.get('Action')=='pass' and '/' not in e['Test']:
        ok.add(e['Package']+'::'+e['Test'])
bad=[t for t in base if t not in ok]
print('stable baseline: %d/%d pass'%(len(base)-len(bad),len(base)))
for t in bad: print('  NOT PASSING:',t)
sys.exit(1 if bad else 0)
PY
  then rm -f "$OUT"; exit 0; fi
done
rm -f "$OUT"; exit 1
