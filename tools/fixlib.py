import re,sys
def func_span(src, name):
    m = re.search(r'^func \(maybeSelf someDef\[T\]\) %s\(' % re.escape(name), src, re.M)
    start = m.start()
    end = src.index('\n}\n', start) + 3
    return start, end
def case_span(body, kind):
    m = re.search(r'^\tcase %s:\n' % re.escape(kind), body, re.M)
    s = m.end()
    m2 = re.search(r'^\t(case |default:|\})', body[s:], re.M)
    return s, s + m2.start()
def replace_case(src, fn, kind, newbody):
    a,b = func_span(src, fn)
    body = src[a:b]
    s,e = case_span(body, kind)
    body = body[:s] + newbody + body[e:]
    return src[:a] + body + src[b:]
def get_case(src, fn, kind):
    a,b = func_span(src, fn)
    body = src[a:b]
    s,e = case_span(body, kind)
    return body[s:e]
