#!/usr/bin/env python3
# Generates /verif/MANIFEST.json from the table below (kept in one place so that it always validates).
import json, subprocess
TECH = "contract-based deductive verification: //@ contracts on the real functions, VCs generated from the typed Go AST of /repo's working tree (symbolic execution / weakest preconditions), discharged by z3 4.8.12 / z3 5.1.0 / cvc5 racing per obligation"
checks = {
 "C02": dict(
   text="Proof, for all values of all 14 numeric/bool source types and (via an uninterpreted denotation) all numeric strings, that each of the 16 Maybe conversion methods satisfies: absent => (zero, ErrConversionNil); nil error => exactly the same number (round-half-away for float->int, nearest for ->float); fits => nil error; outside the target range => non-nil error; unsupported kind => ErrConversionUnsupported. One quantifier-free BV/IEEE-FP obligation per method x source kind x clause x return path, generated from the real method bodies; sibling conversions are used through their contracts only. Counterexamples are exact inputs and are replayed on the real code with a math/big oracle.",
   note="Trusted: govc's translation (ints as 64-bit vectors for int/uint/uintptr, IEEE semantics of SMT-LIB FP, float->int = fp.to_sbv/ubv RTZ with unspecified out-of-range result), math.Round = roundToIntegral RNA, strconv.ParseInt/ParseUint/ParseFloat/ParseBool/Atoi contracts (the number a text denotes is an uninterpreted function of the text), reflect kind facts for the 15 source types, the SMT solvers. 32-bit int/uint targets are not re-verified.",
   ref="5 C02"),
}
checks["C03"] = dict(
   text="Proof, for all slices/maps over an abstract element type, all pure callbacks and all integer arguments, that 41 collection helpers of fp.go return the value their definition prescribes (index-wise for sequence results; membership/value-wise for map results; filter-like results through ghost index maps that pin the result down to exactly the kept elements in order), that results documented as new are freshly allocated, that inputs are unchanged (every store is proved to hit storage allocated by the call), and that no index, slice bound, nil-map write or division can panic for any count/size/hop. Loops carry inductive invariants; callers (Reject, Tail, Flatten) use callee contracts only.",
   note="Trusted: govc's translation (mathematical integers: overflow of len sums is not modelled; Numeric T is modelled as an integer type; floats excluded), callbacks are deterministic and heap-neutral, element == is a total equivalence (no NaN / non-comparable dynamic types), map iteration visits each key present at loop entry exactly once, append growth model, SMT solvers. SplitEvery and GroupBy are verified for safety, freshness and their guarded corner only (their grouping is not specified); PMap belongs to C16 (n/a).",
   ref="5 C03")
checks["C06"] = dict(
   text="Proof that LinkedListQueue is an ideal deque for every finite history: a representation invariant (doubly linked list = ghost sequence nodes[lo..lo+count), free list = pn[plo..plo+nodeCount), both injective and disjoint, end links nil, every list node carries a value) is required and re-established by every method (Offer/Put/Push, Unshift, Poll/Take/Shift, Pop, Peek, Count, Clear, KeepNodePoolCount, ClearNodePool; helpers generateNode/recycleNode by their own contracts, putAllIntoPool inlined with loop invariants), each method's result and new abstract sequence are those of the ideal deque (removals return the head/tail value, ErrQueueIsEmpty/ErrStackIsEmpty exactly when empty, Count = length, all other stored values unchanged), pool maintenance leaves the stored values untouched, and no nil dereference is reachable under the invariant. NewLinkedListQueue establishes the invariant; induction over the history is the usual invariant argument.",
   note="Trusted: govc's heap model (per-field heaps, references of different Go types never alias), sync.Pool model: Get returns a non-nil node that the queue does not reference and that satisfies the pool invariant (Next/Prev/Val nil) which is proved at every Put; objects that existed at entry have birth <= 0 (assumed for the nodes named by the ghost witnesses); the step from 'invariant preserved by every method' to 'every history' is the standard induction and is not machine-checked; SMT solvers.",
   ref="5 C06")
checks["C08"] = dict(
   text="Proof of the ownership discipline from which linearizability follows: in each of the 6 methods of ConcurrentQueue/ConcurrentStack the call on the wrapped (non-thread-safe) object happens while the wrapper's RWMutex is held in exclusive mode (a read lock is rejected, since every delegated method mutates the wrapped structure - see C06), there is exactly one such call on every path, arguments and results are passed through unchanged, the lock is released in the matching mode on every return path, and the receiver holding the mutex is a pointer (a value receiver would lock a copy). No schedule is explored: the obligations are per call site and path.",
   note="Trusted: sync.RWMutex semantics; the meta-theorem (Herlihy-Wing) that 'acquire exclusive lock; one call on a sequential object; release' is linearizable w.r.t. the sequential specification with the delegated call as linearization point; the wrapped object is used only through the wrapper; the wrapped object is non-nil. Linearizability itself (a statement over all interleavings) is NOT explored or proved by the machine - only this sufficient discipline is.",
   ref="5 C08")
checks["C04"] = dict(
   text="Proof, per method of StreamDef (generic) and StreamForInterfaceDef, that (1) the returned stream's element sequence is the one the method's definition prescribes (index-wise; filter-like results via ghost index maps), (2) the receiver and the arguments read the same afterwards, (3) nothing that existed before the call is written - every store in the bodies and in their callees carries a frame obligation 'this storage was allocated by the call (or is in the declared modifies set)', which is what makes every previously obtained collection keep its elements for all programs - and (4) a result is the receiver itself or owns freshly allocated storage. The one documented in-place mutator covered (interface{} Remove) is verified against 'receiver modified and returned'. Len/Get/Contains/ToArray agree with the sequence and ToArray is a detached copy.",
   note="Covered: StreamFrom/StreamFromArray/FromArray, ToArray, Len, Get, Contains, Clone, Map, Filter, Reject, Distinct, Reverse, Remove, Concat, Append, Minus, RemoveItem, Intersection, IsSubset, IsSuperset for both families (39 functions). NOT yet covered (no contract, hence no claim): Sort/SortByIndex (see C19), Extend, FilterNotNil, the FromArrayXxx converters, and all MapSetDef / SetForInterfaceDef / StreamSetDef / StreamSetForInterfaceDef methods. The step from per-call frames to 'all earlier results, all programs' is the invariant induction of DESIGN.md 5-C04 (ownership: distinct live streams do not share storage unless one was returned as the receiver itself) and is not machine-checked. Trusted: as C03.",
   ref="5 C04")
checks["C05"] = dict(
   text="Proof that the slice and map set operations satisfy their membership characterisations for all operands (Minus, Intersection, Difference, Union, IsSubset, IsSuperset, MinusMapByKey, IsSubsetMapByKey, IsSupersetMapByKey; results that are sets are duplicate-free and ordered by the first operand where the code fixes an order), including the guarded corner cases for empty/nil operands, and that each generic function/method and its interface{} twin satisfy ONE shared contract text (Distinct, Exists, Keys, Values, Merge, SliceToMap, DuplicateMap, Minus, Intersection, IsSubset, IsSuperset, IsSubsetMapByKey, IsSupersetMapByKey and 17 Stream methods): both bodies are verified against the same characterisation, which determines the answer up to the order freedom it states.",
   note="The 'same answer' conclusion for twins rests on the shared contract determining the result (filter-like triple sub/mono/all; membership + no-duplicates for Union; exact boolean definitions): that determinacy argument is by inspection, not machine-checked. Precondition on Intersection/Difference: called with nil or at least one list. NOT yet covered: IntersectionMapByKey(+twin), DistinctRandom, the MapSet/StreamSet families and their twins. Trusted: as C03.",
   ref="5 C05")
checks["C01"] = dict(
   text="Proof, for all wrapped values (an abstract value sort with the reflect observers untyped/kind/nilref/elem), that IsNil(obj) is exactly 'untyped nil or nil pointer', that both constructors establish the well-formedness invariant isNil == absent(ref) && isPresent == !isNil (Just maps every absent value to None), and that under that invariant every observer of someDef and of None is the function of absent(ref) and ref the statement gives: IsPresent = !IsNil, Or, UnwrapInterface, Type (nil exactly when absent), ToString (\"<nil>\" when absent), Kind/IsPtr/IsValid/IsKind, FlatMap(f) = f(ref) (from which the monad laws follow), ToMaybe flattens exactly one level (a nested Maybe is returned as is, once), Clone/CloneTo return a well-formed Maybe. Every reflect call inside these methods (Value.IsNil, Elem, Interface, Type, Set, Type.Kind) and every type assertion carries its panic precondition as an obligation, so 'no observer panics' is proved for all v. The conversions' absent-case is C02's clause N.",
   note="Trusted: the reflect axioms (Kind()==Invalid iff zero Value; IsNil/Elem/Interface/Type/Set panic conditions; Elem/Indirect of nil and non-nil pointers; New; pointer types determined by element types), govc's boxing model of interface values and type parameters (a value of static type T has dynamic type T unless nil interface), interface observers munwrap for MaybeDef values with the dispatch fact for someDef assumed in Clone, 'the zero value of a pointer-kinded type is absent' (assumed in Clone), fmt.Sprintf total. Let (callback exactly once) and Clone's 'distinct copy of the pointee' are NOT covered (no call-count ghost for Let yet; reflect copies are not modelled beyond freshness). The monad laws are consequences of FlatMap's contract and are not separately machine-checked lemmas.",
   ref="5 C01")
checks["C18"] = dict(
   text="Proof over a ghost event trace that recursiveVisit(req, i) (and RoundTrip = recursiveVisit(req, 0)) invokes the registered interceptors i, i+1, ... exactly once each, in list order, with the same request pointer, stops after the first one that returns an error (returning (nil, that error) and never reaching the transport), and otherwise ends with exactly one call of the wrapped transport with that request whose error result it returns - for every list length and every position of the failing interceptor (recursive contract; callee used by contract). SetHTTPClient re-establishes the object invariant (client.Transport == self, lastTransport == self, wrapped transport non-nil and not self) for any client and is idempotent on an already wrapped client; AddInterceptor grows the list by exactly the given interceptors through the persistent Stream.Append and - by the frame obligations - never writes existing storage; Clear empties the list; Remove/Add/Clear leave the transport fields alone.",
   note="Trusted: http.Client.Do invokes client.Transport.RoundTrip once per request (no redirects); interceptors do not edit the interceptor list while running; interceptor pointers in the list and the interceptors they point to are non-nil (precondition); http.DefaultTransport is non-nil and not this object. NOT proved: the element-level result of AddInterceptor (only its length, frame and field preservation) and of RemoveInterceptor (only shrink + frame); DoRequest/Do* wrappers. Trace model of callbacks: one synchronous call event per invocation.",
   ref="5 C18")
checks["C11"] = dict(
   text="Proof over a ghost event trace (one event per invocation of a user function value, per Post to a handler) that building or composing a MonadIO (Just, New, FlatMap, SubscribeOn, ObserveOn) adds no event - no user function runs - and records exactly the given effect/handlers (ObserveOn/SubscribeOn keep the other handler and the effect, whether they mutate or copy); that each run of FlatMap's composed effect is: the receiver's effect once, then the bind function once on its value, then the resulting MonadIO's effect once, returning that value (verified as a closure unit for arbitrary captured state, so also on the second and later evaluations); that Eval is exactly one call of the effect whose value it returns; that doSubscribe/Subscribe do nothing without OnNext, otherwise run effect then OnNext(value) inline, or make exactly one Post of the observing closure to the observe handler - and that closure (own unit) runs the effect once and then either calls the delivering closure or Posts it to the subscribe handler; the delivering closure calls OnNext once with the produced value.",
   note="Trusted: Handler.Post runs a posted function exactly once on the handler goroutine (C12's per-goroutine facts + channel axioms); user functions given to FlatMap return a non-nil MonadIO with an effect; handlers are open; callbacks are modelled as one event each (what they do internally is not traced). The monad laws and 'any composition depth' follow by structural induction from FlatMap's closure contract (callee used by contract); that induction is not machine-checked. Goroutine identity ('on h1's goroutine') is represented by 'only via Post to h1'.",
   ref="5 C11")
checks["C12"] = dict(
   text="Proof of the per-goroutine facts from which the mailbox statement follows: NewByCh / ActorNewByOptionsGenerics start exactly one consumer goroutine for the given channel; the consumer loops (Handler.run, Actor.run) perform, for the k messages received so far, exactly k synchronous calls, of exactly those functions (resp. of the actor's effect with the actor itself as first argument), in receive order, and nothing else (a `go` in the body is a different event kind and fails the invariant); Post/Send on an open object is exactly one channel send of exactly that value and on a closed object does nothing; Close sets the flag and closes the channel once; Spawn returns a fresh independent actor (own channel, own consumer) registered under an open parent (parent pointer and children map) and unregistered under a closed one; GetParent/GetChild/IsClosed read those fields.",
   note="NOT explored: goroutine schedules. The step from these facts to 'each submitted item processed exactly once, never two at a time, in each sender's order' uses the trusted channel axioms (FIFO, each value received exactly once, single consumer) and is a pen-and-paper composition (DESIGN.md 5-C12). Assumed: nobody posts a nil function; ids from time.Now() are distinct; channel fields are non-nil when closed. The send/close races at shutdown belong to C15 (not claimed).",
   ref="5 C12")
na = {
 "C07": "quantifies over producer/consumer/loader interleavings and includes liveness (nothing stranded, wake-ups not lost); no per-function contract expresses cross-goroutine exactly-once hand-over or eventual loading (DESIGN.md 6).",
 "C09": "every clause is about goroutine scheduling, timers and recovery from panics in other goroutines; the named defect is a lost wake-up (liveness under a fault) (DESIGN.md 6).",
 "C16": "order preservation / exactly-once / concurrency bound / termination over all worker interleavings and pool sizes; the only sequential fact is the worker-count formula (DESIGN.md 6).",
}
pending = {}
try:
    pending = json.load(open('/verif/tools/pending.json'))
except Exception:
    pass
m = {
 "version": 1,
 "setup_cmd": "cd /verif/cmd/govc && GOFLAGS=-mod=vendor GOPROXY=off GOSUMDB=off GOTOOLCHAIN=local go build -o /verif/bin/govc . && cd /verif && bin/govc list >/dev/null",
 "hooks": {
  "guard": "verif",
  "enable": "govc loads /repo with go/packages and the build tag verif; the only guarded files are comment-only contracts_verif.go files (no code is compiled in), so hooks change nothing at run time",
  "baseline_off_cmd": "cd /repo && GOFLAGS=-mod=mod GOPROXY=off GOSUMDB=off go test -json -vet=off -count=1 -timeout 25m ./...",
  "source_commits": [],
  "add_only": True,
 },
 "engines": [{"name": "govc", "path": "cmd/govc", "serves_properties": sorted(checks.keys()), "kind_free_text": "self-written deductive verifier for a subset of Go: contract parser, typed-AST symbolic executor producing named obligations, SMT-LIB printer, solver portfolio, model replay via go test -overlay"}],
 "checks": [],
 "not_applicable": [],
 "notes": "All checks are `bin/govc check --property <id>`; evidence is rewritten on every run; known_findings.json lists repaired (status fixed) and open defects.",
}
try:
    hc = subprocess.run(["git","-C","/repo","log","--format=%H","--grep=^verif:"],capture_output=True,text=True).stdout.split()
    m["hooks"]["source_commits"] = hc
except Exception:
    pass
for pid in sorted(checks):
    c = checks[pid]
    m["checks"].append({
      "property_id": pid,
      "quick_cmd": f"bin/govc check --property {pid} --tier quick",
      "thorough_cmd": f"bin/govc check --property {pid} --tier thorough",
      "evidence_file": f"evidence/{pid}.json",
      "replay_cmd_template": "bin/govc replay {path}",
      "engine": "govc",
      "level_claimed": {"category": "proof", "text": c["text"], "design_ref": c["ref"]},
      "level_note": c["note"],
      "technique": TECH,
    })
allp = [json.loads(l)["id"] for l in open('/verif/properties.jsonl')]
for pid in allp:
    if pid in checks: continue
    reason = na.get(pid) or pending.get(pid) or "contract-based check not built yet in this session: the engine does not yet cover the constructs this property's functions need; not claimed (no other technique is substituted)."
    m["not_applicable"].append({"property_id": pid, "reason": reason})
json.dump(m, open('/verif/MANIFEST.json','w'), indent=1)
print("checks:", [c["property_id"] for c in m["checks"]], "n/a:", len(m["not_applicable"]))
