#!/bin/bash
# usage: tools/sweep_par.sh seeded|benign [jobs]  -- every stored seeded change / behaviour-preserving edit is applied to its own
# scratch copy of /repo (HEAD) and the property's quick check is run there (mirror contracts), `jobs` at a time.
# One line per item:  <id> detected|MISSED|quiet|FALSE-ALARM <n> <first obligations>
kind=$1; J=${2:-4}; cd /verif
one() {
  kind=$1; f=$2
  if [ $kind = seeded ]; then s=$(basename $f); patch=/verif/seeded/$s/patch.diff; else s=$(basename $f .diff); patch=/verif/$f; fi
  p=${s%%-*}
  S=$(mktemp -d /tmp/sw.XXXXXX); mkdir -p $S/repo; (cd /repo && git archive HEAD) | tar -x -C $S/repo
  if ! (cd $S/repo && git apply $patch 2>/dev/null); then echo "$s patch-does-not-apply"; rm -rf $S; return; fi
  out=$(GOVC_SCRATCH=$S/out bin/govc check --property $p --repo $S/repo --contracts mirror 2>&1)
  n=$(echo "$out" | grep -c "^VIOLATION")
  first=$(echo "$out" | grep "^VIOLATION" | sed 's/.*replays.[A-Z0-9]*.//; s/\.json.*//' | head -3 | tr '\n' ' ')
  w=$(echo "$out" | grep '^govc:' | sed 's/.*wall=//')
  if [ $kind = seeded ]; then
    if [ "$n" -gt 0 ]; then echo "$s detected $n $first ($w)"; else echo "$s MISSED 0 ($w)"; fi
  else
    if [ "$n" -eq 0 ]; then echo "$s quiet ($w)"; else echo "$s FALSE-ALARM $n $first ($w)"; fi
  fi
  rm -rf $S
}
export -f one
if [ $kind = seeded ]; then ls -d seeded/*/ | sed 's|/$||'; else ls benign/*.diff; fi | xargs -P $J -I{} bash -c "one $kind {}" | sort
