#!/usr/bin/env python3
"""regenerate the table of DESIGN.md 13.6 and the detected_by entries of seeded/*/meta.json from a sweep output
(tools/sweep_par.sh seeded > out/seed_sweep.txt): usage tools/gen_seed_table.py out/seed_sweep.txt"""
import json, os, re, sys
rows = []
for line in open(sys.argv[1]):
    parts = line.strip().split(' ')
    if len(parts) < 2 or not re.match(r'C\d\d-\d+$', parts[0]):
        continue
    sid, status = parts[0], parts[1]
    obs = [p.replace('__', '/') for p in parts[3:] if p.startswith('C') and '__' in p]
    title = ''
    notes = f'/verif/seeded/{sid}/notes.md'
    if os.path.exists(notes):
        for l in open(notes):
            if l.strip():
                title = re.sub(r'^#+\s*(Seeded change \d+|Seed \d+|Change \d+|C\d\d[- ]\d)?\s*[-—–:]*\s*', '', l.strip())
                break
    title = title.replace('|', '\\|')
    if len(title) > 170:
        title = title[:167] + '...'
    rows.append((sid, status, title, obs[:2]))
    mp = f'/verif/seeded/{sid}/meta.json'
    if os.path.exists(mp):
        meta = json.load(open(mp))
        meta['detected_by'] = [{"check": sid.split('-')[0], "tier": "quick", "obligations": obs}] if status == 'detected' else None
        if status != 'detected':
            meta['not_detected_note'] = 'see DESIGN.md 13.10/13.11'
        json.dump(meta, open(mp, 'w'), indent=1)
tbl = ["| seed | change | caught by (property's quick check; first failing obligations) |", "|---|---|---|"]
for sid, status, title, obl in sorted(rows, key=lambda r: (r[0].split('-')[0], int(r[0].split('-')[1]))):
    tbl.append(f"| {sid} | {title} | {'**not detected**' if status != 'detected' else '; '.join('`' + o + '`' for o in obl)} |")
d = open('/verif/DESIGN.md').read()
i = d.index("| seed | change | caught by")
j = d.index("\n\n", i)
d = d[:i] + '\n'.join(tbl) + d[j:]
open('/verif/DESIGN.md', 'w').write(d)
print(len(rows), 'seeds;', sum(1 for r in rows if r[1] != 'detected'), 'not detected')
