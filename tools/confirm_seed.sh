#!/bin/bash
# usage: tools/confirm_seed.sh <prop> <n>   -- confirm a seeded change produced by a sub-agent in /tmp/wt/<prop>/seeded_out/<n>
# (demo passes on the unchanged tree, fails with the patch; stable baseline passes with the patch), then store it under /verif/seeded/<prop>-<n>/
export GOFLAGS=-mod=mod GOPROXY=off GOSUMDB=off GOTOOLCHAIN=local
P=$1; N=$2; SRC=/tmp/wt/$P/seeded_out/$N
[ -f $SRC/patch.diff ] || { echo "no patch in $SRC"; exit 2; }
W=$(mktemp -d /tmp/seedchk.XXXX); rmdir $W
git -C /repo worktree add -q --detach $W HEAD || exit 2
trap "git -C /repo worktree remove --force $W" EXIT
DIR=$(cat $SRC/where.txt 2>/dev/null | tr -d ' \n'); [ -z "$DIR" ] && DIR=.
cp $SRC/zz_seeded_demo_test.go $W/$DIR/
cd $W
CLEAN=$(go test -vet=off -count=1 -run 'TestSeededDemo' ./$DIR 2>&1 | tail -1)
git apply $SRC/patch.diff || { echo "patch does not apply"; exit 1; }
go build ./... || { echo "does not build"; exit 1; }
MUT=$(go test -vet=off -count=1 -run 'TestSeededDemo' ./$DIR 2>&1 | tail -1)
rm $W/$DIR/zz_seeded_demo_test.go
BASE=$(/verif/tools/baseline.sh $W 6 | tail -1)
echo "clean: $CLEAN | mutated: $MUT | $BASE"
case "$CLEAN" in ok*) ;; *) echo "REJECT: demo does not pass on the unchanged tree"; exit 1;; esac
case "$MUT" in FAIL*) ;; *) echo "REJECT: demo does not fail with the change"; exit 1;; esac
case "$BASE" in *"37/37"*) ;; *) echo "REJECT: baseline broken"; exit 1;; esac
D=/verif/seeded/$P-$N; mkdir -p $D
cp $SRC/patch.diff $D/patch.diff; cp $SRC/zz_seeded_demo_test.go $D/; cp $SRC/notes.md $D/notes.md 2>/dev/null
python3 - "$P" "$N" "$DIR" "$CLEAN" "$MUT" "$BASE" <<'PY'
import json,sys,re
p,n,d,clean,mut,base=sys.argv[1:7]
notes=open(f'/verif/seeded/{p}-{n}/notes.md').read() if True else ''
first=[l.strip() for l in notes.splitlines() if l.strip() and not l.startswith('#')][:3]
meta={"property":p,"id":f"{p}-{n}","demo_dir":d,"breaks":first[0] if first else "", "needs_to_manifest":"see notes.md",
 "confirmed":{"demo_on_unchanged_tree":clean,"demo_with_change":mut,"stable_baseline_with_change":base,
   "commands":["git apply patch.diff","go test -vet=off -count=1 -run TestSeededDemo ./"+d,"/verif/tools/baseline.sh <worktree>"]},
 "detected_by":None}
json.dump(meta,open(f'/verif/seeded/{p}-{n}/meta.json','w'),indent=1)
PY
echo "ACCEPTED -> $D"
