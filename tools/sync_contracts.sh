#!/bin/bash
# Copy the contract files authored in /verif/contracts (mirror) into /repo as guarded, comment-only files and commit them
# there as a hook commit ("verif: ..."). /repo must have no other pending change.
set -e
cd /repo
if [ -n "$(git status --porcelain)" ]; then echo "repo not clean" >&2; exit 2; fi
cp /verif/contracts/contracts_verif*.go /repo/
cp /verif/contracts/network/contracts_verif*.go /repo/network/
gofmt -l /repo/contracts_verif*.go /repo/network/contracts_verif*.go
git add contracts_verif*.go network/contracts_verif*.go
if git diff --cached --quiet; then echo "contracts already in sync"; exit 0; fi
git commit -qm "verif: contracts for /verif/bin/govc (comment-only files behind the build tag verif)${1:+ - $1}"
git log --oneline | head -1
