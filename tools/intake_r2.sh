#!/bin/bash
# usage: tools/intake_r2.sh <prop>  -- take in what a round-2 sub-agent left in /tmp/wt/<prop>: confirm and store the seeded changes
# (seeded_out/4..6), check and store the behaviour-preserving refactorings (benign_out/1..2), then run the property's quick check on
# a scratch copy of /repo with each of them applied.  Prints one line per item.
export GOFLAGS=-mod=mod GOPROXY=off GOSUMDB=off GOTOOLCHAIN=local
P=$1; cd /verif
SEEDS=${SEEDS:-4 5 6}; BENIGN=${BENIGN:-1 2}; TAG=${TAG:-r2}
for N in $SEEDS; do
  [ -f /tmp/wt/$P/seeded_out/$N/patch.diff ] || continue
  [ -d seeded/$P-$N ] || tools/confirm_seed.sh $P $N 2>&1 | tail -2 | tr '\n' ' '
  echo
done
for N in $BENIGN; do
  src=/tmp/wt/$P/benign_out/$N
  [ -f $src/patch.diff ] || continue
  if grep -qs "$TAG:$P:$N" benign/*.txt; then continue; fi
  W=$(mktemp -d /tmp/benchk.XXXX); rmdir $W
  git -C /repo worktree add -q --detach $W HEAD
  if (cd $W && git apply $src/patch.diff && go build ./... ); then
    B=$(tools/baseline.sh $W 6 | tail -1)
  else B="does-not-apply-or-build"; fi
  git -C /repo worktree remove --force $W
  case "$B" in *"37/37"*)
    k=1; while [ -f benign/$P-b$k.diff ]; do k=$((k+1)); done
    cp $src/patch.diff benign/$P-b$k.diff
    { echo "$TAG:$P:$N  (sub-agent refactoring; baseline with it: $B)"; cat $src/notes.md; } > benign/$P-b$k.txt
    echo "benign $N -> benign/$P-b$k.diff ($B)";;
  *) echo "benign $N REJECTED: $B";;
  esac
done
# run the check on a scratch copy with each new item applied
S=$(mktemp -d /tmp/intake.XXXX)
run() { # name patch
  rm -rf $S/repo; mkdir -p $S/repo; (cd /repo && git archive HEAD) | tar -x -C $S/repo
  (cd $S/repo && git apply $2) || { echo "$1 patch-does-not-apply"; return; }
  out=$(GOVC_SCRATCH=$S/out bin/govc check --property $P --repo $S/repo --contracts mirror 2>&1)
  n=$(echo "$out" | grep -c "^VIOLATION")
  first=$(echo "$out" | grep "^VIOLATION" | sed 's/.*replays.[A-Z0-9]*.//; s/\.json.*//' | head -3 | tr '\n' ' ')
  echo "$1 violations=$n $first | $(echo "$out" | grep '^govc:' | sed 's/.*obligations/obligations/')"
}
for N in $SEEDS; do [ -d seeded/$P-$N ] && run "seed $P-$N" /verif/seeded/$P-$N/patch.diff; done
for f in benign/$P-b*.txt; do grep -q "^$TAG:$P:" $f && run "benign $(basename $f .txt)" /verif/${f%.txt}.diff; done
rm -rf $S
